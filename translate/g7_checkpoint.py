"""G7 — the checkpoint protocol as written in /repo's current source (Python `ast` only).

Emits lean/TempestVerif/Gen/CheckpointSM.lean (`generate_sm`): StateManager.save_state's operation sequence
(`stateManagerSave`, temp name by `with_suffix`), the pickled dictionary / `exclude` handling, load_state's and
from_dict's shape — and lean/TempestVerif/Gen/Checkpoint.lean (`generate`):
  * SamplerCore.save_sampler_state: the ordered file-affecting calls abstracted to the `Model.FS.FsOpOf Unit`
    alphabet with symbolic paths "dir" / "tmp" / "final" (which name is opened for writing, dill.dump, f.flush,
    os.fsync, end of the `with` = close, os.replace / os.rename and its two names), and the shape of the pool
    detachment (detach before pickling, re-attach in `finally`);
  * SamplerCore.load_sampler_state: the StateManager method that receives the unpickled dictionary and whether its
    result is dropped, the `required_keys` defaults table and the shape of the defaults loop;
  * SamplerCore.execute_iteration / run_sampling: the shape of the save-cadence test, that `iter` is read before
    Reweighter.run increments it, the checkpoint file names, the final save after the loop, `t0` from the
    restored `iter`.
The translator never guesses: a construct it does not recognise makes it return status `unavailable`.
"""
import ast
import os
import struct

from harness import common


class Unavailable(Exception):
    pass


NAME = "G7-checkpoint"


def _parse(rel):
    path = os.path.join(common.REPO, rel)
    with open(path) as fh:
        return ast.parse(fh.read(), filename=path)


def _find_func(tree, cls, name):
    for node in ast.walk(tree):
        if isinstance(node, ast.ClassDef) and node.name == cls:
            for f in node.body:
                if isinstance(f, ast.FunctionDef) and f.name == name:
                    return f
    raise Unavailable(f"{cls}.{name} not found")


def _name(node):
    if isinstance(node, ast.Name):
        return node.id
    if isinstance(node, ast.Attribute):
        b = _name(node.value)
        return None if b is None else b + "." + node.attr
    return None


def _const_str(node):
    return node.value if isinstance(node, ast.Constant) and isinstance(node.value, str) else None


# ------------------------------------------------------------------ save_sampler_state
class _SaveWalker:
    """statement-order walk; `paths` maps local names to symbolic paths, `files` maps file variables to paths"""

    FILE_FUNCS = {"os.remove", "os.unlink", "os.truncate", "os.link", "os.symlink", "shutil.move", "shutil.copy",
                  "shutil.copyfile", "shutil.copy2", "os.write", "os.open", "os.rmdir", "os.makedirs"}

    def __init__(self, fn, expected_args=("self", "path")):
        args = [a.arg for a in fn.args.args]
        if args != list(expected_args):
            raise Unavailable(f"{fn.name} signature {args}")
        self.fn_name = fn.name
        self.paths = {"path": "final"}
        self.tmp_expr = None
        self.tmp_kind = ""        # how the temporary name is derived from the final one
        self.tmp_suffix = ""
        self.mkdir_parents = False
        self.files = {}
        self.ops = []
        self.rename_call = None

    # -- symbolic value of a path expression
    def path_of(self, node):
        n = _name(node)
        if n is not None:
            if n in self.paths:
                return self.paths[n]
            raise Unavailable(f"path name `{n}` not bound to a recognised expression")
        if isinstance(node, ast.Call):
            f = _name(node.func)
            # Path(x) / str(x) / os.fspath(x)
            if f in ("Path", "str", "os.fspath", "pathlib.Path") and len(node.args) == 1 and not node.keywords:
                return self.path_of(node.args[0])
            # x.with_name(x.name + "<const>")
            if isinstance(node.func, ast.Attribute) and node.func.attr == "with_name" and len(node.args) == 1:
                base = self.path_of(node.func.value)
                a = node.args[0]
                if isinstance(a, ast.BinOp) and isinstance(a.op, ast.Add) and _const_str(a.right) is not None \
                        and isinstance(a.left, ast.Attribute) and a.left.attr == "name" \
                        and ast.dump(a.left.value) == ast.dump(node.func.value):
                    suffix = _const_str(a.right)
                    if base != "final":
                        raise Unavailable("temporary name derived from something else than `path`")
                    self.tmp_expr = ast.unparse(node)
                    self.tmp_kind, self.tmp_suffix = "append", suffix
                    return "final" if suffix == "" else "tmp"
            # x.with_suffix("<const>")   (REPLACES the suffix of the last component: the shape StateManager.save_state had
            # before /repo b1898a0 — recognised so that the obligation `smTmpNameKind = "append"` breaks visibly)
            if isinstance(node.func, ast.Attribute) and node.func.attr == "with_suffix" and len(node.args) == 1 \
                    and not node.keywords and _const_str(node.args[0]) is not None:
                base = self.path_of(node.func.value)
                suffix = _const_str(node.args[0])
                if base != "final":
                    raise Unavailable("temporary name derived from something else than `path`")
                if not (suffix.startswith(".") and len(suffix) > 1 and "/" not in suffix):
                    raise Unavailable(f"with_suffix({suffix!r}): not a proper suffix")
                self.tmp_expr = ast.unparse(node)
                self.tmp_kind, self.tmp_suffix = "replace_suffix", suffix
                return "tmp"          # distinct from the final name unless the final name already has this suffix
        raise Unavailable(f"unrecognised path expression `{ast.unparse(node)}`")

    def call(self, node):
        """file effect of one call expression (None = no effect on files)"""
        f = _name(node.func)
        if f is None and isinstance(node.func, ast.Attribute) and node.func.attr == "mkdir" \
                and isinstance(node.func.value, ast.Attribute) and node.func.value.attr == "parent":
            # Path(path).parent.mkdir(...)
            if self.path_of(node.func.value.value) != "final":
                raise Unavailable("mkdir on the parent of something else than `path`")
            self.mkdir_parents = any(kw.arg == "parents" and isinstance(kw.value, ast.Constant) and kw.value.value is True
                                     for kw in node.keywords)
            self.ops.append(("mkdir", "dir"))
            return
        if f is None:
            # e.g. path.parent.mkdir is a Name chain, so this is something like foo().bar()
            if any(isinstance(s, ast.Call) and _name(s.func) in ("open",) for s in ast.walk(node)):
                raise Unavailable("open() inside an expression")
            return
        if f == "open":
            raise Unavailable("open() outside a `with` item")
        if f.endswith(".mkdir"):
            base = f[: -len(".mkdir")]
            if base.endswith(".parent") and self.paths.get(base[: -len(".parent")]) == "final":
                self.mkdir_parents = any(kw.arg == "parents" and isinstance(kw.value, ast.Constant) and kw.value.value is True
                                         for kw in node.keywords)
                self.ops.append(("mkdir", "dir"))
                return
            raise Unavailable(f"mkdir on `{base}`")
        if f in ("dill.dump", "pickle.dump"):
            target = None
            if len(node.args) >= 2:
                target = node.args[1]
            for kw in node.keywords:
                if kw.arg == "file":
                    target = kw.value
            t = _name(target) if target is not None else None
            if t not in self.files:
                raise Unavailable("dump() to something that is not an open file of this function")
            self.ops.append(("write", self.files[t]))
            return
        if f in ("os.replace", "os.rename"):
            if len(node.args) != 2 or node.keywords:
                raise Unavailable(f"{f} with unexpected arguments")
            self.ops.append(("rename", self.path_of(node.args[0]), self.path_of(node.args[1])))
            self.rename_call = f
            return
        if f == "os.fsync":
            if len(node.args) == 1:
                a = node.args[0]
                t = None
                if isinstance(a, ast.Call) and isinstance(a.func, ast.Attribute) and a.func.attr == "fileno":
                    t = _name(a.func.value)
                else:
                    t = _name(a)
                if t in self.files:
                    self.ops.append(("fsync", self.files[t]))
                    return
            raise Unavailable("os.fsync of an unrecognised descriptor")
        if f in self.FILE_FUNCS or f.startswith("shutil."):
            raise Unavailable(f"file-affecting call `{f}` not in the alphabet")
        if isinstance(node.func, ast.Attribute):
            recv = _name(node.func.value)
            if recv in self.files:
                m = node.func.attr
                if m == "write":
                    self.ops.append(("write", self.files[recv]))
                elif m == "flush":
                    self.ops.append(("flush", self.files[recv]))
                elif m == "close":
                    self.ops.append(("close", self.files[recv]))
                elif m in ("fileno",):
                    pass
                else:
                    raise Unavailable(f"file method `{m}`")
                return
            if recv in self.paths and node.func.attr in ("write_bytes", "write_text", "unlink", "rename", "replace", "touch", "open"):
                raise Unavailable(f"Path method `{node.func.attr}` not in the alphabet")

    def expr_calls(self, node):
        """calls of an expression in evaluation order (inner first is irrelevant here: one effect per statement)"""
        calls = [c for c in ast.walk(node) if isinstance(c, ast.Call)]
        calls.sort(key=lambda c: (c.end_lineno, c.end_col_offset))
        # calls that only build a path value (Path(path), Path(path).parent) are part of a recognised outer call
        inner = set()
        for c in calls:
            if isinstance(c.func, ast.Attribute) and c.func.attr == "mkdir":
                inner.update(id(x) for x in ast.walk(c.func.value) if isinstance(x, ast.Call))
        for c in calls:
            if id(c) not in inner:
                self.call(c)

    def stmts(self, body):
        for s in body:
            self.stmt(s)

    def stmt(self, s):
        if isinstance(s, (ast.Import, ast.ImportFrom, ast.Pass, ast.Raise)):
            return
        if isinstance(s, ast.Expr):
            if isinstance(s.value, ast.Constant):
                return
            self.expr_calls(s.value)
            return
        if isinstance(s, ast.Assign):
            if len(s.targets) == 1 and isinstance(s.targets[0], ast.Name):
                tgt = s.targets[0].id
                # a (re)binding of a path-valued name
                try_path = None
                v = s.value
                if tgt in self.paths or (isinstance(v, ast.Call) and isinstance(v.func, ast.Attribute)
                                         and v.func.attr in ("with_name", "with_suffix", "joinpath", "parent")):
                    try_path = self.path_of(v)
                    self.paths[tgt] = try_path
                    return
            self.expr_calls(s.value)
            return
        if isinstance(s, ast.With):
            opened = []
            for item in s.items:
                ce = item.context_expr
                if isinstance(ce, ast.Call) and _name(ce.func) == "open":
                    if len(ce.args) < 2 or _const_str(ce.args[1]) is None:
                        raise Unavailable("open() without a literal mode")
                    mode = _const_str(ce.args[1])
                    if mode not in ("wb", "w"):
                        raise Unavailable(f"open() mode `{mode}` in the save path")
                    p = self.path_of(ce.args[0])
                    var = _name(item.optional_vars) if item.optional_vars is not None else None
                    if var is None:
                        raise Unavailable("`with open(...)` without a name")
                    self.files[var] = p
                    self.ops.append(("openTrunc", p))
                    opened.append(var)
                else:
                    self.expr_calls(ce)
            self.stmts(s.body)
            for var in reversed(opened):
                self.ops.append(("close", self.files.pop(var)))
            return
        if isinstance(s, ast.Try):
            self.stmts(s.body)
            for h in s.handlers:
                before = len(self.ops)
                self.stmts(h.body)
                if len(self.ops) != before:
                    raise Unavailable("file operations inside an exception handler")
            self.stmts(s.orelse)
            self.stmts(s.finalbody)
            return
        if isinstance(s, ast.If):
            before = len(self.ops)
            self.expr_calls(s.test)
            self.stmts(s.body)
            self.stmts(s.orelse)
            if len(self.ops) != before:
                raise Unavailable("conditional file operations")
            return
        if isinstance(s, ast.For):
            before = len(self.ops)
            self.expr_calls(s.iter)
            self.stmts(s.body)
            self.stmts(s.orelse)
            if len(self.ops) != before:
                raise Unavailable("file operations inside a loop")
            return
        raise Unavailable(f"statement `{type(s).__name__}` in {self.fn_name}")


def _is_setattr_pool(stmt, value_pred):
    """`object.__setattr__(self.config, "pool", <value>)`"""
    if isinstance(stmt, ast.Expr) and isinstance(stmt.value, ast.Call):
        c = stmt.value
        if _name(c.func) == "object.__setattr__" and len(c.args) == 3 and _name(c.args[0]) == "self.config" \
                and _const_str(c.args[1]) == "pool":
            return value_pred(c.args[2])
    return False


def _has_dumps_self(body):
    for s in body:
        for c in ast.walk(s):
            if isinstance(c, ast.Call) and _name(c.func) in ("dill.dumps", "pickle.dumps") and len(c.args) == 1 \
                    and _name(c.args[0]) == "self":
                return True
    return False


def _pool_shape(fn):
    """(detached, reattached_in_finally, pickles_without_pool_too)"""
    for node in ast.walk(fn):
        if isinstance(node, ast.If) and "self.config.pool" in ast.unparse(node.test) and "is not None" in ast.unparse(node.test):
            saved = None
            detached_at = None
            try_at = None
            for i, s in enumerate(node.body):
                if isinstance(s, ast.Assign) and len(s.targets) == 1 and isinstance(s.targets[0], ast.Name) \
                        and _name(s.value) == "self.config.pool":
                    saved = s.targets[0].id
                if _is_setattr_pool(s, lambda v: isinstance(v, ast.Constant) and v.value is None) and saved is not None:
                    detached_at = i
                if isinstance(s, ast.Try) and detached_at is not None and i == detached_at + 1:
                    try_at = i
            if detached_at is None:
                return (False, False, _has_dumps_self(node.orelse))
            if try_at is None:
                return (True, False, _has_dumps_self(node.orelse))
            t = node.body[try_at]
            re = _has_dumps_self(t.body) and not t.handlers and \
                any(_is_setattr_pool(s, lambda v: _name(v) == saved) for s in t.finalbody)
            return (True, bool(re), _has_dumps_self(node.orelse))
    raise Unavailable("no `if … self.config.pool is not None` in save_sampler_state")


# ------------------------------------------------------------------ load_sampler_state
def _py_const(node):
    if isinstance(node, ast.UnaryOp) and isinstance(node.op, ast.USub) and isinstance(node.operand, ast.Constant):
        v = node.operand.value
        return -v if isinstance(v, (int, float)) and not isinstance(v, bool) else None
    if isinstance(node, ast.Constant) and isinstance(node.value, (int, float)) and not isinstance(node.value, bool):
        return node.value
    return None


def _load_shape(fn):
    loaded = None
    for node in ast.walk(fn):
        if isinstance(node, ast.Assign) and len(node.targets) == 1 and isinstance(node.targets[0], ast.Name) \
                and isinstance(node.value, ast.Call) and _name(node.value.func) in ("dill.load", "pickle.load"):
            loaded = node.targets[0].id
    if loaded is None:
        raise Unavailable("no `<name> = dill.load(f)` in load_sampler_state")
    method, dropped = None, None
    for s in ast.walk(fn):
        if isinstance(s, (ast.Expr, ast.Assign)) and isinstance(s.value, ast.Call):
            c = s.value
            f = _name(c.func)
            if f and f.startswith("self.state.") and len(c.args) == 1 and _name(c.args[0]) == loaded:
                if method is not None:
                    raise Unavailable("the loaded dictionary is handed to the StateManager more than once")
                method = f[len("self.state."):]
                dropped = isinstance(s, ast.Expr)
    if method is None:
        # e.g. self.state = StateManager.from_dict(d)
        raise Unavailable("the loaded dictionary is not passed to a method of self.state")
    table, table_name = None, None
    for s in fn.body:
        if isinstance(s, ast.Assign) and len(s.targets) == 1 and isinstance(s.targets[0], ast.Name) and isinstance(s.value, ast.Dict):
            keys = [_const_str(k) for k in s.value.keys]
            vals = [_py_const(v) for v in s.value.values]
            if None in keys or any(v is None for v in vals):
                raise Unavailable("defaults table with non-literal entries")
            table, table_name = list(zip(keys, vals)), s.targets[0].id
    if table is None:
        raise Unavailable("no defaults table in load_sampler_state")
    loop_ok = False
    for s in fn.body:
        if isinstance(s, ast.For) and isinstance(s.iter, ast.Call) and _name(s.iter.func) == table_name + ".items" \
                and isinstance(s.target, ast.Tuple) and len(s.target.elts) == 2 and len(s.body) == 1 and isinstance(s.body[0], ast.If):
            k, dv = _name(s.target.elts[0]), _name(s.target.elts[1])
            i = s.body[0]
            want_test = f"self.state.get_current({k}) is None"
            want_body = f"self.state.set_current({k}, {dv})"
            if ast.unparse(i.test) == want_test and len(i.body) == 1 and not i.orelse and ast.unparse(i.body[0]) == want_body:
                loop_ok = True
    return method, dropped, table, loop_ok


# ------------------------------------------------------------------ cadence
def _cadence(core):
    it = _find_func(core, "SamplerCore", "execute_iteration")
    outer = None
    for s in it.body:
        if isinstance(s, ast.If) and ast.unparse(s.test) == "save_every is not None":
            outer = s
            break
    if outer is None:
        raise Unavailable("no `if save_every is not None:` at the top of execute_iteration")
    iter_var, read_line = None, None
    inner = None
    for s in outer.body:
        if isinstance(s, ast.Assign) and len(s.targets) == 1 and isinstance(s.targets[0], ast.Name) \
                and ast.unparse(s.value) in ("self.state.get_current('iter')",):
            iter_var, read_line = s.targets[0].id, s.lineno
        elif isinstance(s, ast.If):
            inner = s
    if iter_var is None or inner is None or inner.orelse:
        raise Unavailable("cadence block of unexpected shape")
    test = inner.test
    parts = test.values if isinstance(test, ast.BoolOp) and isinstance(test.op, ast.And) else [test]
    mod_pat = {f"({iter_var} - t0) % int(save_every) == 0", f"({iter_var} - t0) % save_every == 0"}
    ne_pat = {f"{iter_var} != t0", f"t0 != {iter_var}"}
    mod_zero = ne_t0 = False
    for p in parts:
        u = ast.unparse(p)
        if u in mod_pat:
            mod_zero = True
        elif u in ne_pat:
            ne_t0 = True
        else:
            raise Unavailable(f"cadence conjunct `{u}` not recognised")
    save_calls = [c for c in ast.walk(inner) if isinstance(c, ast.Call) and _name(c.func) == "self.save_sampler_state"]
    if len(save_calls) != 1 or len(save_calls[0].args) != 1:
        raise Unavailable("cadence branch does not contain exactly one save_sampler_state(path)")
    name_expr = ast.unparse(save_calls[0].args[0])
    rew = [c.lineno for c in ast.walk(it) if isinstance(c, ast.Call) and _name(c.func) == "self.reweighter.run"]
    if len(rew) != 1:
        raise Unavailable("execute_iteration does not call self.reweighter.run() exactly once")
    before = read_line < rew[0] and save_calls[0].lineno < rew[0]
    periodic_name = name_expr == "self.config.output_dir / f'{self.config.output_label}_{" + iter_var + "}.state'"

    rs = _find_func(core, "SamplerCore", "run_sampling")
    loop_at = None
    final_save, final_name = False, ""
    for i, s in enumerate(rs.body):
        if isinstance(s, ast.While):
            if loop_at is not None:
                raise Unavailable("two loops in run_sampling")
            loop_at = i
            calls = [c for c in ast.walk(s) if isinstance(c, ast.Call) and _name(c.func) == "self.execute_iteration"]
            ok = len(calls) == 1 and {kw.arg: ast.unparse(kw.value) for kw in calls[0].keywords} == {"save_every": "save_every", "t0": "t0"} \
                and not calls[0].args
            if not ok:
                raise Unavailable("run_sampling loop does not call execute_iteration(save_every=save_every, t0=t0)")
            if ast.unparse(s.test) != "self._not_termination()":
                raise Unavailable("run_sampling loop condition")
    if loop_at is None:
        raise Unavailable("no loop in run_sampling")
    for s in rs.body[loop_at + 1:]:
        if isinstance(s, ast.If) and ast.unparse(s.test) == "save_every is not None" and not s.orelse:
            calls = [c for c in ast.walk(s) if isinstance(c, ast.Call) and _name(c.func) == "self.save_sampler_state"]
            if len(calls) == 1 and len(calls[0].args) == 1:
                final_save = True
                final_name = ast.unparse(calls[0].args[0])
    final_name_ok = final_name == "self.config.output_dir / f'{self.config.output_label}_final.state'"
    # prologue: t0 from the restored iter
    resume_ok = False
    manual_ok = False
    for s in rs.body[:loop_at]:
        if isinstance(s, ast.If) and ast.unparse(s.test) == "resume_state_path is not None":
            src = [ast.unparse(b) for b in s.body]
            resume_ok = ("self._initialize_from_resume(resume_state_path)" in src
                         and "iter_val = self.state.get_current('iter')" in src
                         and "t0 = int(iter_val) if iter_val is not None else 0" in src
                         and src.index("self._initialize_from_resume(resume_state_path)") < src.index("iter_val = self.state.get_current('iter')"))
            orelse = s.orelse
            # since /repo aeb0399 a middle branch: committed history present (load_state() before run(), or a second run())
            # => continue it with t0 from the restored `iter`, no _initialize_fresh
            if len(orelse) == 1 and isinstance(orelse[0], ast.If):
                mid = orelse[0]
                manual_ok = ast.unparse(mid.test) == "self.state.get_history_length() > 0" and \
                    [ast.unparse(b) for b in mid.body] == ["iter_val = self.state.get_current('iter')",
                                                          "t0 = int(iter_val) if iter_val is not None else 0"]
                if not manual_ok:
                    raise Unavailable(f"run_sampling: middle branch `{ast.unparse(mid.test)}` of unexpected shape")
                orelse = mid.orelse
            fresh = [ast.unparse(b) for b in orelse]
            resume_ok = resume_ok and fresh == ["t0 = 0", "self._initialize_fresh()"]
    ifr = _find_func(core, "SamplerCore", "_initialize_from_resume")
    loads = [c for c in ast.walk(ifr) if isinstance(c, ast.Call) and _name(c.func) == "self.load_sampler_state"]
    resume_ok = resume_ok and len(loads) == 1 and ast.unparse(loads[0]) == "self.load_sampler_state(resume_state_path)"
    return {"cadenceExpr": ast.unparse(test), "cadenceModZero": mod_zero, "cadenceNeT0": ne_t0,
            "iterReadBeforeReweight": before, "periodicNameOk": periodic_name, "periodicName": name_expr,
            "finalSave": final_save, "finalNameOk": final_name_ok, "finalName": final_name, "resumeT0FromIter": resume_ok,
            "manualContinueBranch": manual_ok}


def extract():
    core = _parse("tempest/core.py")
    sv = _find_func(core, "SamplerCore", "save_sampler_state")
    w = _SaveWalker(sv)
    w.stmts(sv.body)
    if w.files:
        raise Unavailable("file left open")
    t = {"saveOps": w.ops, "tmpNameExpr": w.tmp_expr or "", "renameCall": w.rename_call or "",
         "tmpNameKind": w.tmp_kind, "tmpSuffix": w.tmp_suffix}
    det, re, plain = _pool_shape(sv)
    t.update(poolDetached=det, poolReattachInFinally=re, poolPlainBranch=plain)
    method, dropped, table, loop_ok = _load_shape(_find_func(core, "SamplerCore", "load_sampler_state"))
    t.update(loadMethod=method, loadResultDropped=dropped, defaults=table, defaultsLoopShape=loop_ok)
    t.update(_cadence(core))
    return t


# ------------------------------------------------------------------ StateManager.save_state / load_state / from_dict
def _body_src(fn):
    """unparsed statements of a function body without its docstring"""
    body = fn.body
    if body and isinstance(body[0], ast.Expr) and isinstance(body[0].value, ast.Constant) and isinstance(body[0].value.value, str):
        body = body[1:]
    return [ast.unparse(b) for b in body], body


def extract_sm():
    sm = _parse("tempest/state_manager.py")
    sv = _find_func(sm, "StateManager", "save_state")
    w = _SaveWalker(sv, ("self", "path", "exclude"))
    w.stmts(sv.body)
    if w.files:
        raise Unavailable("file left open")
    t = {"stateManagerSave": w.ops, "smTmpNameExpr": w.tmp_expr or "", "smTmpNameKind": w.tmp_kind, "smTmpSuffix": w.tmp_suffix,
         "smRenameCall": w.rename_call or "", "smMkdirParents": w.mkdir_parents}
    # the pickled dictionary, the default of `exclude`, the exclusion loop
    src, body = _body_src(sv)
    keys = vals = None
    dict_var = None
    for b in body:
        if isinstance(b, ast.Assign) and len(b.targets) == 1 and isinstance(b.targets[0], ast.Name) and isinstance(b.value, ast.Dict):
            keys = [_const_str(k) for k in b.value.keys]
            vals = [ast.unparse(v) for v in b.value.values]
            dict_var = b.targets[0].id
    if keys is None or None in keys:
        raise Unavailable("save_state: no literal dictionary is built")
    dumped = [c for c in ast.walk(sv) if isinstance(c, ast.Call) and _name(c.func) in ("dill.dump", "pickle.dump")]
    if len(dumped) != 1:
        raise Unavailable("save_state: not exactly one dump()")
    obj = dumped[0].args[0] if dumped[0].args else next((kw.value for kw in dumped[0].keywords if kw.arg == "obj"), None)
    if obj is None or _name(obj) != dict_var:
        raise Unavailable("save_state: dump() of something else than the literal dictionary")
    t["smDictKeys"] = keys
    t["smDictValuesOk"] = dict(zip(keys, vals)) == {"_current": "self._current", "_history": "self._history", "n_dim": "self.n_dim"}
    default_ex = None
    for b in body:
        if isinstance(b, ast.If) and ast.unparse(b.test) == "exclude is None" and len(b.body) == 1 and not b.orelse \
                and isinstance(b.body[0], ast.Assign) and ast.unparse(b.body[0].targets[0]) == "exclude" \
                and isinstance(b.body[0].value, ast.List):
            default_ex = [_const_str(e) for e in b.body[0].value.elts]
    if default_ex is None or None in default_ex:
        raise Unavailable("save_state: default of `exclude` not a literal list")
    t["smExcludeDefault"] = default_ex
    t["smExcludeLoopShape"] = any(isinstance(b, ast.For) and ast.unparse(b) == f"for key in exclude:\n    {dict_var}.pop(key, None)" for b in body)
    # load_state
    ld = _find_func(sm, "StateManager", "load_state")
    lsrc, lbody = _body_src(ld)
    loaded = None
    for node in ast.walk(ld):
        if isinstance(node, ast.Assign) and len(node.targets) == 1 and isinstance(node.targets[0], ast.Name) \
                and isinstance(node.value, ast.Call) and _name(node.value.func) in ("dill.load", "pickle.load"):
            loaded = node.targets[0].id
    if loaded is None:
        raise Unavailable("load_state: no `<name> = dill.load(...)`")
    methods = [(_name(c.func), isinstance(stmt, ast.Expr)) for stmt in ast.walk(ld) if isinstance(stmt, (ast.Expr, ast.Assign))
               and isinstance(stmt.value, ast.Call) for c in [stmt.value]
               if _name(c.func) and _name(c.func).startswith("self.") and len(c.args) == 1 and _name(c.args[0]) == loaded]
    if len(methods) != 1:
        raise Unavailable("load_state: the loaded dictionary is not handed to exactly one method of self")
    t["smLoadMethod"] = methods[0][0][len("self."):]
    t["smLoadShape"] = len(lbody) == 2 and isinstance(lbody[0], ast.With) and lsrc[1] == f"self.update_from_dict({loaded})"
    # from_dict
    fd = _find_func(sm, "StateManager", "from_dict")
    fsrc, _ = _body_src(fd)
    arg = fd.args.args[1].arg if len(fd.args.args) == 2 else None
    t["fromDictViaUpdate"] = fsrc == [f"n_dim = {arg}.get('n_dim', 1)", "instance = cls(n_dim)",
                                      f"instance.update_from_dict({arg})", "return instance"]
    ndef = None
    for node in ast.walk(fd):
        if isinstance(node, ast.Call) and isinstance(node.func, ast.Attribute) and node.func.attr == "get" and len(node.args) == 2 \
                and _const_str(node.args[0]) == "n_dim" and isinstance(node.args[1], ast.Constant) and isinstance(node.args[1].value, int):
            ndef = node.args[1].value
    if ndef is None or ndef < 0:
        raise Unavailable("from_dict: default of n_dim not found")
    t["fromDictDefaultNDim"] = ndef
    # update_from_dict: three guarded sections
    ud = _find_func(sm, "StateManager", "update_from_dict")
    _, ubody = _body_src(ud)
    sect = {}
    for b in ubody:
        if isinstance(b, ast.If) and not b.orelse and len(b.body) == 1:
            test = ast.unparse(b.test)
            stmt = ast.unparse(b.body[0])
            arg_u = ud.args.args[1].arg
            if test == f"'_current' in {arg_u}" and stmt.startswith("self._current.update("):
                sect["_current"] = True
            elif test == f"'_history' in {arg_u}" and stmt.startswith("self._history.update("):
                sect["_history"] = True
            elif test == f"'n_dim' in {arg_u}" and stmt == f"self.n_dim = {arg_u}['n_dim']":
                sect["n_dim"] = True
    t["updateFromDictShape"] = set(sect) == {"_current", "_history", "n_dim"}
    return t


# ------------------------------------------------------------------ rendering
def _lstr(s):
    return '"' + s.replace("\\", "\\\\").replace('"', '\\"').replace("\n", "\\n").replace("\t", "\\t") + '"'


def _lbool(b):
    return "true" if b else "false"


def _lop(op):
    k = op[0]
    if k == "write":
        return f'.write {_lstr(op[1])} ()'
    if k == "rename":
        return f'.rename {_lstr(op[1])} {_lstr(op[2])}'
    return f'.{k} {_lstr(op[1])}'


def _lval(v):
    if isinstance(v, int):
        return f".int ({v})"
    bits = struct.unpack("<Q", struct.pack("<d", v))[0]
    return f".real {bits}"


def render(t):
    L = ["import TempestVerif.Model.FS",
         "import TempestVerif.Model.Checkpoint",
         "/- GENERATED by translate/g7_checkpoint.py from /repo's current source — do not edit. -/",
         "namespace Gen.Checkpoint", "",
         "def saveOps : List (Model.FS.FsOpOf Unit) := [" + ", ".join(_lop(o) for o in t["saveOps"]) + "]",
         f"def tmpNameExpr : String := {_lstr(t['tmpNameExpr'])}",
         f"def renameCall : String := {_lstr(t['renameCall'])}",
         f"def tmpNameKind : String := {_lstr(t['tmpNameKind'])}",
         f"def tmpSuffix : String := {_lstr(t['tmpSuffix'])}",
         f"def poolDetached : Bool := {_lbool(t['poolDetached'])}",
         f"def poolReattachInFinally : Bool := {_lbool(t['poolReattachInFinally'])}",
         f"def poolPlainBranch : Bool := {_lbool(t['poolPlainBranch'])}",
         f"def loadMethod : String := {_lstr(t['loadMethod'])}",
         f"def loadResultDropped : Bool := {_lbool(t['loadResultDropped'])}",
         "def defaults : List (String × Model.Checkpoint.Val) := [" + ", ".join(f"({_lstr(k)}, {_lval(v)})" for k, v in t["defaults"]) + "]",
         f"def defaultsLoopShape : Bool := {_lbool(t['defaultsLoopShape'])}",
         f"def cadenceExpr : String := {_lstr(t['cadenceExpr'])}",
         f"def cadenceModZero : Bool := {_lbool(t['cadenceModZero'])}",
         f"def cadenceNeT0 : Bool := {_lbool(t['cadenceNeT0'])}",
         f"def iterReadBeforeReweight : Bool := {_lbool(t['iterReadBeforeReweight'])}",
         f"def periodicName : String := {_lstr(t['periodicName'])}",
         f"def periodicNameOk : Bool := {_lbool(t['periodicNameOk'])}",
         f"def finalSave : Bool := {_lbool(t['finalSave'])}",
         f"def finalName : String := {_lstr(t['finalName'])}",
         f"def finalNameOk : Bool := {_lbool(t['finalNameOk'])}",
         f"def resumeT0FromIter : Bool := {_lbool(t['resumeT0FromIter'])}",
         f"def manualContinueBranch : Bool := {_lbool(t['manualContinueBranch'])}",
         "", "end Gen.Checkpoint", ""]
    return "\n".join(L)


def render_sm(t):
    lst = lambda xs: "[" + ", ".join(_lstr(x) for x in xs) + "]"  # noqa: E731
    L = ["import TempestVerif.Model.FS",
         "/- GENERATED by translate/g7_checkpoint.py from /repo's current tempest/state_manager.py — do not edit. -/",
         "namespace Gen.Checkpoint", "",
         "def stateManagerSave : List (Model.FS.FsOpOf Unit) := [" + ", ".join(_lop(o) for o in t["stateManagerSave"]) + "]",
         f"def smTmpNameExpr : String := {_lstr(t['smTmpNameExpr'])}",
         f"def smTmpNameKind : String := {_lstr(t['smTmpNameKind'])}",
         f"def smTmpSuffix : String := {_lstr(t['smTmpSuffix'])}",
         f"def smRenameCall : String := {_lstr(t['smRenameCall'])}",
         f"def smMkdirParents : Bool := {_lbool(t['smMkdirParents'])}",
         f"def smDictKeys : List String := {lst(t['smDictKeys'])}",
         f"def smDictValuesOk : Bool := {_lbool(t['smDictValuesOk'])}",
         f"def smExcludeDefault : List String := {lst(t['smExcludeDefault'])}",
         f"def smExcludeLoopShape : Bool := {_lbool(t['smExcludeLoopShape'])}",
         f"def smLoadMethod : String := {_lstr(t['smLoadMethod'])}",
         f"def smLoadShape : Bool := {_lbool(t['smLoadShape'])}",
         f"def fromDictViaUpdate : Bool := {_lbool(t['fromDictViaUpdate'])}",
         f"def fromDictDefaultNDim : Nat := {t['fromDictDefaultNDim']}",
         f"def updateFromDictShape : Bool := {_lbool(t['updateFromDictShape'])}",
         "", "end Gen.Checkpoint", ""]
    return "\n".join(L)


# ------------------------------------------------------------------ the checkpoint dictionary, what load restores, attributes of the core
NAME_CORE = "G7-checkpoint-dict"


def _self_attr_targets(node):
    """attribute names assigned on `self` by one statement / call node"""
    out = []
    tgts = []
    if isinstance(node, ast.Assign):
        tgts = list(node.targets)
    elif isinstance(node, (ast.AugAssign, ast.AnnAssign)):
        tgts = [node.target]
    elif isinstance(node, (ast.For, ast.AsyncFor)):
        tgts = [node.target]
    elif isinstance(node, (ast.With, ast.AsyncWith)):
        tgts = [i.optional_vars for i in node.items if i.optional_vars is not None]
    flat = []
    for t in tgts:
        flat += list(t.elts) if isinstance(t, (ast.Tuple, ast.List)) else [t]
    for t in flat:
        if isinstance(t, ast.Attribute) and _name(t.value) == "self":
            out.append(t.attr)
        elif isinstance(t, ast.Subscript) and _name(t.value) == "self.__dict__":
            out.append("__dict__[" + (ast.unparse(t.slice)) + "]")
    if isinstance(node, ast.Call):
        f = _name(node.func)
        if f in ("setattr", "object.__setattr__") and len(node.args) == 3 and _name(node.args[0]) == "self":
            out.append(_const_str(node.args[1]) or ("<" + ast.unparse(node.args[1]) + ">"))
        if f in ("self.__dict__.update", "vars(self).update", "self.__setattr__"):
            out.append("<" + f + ">")
    return out


def _calls(fn, pred):
    return sorted({n for c in ast.walk(fn) if isinstance(c, ast.Call) for n in [_name(c.func)] if n and pred(n)})


def _is_random(n):
    return n.startswith(("np.random.", "numpy.random.", "random.")) or n in ("np.random", "seed")


def extract_core():
    core = _parse("tempest/core.py")
    cls = next((n for n in ast.walk(core) if isinstance(n, ast.ClassDef) and n.name == "SamplerCore"), None)
    if cls is None:
        raise Unavailable("class SamplerCore not found")
    t = {}
    # ---- save_sampler_state: the dictionary that is pickled
    sv = _find_func(core, "SamplerCore", "save_sampler_state")
    dvar, base_ok = None, False
    for s in sv.body:
        if isinstance(s, ast.Assign) and len(s.targets) == 1 and isinstance(s.targets[0], ast.Name) \
                and ast.unparse(s.value) == "self.state.to_dict()":
            dvar, base_ok = s.targets[0].id, True
    if dvar is None:
        raise Unavailable("save_sampler_state: no `<d> = self.state.to_dict()`")
    keys = []
    last_key_line = 0
    for n in ast.walk(sv):
        if isinstance(n, ast.Assign) and len(n.targets) == 1 and isinstance(n.targets[0], ast.Subscript) \
                and _name(n.targets[0].value) == dvar:
            k = _const_str(n.targets[0].slice)
            if k is None:
                raise Unavailable("save_sampler_state: non-literal key stored into the dictionary")
            keys.append((n.lineno, k, ast.unparse(n.value)))
            last_key_line = max(last_key_line, n.lineno)
        elif isinstance(n, ast.Call) and _name(n.func) in (dvar + ".update", dvar + ".setdefault", dvar + ".pop"):
            raise Unavailable(f"save_sampler_state: `{ast.unparse(n)[:60]}` on the checkpoint dictionary")
        elif isinstance(n, ast.Delete) and any(_name(getattr(x, "value", None)) == dvar for x in n.targets):
            raise Unavailable("save_sampler_state: `del` on the checkpoint dictionary")
    keys.sort()
    extra = []
    for _, k, e in keys:
        prev = [x for x in extra if x[0] == k]
        if prev and prev[0][1] != e:
            raise Unavailable(f"save_sampler_state: key {k!r} stored with two different expressions")
        if not prev:
            extra.append((k, e))
    dumps = [c for c in ast.walk(sv) if isinstance(c, ast.Call) and _name(c.func) in ("dill.dump", "pickle.dump")]
    dumps_dict = len(dumps) == 1 and len(dumps[0].args) >= 1 and _name(dumps[0].args[0]) == dvar
    t.update(ckptBaseToDict=base_ok, ckptExtraKeys=extra, ckptDumpsDict=dumps_dict,
             ckptKeysBeforeWrite=bool(dumps) and last_key_line < dumps[0].lineno,
             saveAssignsAttrs=sorted({a for n in ast.walk(sv) for a in _self_attr_targets(n)}),
             saveRandomCalls=_calls(sv, _is_random))
    # ---- load_sampler_state: what is read from the dictionary and where it goes
    ld = _find_func(core, "SamplerCore", "load_sampler_state")
    lvar = None
    for n in ast.walk(ld):
        if isinstance(n, ast.Assign) and len(n.targets) == 1 and isinstance(n.targets[0], ast.Name) \
                and isinstance(n.value, ast.Call) and _name(n.value.func) in ("dill.load", "pickle.load"):
            lvar = n.targets[0].id
    if lvar is None:
        raise Unavailable("load_sampler_state: no `<d> = dill.load(f)`")
    table = []
    for s in ld.body:
        if not isinstance(s, ast.If):
            continue
        test = ast.unparse(s.test)
        if lvar not in {x.id for x in ast.walk(s.test) if isinstance(x, ast.Name)}:
            continue
        if s.orelse or len(s.body) != 1:
            raise Unavailable(f"load_sampler_state: `if {test}` of unexpected shape")
        body = ast.unparse(s.body[0])
        m_in = isinstance(s.test, ast.Compare) and len(s.test.ops) == 1 and isinstance(s.test.ops[0], ast.In) \
            and _const_str(s.test.left) is not None and _name(s.test.comparators[0]) == lvar
        if m_in:
            k = _const_str(s.test.left)
            b = s.body[0]
            if isinstance(b, ast.Assign) and len(b.targets) == 1 and isinstance(b.targets[0], ast.Attribute) \
                    and _name(b.targets[0].value) == "self" and ast.unparse(b.value) == f"{lvar}[{k!r}]":
                table.append((k, "key_present", "attr:" + b.targets[0].attr))
                continue
            raise Unavailable(f"load_sampler_state: `if {test}: {body}` not recognised")
        k = None
        for cand in ast.walk(s.test):
            if isinstance(cand, ast.Call) and _name(cand.func) == lvar + ".get" and cand.args and _const_str(cand.args[0]):
                k = _const_str(cand.args[0])
        if k is not None and test == f"{lvar}.get({k!r}) is not None":
            b = s.body[0]
            if isinstance(b, ast.Expr) and isinstance(b.value, ast.Call) and len(b.value.args) == 1 \
                    and ast.unparse(b.value.args[0]) == f"{lvar}[{k!r}]" and _name(b.value.func):
                table.append((k, "value_not_none", _name(b.value.func)))
                continue
        raise Unavailable(f"load_sampler_state: `if {test}: {body}` not recognised")
    read = set()
    for n in ast.walk(ld):
        if isinstance(n, ast.Subscript) and _name(n.value) == lvar:
            read.add(_const_str(n.slice) or "<" + ast.unparse(n.slice) + ">")
        elif isinstance(n, ast.Call) and _name(n.func) in (lvar + ".get", lvar + ".pop", lvar + ".setdefault") and n.args:
            read.add(_const_str(n.args[0]) or "<" + ast.unparse(n.args[0]) + ">")
        elif isinstance(n, ast.Compare) and len(n.ops) == 1 and isinstance(n.ops[0], (ast.In, ast.NotIn)) \
                and _name(n.comparators[0]) == lvar:
            read.add(_const_str(n.left) or "<" + ast.unparse(n.left) + ">")
    # any other use of the loaded dictionary as a whole (passed on, iterated …)
    whole = sorted({ast.unparse(c)[:80] for c in ast.walk(ld) if isinstance(c, ast.Call)
                    and any(_name(a) == lvar for a in list(c.args) + [kw.value for kw in c.keywords])
                    and _name(c.func) not in ("dill.load", "pickle.load")})
    ifr = _find_func(core, "SamplerCore", "_initialize_from_resume")
    t.update(loadTable=table, loadKeysRead=sorted(read), loadDictPassedTo=whole,
             loadRandomCalls=sorted(set(_calls(ld, _is_random)) | set(_calls(ifr, _is_random))),
             loadAssignsAttrs=sorted({a for n in ast.walk(ld) for a in _self_attr_targets(n)}),
             loadSelfCalls=_calls(ld, lambda n: n.startswith("self.")),
             resumeInitAssignsAttrs=sorted({a for n in ast.walk(ifr) for a in _self_attr_targets(n)}),
             resumeInitSelfCalls=_calls(ifr, lambda n: n.startswith("self.")))
    # ---- every attribute the class ever assigns on self
    t["coreSelfAttrs"] = sorted({a for n in ast.walk(cls) for a in _self_attr_targets(n)})
    # ---- run_sampling: resume branch, n_total, epilogue order
    rs = _find_func(core, "SamplerCore", "run_sampling")
    branch = next((s for s in rs.body if isinstance(s, ast.If) and ast.unparse(s.test) == "resume_state_path is not None"), None)
    if branch is None:
        raise Unavailable("run_sampling: no `if resume_state_path is not None`")
    loop_at = next((i for i, s in enumerate(rs.body) if isinstance(s, ast.While)), None)
    if loop_at is None:
        raise Unavailable("run_sampling: no loop")
    def _branch_calls(stmts):
        return sorted({n for b in stmts for c in ast.walk(b) if isinstance(c, ast.Call)
                       for n in [_name(c.func)] if n and (n.startswith("self.") or _is_random(n))})
    t["runResumeBranchCalls"] = _branch_calls(branch.body)
    orelse = branch.orelse
    t["runManualBranchTest"], t["runManualBranchBody"] = "", []
    if len(orelse) == 1 and isinstance(orelse[0], ast.If):
        t["runManualBranchTest"] = ast.unparse(orelse[0].test)
        t["runManualBranchBody"] = [ast.unparse(b) for b in orelse[0].body]
        orelse = orelse[0].orelse
    t["runFreshBranchCalls"] = _branch_calls(orelse)
    at = rs.body.index(branch)
    between = [ast.unparse(s) for s in rs.body[at + 1:loop_at]]
    t["runNTotalAssign"] = "self.n_total = int(n_total)" in between and "self.t0 = t0" in between
    t["runRandomCallsOutsideFresh"] = sorted({n for i, s in enumerate(rs.body) if s is not branch
                                              for c in ast.walk(s) if isinstance(c, ast.Call) for n in [_name(c.func)] if n and _is_random(n)})
    order = []
    for s in rs.body[loop_at + 1:]:
        u = ast.unparse(s)
        if u == "_, logz = self.state.compute_logw_and_logz(1.0)":
            order.append("z1")
        elif u == "self.state.set_current('logz', logz)":
            order.append("set_logz")
        elif u == "self.logz_err = None":
            order.append("logz_err_none")
        elif isinstance(s, ast.If) and ast.unparse(s.test) == "save_every is not None":
            order.append("final_save")
        elif u == "self.pbar.close()":
            order.append("pbar_close")
        elif isinstance(s, ast.Expr) and isinstance(s.value, ast.Constant):
            pass
        else:
            order.append("other:" + "_".join(u[:50].replace("=", ":").split()))
    t["runEpilogueOrder"] = order
    # ---- _initialize_fresh
    fr = _find_func(core, "SamplerCore", "_initialize_fresh")
    fsrc, fbody = _body_src(fr)
    seeds_iff = any(isinstance(b, ast.If) and ast.unparse(b.test) == "self.config.random_state is not None" and not b.orelse
                    and [ast.unparse(x) for x in b.body] == ["np.random.seed(self.config.random_state)"] for b in fbody)
    sets = []
    for b in fbody:
        if isinstance(b, ast.Expr) and isinstance(b.value, ast.Call) and _name(b.value.func) == "self.state.set_current" \
                and len(b.value.args) == 2 and _const_str(b.value.args[0]) is not None:
            sets.append((_const_str(b.value.args[0]), ast.unparse(b.value.args[1])))
    t.update(freshSeedsIffRandomState=seeds_iff, freshSets=sets,
             freshRandomCalls=_calls(fr, _is_random))
    return t


def render_core(t):
    one = lambda x: _lstr(" ".join(str(x).split()))  # noqa: E731  (no line breaks inside generated literals)
    lst = lambda xs: "[" + ", ".join(one(x) for x in xs) + "]"  # noqa: E731
    pairs = lambda xs: "[" + ", ".join("(" + ", ".join(one(y) for y in x) + ")" for x in xs) + "]"  # noqa: E731
    L = ["/- GENERATED by translate/g7_checkpoint.py (extract_core) from /repo's current tempest/core.py — do not edit. -/",
         "namespace Gen.Checkpoint", "",
         f"def ckptBaseToDict : Bool := {_lbool(t['ckptBaseToDict'])}",
         f"def ckptExtraKeys : List (String × String) := {pairs(t['ckptExtraKeys'])}",
         f"def ckptDumpsDict : Bool := {_lbool(t['ckptDumpsDict'])}",
         f"def ckptKeysBeforeWrite : Bool := {_lbool(t['ckptKeysBeforeWrite'])}",
         f"def saveAssignsAttrs : List String := {lst(t['saveAssignsAttrs'])}",
         f"def saveRandomCalls : List String := {lst(t['saveRandomCalls'])}",
         f"def loadTable : List (String × String × String) := {pairs(t['loadTable'])}",
         f"def loadKeysRead : List String := {lst(t['loadKeysRead'])}",
         f"def loadDictPassedTo : List String := {lst(t['loadDictPassedTo'])}",
         f"def loadRandomCalls : List String := {lst(t['loadRandomCalls'])}",
         f"def loadAssignsAttrs : List String := {lst(t['loadAssignsAttrs'])}",
         f"def loadSelfCalls : List String := {lst(t['loadSelfCalls'])}",
         f"def resumeInitAssignsAttrs : List String := {lst(t['resumeInitAssignsAttrs'])}",
         f"def resumeInitSelfCalls : List String := {lst(t['resumeInitSelfCalls'])}",
         f"def coreSelfAttrs : List String := {lst(t['coreSelfAttrs'])}",
         f"def runResumeBranchCalls : List String := {lst(t['runResumeBranchCalls'])}",
         f"def runFreshBranchCalls : List String := {lst(t['runFreshBranchCalls'])}",
         f"def runManualBranchTest : String := {_lstr(t['runManualBranchTest'])}",
         f"def runManualBranchBody : List String := {lst(t['runManualBranchBody'])}",
         f"def runNTotalAssign : Bool := {_lbool(t['runNTotalAssign'])}",
         f"def runRandomCallsOutsideFresh : List String := {lst(t['runRandomCallsOutsideFresh'])}",
         f"def runEpilogueOrder : List String := {lst(t['runEpilogueOrder'])}",
         f"def freshSeedsIffRandomState : Bool := {_lbool(t['freshSeedsIffRandomState'])}",
         f"def freshSets : List (String × String) := {pairs(t['freshSets'])}",
         f"def freshRandomCalls : List String := {lst(t['freshRandomCalls'])}",
         "", "end Gen.Checkpoint", ""]
    return "\n".join(L)


def generate_core():
    """third generated file: the checkpoint dictionary, what load_sampler_state restores, the attributes of SamplerCore"""
    try:
        t = extract_core()
    except Unavailable as e:
        return (NAME_CORE, "unavailable", str(e))
    except (SyntaxError, OSError) as e:
        return (NAME_CORE, "unavailable", f"{type(e).__name__}: {e}")
    changed = common.write_if_changed(os.path.join(common.GEN, "CheckpointCore.lean"), render_core(t))
    return (NAME_CORE, "ok", f"{'re' if changed else ''}generated Gen/CheckpointCore.lean (extra keys "
                             f"{[k for k, _ in t['ckptExtraKeys']]}; load restores {[(a, c) for a, _, c in t['loadTable']]}; "
                             f"core attributes {t['coreSelfAttrs']})")


NAME_SM = "G7-state-manager-io"


def generate_sm():
    """second generated file: the StateManager's own save_state / load_state / from_dict"""
    try:
        t = extract_sm()
    except Unavailable as e:
        return (NAME_SM, "unavailable", str(e))
    except (SyntaxError, OSError) as e:
        return (NAME_SM, "unavailable", f"{type(e).__name__}: {e}")
    changed = common.write_if_changed(os.path.join(common.GEN, "CheckpointSM.lean"), render_sm(t))
    ops = ";".join(":".join(o) for o in t["stateManagerSave"])
    return (NAME_SM, "ok", f"{'re' if changed else ''}generated Gen/CheckpointSM.lean (StateManager.save_state ops {ops}; temp name "
                           f"{t['smTmpNameKind']}({t['smTmpSuffix']!r}); load via {t['smLoadMethod']}; from_dict via update: {t['fromDictViaUpdate']})")


def generate():
    try:
        t = extract()
    except Unavailable as e:
        return (NAME, "unavailable", str(e))
    except (SyntaxError, OSError) as e:
        return (NAME, "unavailable", f"{type(e).__name__}: {e}")
    changed = common.write_if_changed(os.path.join(common.GEN, "Checkpoint.lean"), render(t))
    ops = ";".join(":".join(o) for o in t["saveOps"])
    return (NAME, "ok", f"{'re' if changed else ''}generated Gen/Checkpoint.lean (save ops {ops}; load via {t['loadMethod']}; "
                        f"cadence `{t['cadenceExpr']}`; final save {t['finalSave']})")


if __name__ == "__main__":
    import json
    print(json.dumps(extract(), indent=1))
    print(generate())
    print(json.dumps(extract_sm(), indent=1))
    print(generate_sm())
    print(json.dumps(extract_core(), indent=1))
