"""G18 — `tempest/cluster.py` read from /repo's current source (Python `ast` only), property C15.

Emits lean/TempestVerif/Gen/ClusterSrc.lean:

  * the numerical kernels of `GaussianMixture._m_step` / `_compute_covariances` ('full', 'diag'), `_e_step`,
    `_initialize_parameters`, `_compute_lower_bound`, `predict`, `fit`, and of `HierarchicalGaussianMixture.fit` /
    `_compute_bic_tolerance` / `_compute_effective_sample_size`, compiled to terms over the scalar interface `Sc α` / `ScT α`
    and the numpy vocabulary `Model/NpSrc.lean` (namespace `Np`): every arithmetic operator, operand order, comparison and
    literal is taken from the source.  `Props/C15Source.lean` proves that the hand-written model (`Model/EM.lean`,
    `Model/GMM.lean`, `Model/HGMM.lean`, `Model/HFit.lean`) unfolds to exactly these terms, for every scalar type.
  * statement SKELETONS (`ast.unparse` of every statement in program order with its nesting path; local variables renamed
    `v0, v1, …` in order of first binding, so a pure renaming of locals changes nothing; docstrings, comments, `verbose`
    printing dropped) of the same methods, as `List String` tables.

How numpy expressions are read (the fixed compilation scheme; nothing is guessed, anything else ⇒ `unavailable`):
  - a 1-D elementwise expression is ONE pass over its distinct array operands (`map` / `zipWith`, three operands: `zipWith` over
    `zip`); a compound operand of `** 2` is materialised first, a plain one is squared in place (`x * x`);
  - `M op v[:, np.newaxis]`, `M op v` (row vector), `M op np.red(M, axis=1, keepdims=True)` act row by row on the rows of `M`;
  - reductions along axis 0 and `np.dot` of 2-D arrays are given entry by entry (`Np.tab1` / `Np.tab2`) through column slices;
  - a variable whose value is needed twice (an in-place `v /= np.sum(v)`, a column access) is bound by `let` under its source name.
"""
import ast
import copy
import os
import re
from decimal import Decimal
from fractions import Fraction

from harness import common
from .g5_tables import Unavailable, _parse, _find_func, _name

NAME = "G18-cluster-source"

_KEYWORDS = {"end", "at", "from", "fun", "let", "in", "do", "then", "else", "if", "match", "with", "def", "theorem", "have", "show",
             "by", "where", "open", "namespace", "section", "variable", "import", "structure", "class", "instance", "for", "return",
             "Type", "Prop", "Sort", "row", "p", "i", "j", "x0", "x1", "x2", "c0", "m", "last", "some", "none", "α", "mut", "macro",
             "syntax", "using", "export", "universe", "example", "abbrev", "inductive", "deriving", "extends", "unless", "try", "catch"}


def ident(s):
    """a source name as a Lean identifier (ASCII letters, digits, underscore; never a keyword or a bound name of the scheme)"""
    s = s[5:] if s.startswith("self.") else s
    s = re.sub(r"[^A-Za-z0-9_]", "_", s)
    if not s or not (s[0].isalpha() or s[0] == "_"):
        s = "v_" + s
    if s in _KEYWORDS or s == "_":
        s = s + "_"
    return s


# ------------------------------------------------------------------------------------------------ literals
def lit(v):
    """a non-negative Python numeric literal as a term of `Sc α` (exact)"""
    if isinstance(v, bool) or not isinstance(v, (int, float)):
        raise Unavailable(f"literal {v!r} is not numeric")
    f = float(v)
    if f != f or f in (float("inf"), float("-inf")) or f < 0:
        raise Unavailable(f"literal {v!r} outside the literal language")
    if f == int(f) and f < 2 ** 53:
        return f"(Sc.ofNat {int(f)})"
    d = Decimal(repr(f))
    sign, digits, exp = d.as_tuple()
    if sign or exp >= 0:
        raise Unavailable(f"literal {v!r}")
    m = int("".join(map(str, digits)))
    if Fraction(m, 10 ** (-exp)) != Fraction(repr(f)) or float(Fraction(m, 10 ** (-exp))) != f:
        raise Unavailable(f"literal {v!r}: decimal expansion not exact")
    return f"(Sc.lit {m} {-exp})"


# ------------------------------------------------------------------------------------------------ list expressions
class LE:
    """an elementwise 1-D expression: distinct list operands (`leaves`, Lean terms) and the entry as a function of theirs"""

    def __init__(self, leaves, body):
        self.leaves, self.body = leaves, body

    @staticmethod
    def leaf(term):
        return LE([term], lambda xs: xs[0])

    @staticmethod
    def scalar(term):
        return LE([], lambda xs: term)

    def is_leaf(self):
        return len(self.leaves) == 1 and self.body(["§"]) == "§"

    def is_scalar(self):
        return not self.leaves

    def un(self, fn):
        b = self.body
        return LE(list(self.leaves), lambda xs: f"({fn} {b(xs)})")

    def bin(self, op, other):
        leaves = list(self.leaves) + [l for l in other.leaves if l not in self.leaves]
        ia = [leaves.index(l) for l in self.leaves]
        ib = [leaves.index(l) for l in other.leaves]
        fa, fb = self.body, other.body
        return LE(leaves, lambda xs: f"({op} {fa([xs[k] for k in ia])} {fb([xs[k] for k in ib])})")

    def sq(self):
        if self.is_leaf():
            return LE(list(self.leaves), lambda xs: f"(Sc.mul {xs[0]} {xs[0]})")
        if self.is_scalar():
            t = self.body([])
            return LE.scalar(f"(Sc.mul {t} {t})")
        return LE.leaf(self.mat()).sq()

    def mat(self):
        """the list itself"""
        n = len(self.leaves)
        if n == 0:
            raise Unavailable("a scalar where an array is needed")
        if self.is_leaf():
            return self.leaves[0]
        if n == 1:
            return f"({self.leaves[0]}.map fun x0 => {self.body(['x0'])})"
        if n == 2:
            return f"(List.zipWith (fun x0 x1 => {self.body(['x0', 'x1'])}) {self.leaves[0]} {self.leaves[1]})"
        if n == 3:
            return (f"(List.zipWith (fun x0 (p : α × α) => {self.body(['x0', 'p.1', 'p.2'])}) {self.leaves[0]} "
                    f"(List.zip {self.leaves[1]} {self.leaves[2]}))")
        raise Unavailable("an elementwise expression over more than three arrays")


# ------------------------------------------------------------------------------------------------ symbolic values
class Sca:          # float scalar
    def __init__(self, t): self.t = t


class Nat:          # Python int known to be a natural number
    def __init__(self, t): self.t = t


class Boo:
    def __init__(self, t): self.t = t


class Vec:          # 1-D array, elementwise form
    def __init__(self, le, n=None): self.le, self.n = le, n


class Tab:          # array given entry by entry; dims: dimension terms, None for a broadcast axis of length 1
    def __init__(self, dims, f): self.dims, self.f = dims, f


class ColVec:       # v[:, np.newaxis]
    def __init__(self, v): self.v = v


class RowRed:       # np.red(M, axis=1, keepdims=True): one scalar per row of `src`
    def __init__(self, src, fn, name=None): self.src, self.fn, self.name = src, fn, name


class Rows:         # a 2-D array acted on row by row: spine (Lean term of a matrix), optional column operand, row ↦ (lets, LE)
    def __init__(self, spine, colvec, rowf, nrows=None, ncols=None):
        self.spine, self.colvec, self.rowf, self.nrows, self.ncols = spine, colvec, rowf, nrows, ncols


class PerRow:       # one scalar per row of the spine (np.red(…, axis=1))
    def __init__(self, spine, fn, n=None): self.spine, self.fn, self.n = spine, fn, n


class Mat2:         # a 2-D array with slice access: colf(j) / rowf(i) -> LE
    def __init__(self, nrows, ncols, colf=None, rowf=None, var=None):
        self.nrows, self.ncols, self.colf, self.rowf, self.var = nrows, ncols, colf, rowf, var


_BIN = {ast.Add: "Sc.add", ast.Sub: "Sc.sub", ast.Mult: "Sc.mul", ast.Div: "Sc.div"}
_NATBIN = {ast.Add: "+", ast.Sub: "-", ast.Mult: "*"}


def _float(v):
    """coerce a scalar value to a float term"""
    if isinstance(v, Sca):
        return v.t
    if isinstance(v, Nat):
        return f"(Sc.ofNat {v.t})"
    raise Unavailable("a scalar is needed")


class Comp:
    """compiles the statements of one site; `env`: source name -> value; parameters are collected in order of first use"""

    def __init__(self, fn=None, shapes=None, nats=(), opts=()):
        self.rank = {}            # lean name -> sort key (position of the FIRST BINDING of the source name in `fn`)
        self.pos = {}
        if fn is not None:
            for k_, a in enumerate(fn.args.args):
                self.pos[a.arg] = (0, k_, 0)
            for node in ast.walk(fn):
                if isinstance(node, ast.Name) and isinstance(node.ctx, ast.Store):
                    key = (1, node.lineno, node.col_offset)
                    if node.id not in self.pos or (self.pos[node.id][0] == 1 and key < self.pos[node.id]):
                        self.pos[node.id] = key
        self.env = {}
        self.params = []          # (lean name, type)
        self.lets = []            # (lean name, term)
        self.nats = set(nats)
        self.opts = set(opts)
        self.shapes = dict(shapes or {})
        self.atoms = {}           # unparse(expr) -> value   (site-specific readings such as `means[k]`)

    # ---- parameters
    def key_of(self, name):
        if name.startswith("len_") and name[4:] in self.pos:
            return self.pos[name[4:]] + ("len",)
        if name in self.pos:
            return self.pos[name]
        if name.startswith("self."):
            return (2, name[5:], "")
        return (3, name, "")

    def param(self, name, ty):
        nm = ident(name)
        self.rank.setdefault(nm, self.key_of(name))
        for p, t in self.params:
            if p == nm:
                if t != ty:
                    raise Unavailable(f"{name} used at two types")
                return nm
        self.params.append((nm, ty))
        return nm

    def dim(self, d):
        return None if d is None else self.param(d, "Nat")

    def var(self, name):
        """value of a source name"""
        if name in self.env:
            return self.env[name]
        key = name[5:] if name.startswith("self.") else name
        if name in self.shapes or key in self.shapes:
            sh = self.shapes.get(name, self.shapes.get(key))
            if sh == "vec":
                v = Vec(LE.leaf(self.param(name, "List α")))
            elif sh == "opt":
                v = ("opt", self.param(name, "Option Nat"))
            elif sh == "natlist":
                v = ("natlist", self.param(name, "List Nat"))
            elif sh == "clusters":
                v = ("clusters", self.param(name, "List (List Nat)"))
            else:
                t = self.param(name, "Np.Mat α")
                v = self.matvar(t, sh[0], sh[1])
            self.env[name] = v
            return v
        if name in self.nats or key in self.nats:
            return Nat(self.param(name, "Nat"))
        return Sca(self.param(name, "α"))

    def matvar(self, t, nrows, ncols):
        return Mat2(nrows, ncols, colf=lambda j: LE.leaf(f"(Np.col {t} {j})"), var=t)

    def bind(self, name, term):
        nm = ident(name)
        k = sum(1 for n, _ in self.lets if n == nm or n.startswith(nm + "_v"))
        if k:
            nm = f"{nm}_v{k}"
        self.lets.append((nm, term))
        return nm

    # ---- materialisation of a variable (its value is needed more than once)
    def force(self, name):
        v = self.env.get(name)
        if isinstance(v, Vec) and not (v.le.is_leaf() and re.fullmatch(r"[A-Za-z_][A-Za-z0-9_]*", v.le.leaves[0])):
            self.env[name] = Vec(LE.leaf(self.bind(name, v.le.mat())), v.n)
        elif isinstance(v, Tab) and len(v.dims) == 1:
            self.env[name] = Vec(LE.leaf(self.bind(name, self.tabterm(v))), v.dims[0])
        elif isinstance(v, Rows):
            self.env[name] = self.matvar(self.bind(name, self.rowsterm(v)), v.nrows, v.ncols)
        elif isinstance(v, PerRow):
            self.env[name] = Vec(LE.leaf(self.bind(name, self.perrowterm(v))), v.n)
        return self.env.get(name)

    def force_names(self, node):
        for x in ast.walk(node):
            if isinstance(x, ast.Name) and isinstance(self.env.get(x.id), Rows):
                self.force(x.id)

    def tabterm(self, v):
        dims = [d for d in v.dims]
        if any(d is None for d in dims):
            raise Unavailable("an array with a broadcast axis cannot be stored")
        if len(dims) == 1:
            return f"(Np.tab1 {dims[0]} fun i => {_float(v.f(['i']))})"
        if len(dims) == 2:
            return f"(Np.tab2 {dims[0]} {dims[1]} fun i j => {_float(v.f(['i', 'j']))})"
        raise Unavailable("an array of more than two axes")

    def rowbody(self, v):
        lets, le = v.rowf("row", "c0")
        return "".join(f"let {n} := {t}; " for n, t in lets) + le.mat()

    def rowsterm(self, v):
        if v.colvec is None:
            return f"({v.spine}.map fun row => {self.rowbody(v)})"
        return f"(List.zipWith (fun row c0 => {self.rowbody(v)}) {v.spine} {v.colvec})"

    def perrowterm(self, v):
        return f"({v.spine}.map fun row => {v.fn('row')})"

    def as_rows(self, v):
        if isinstance(v, Rows):
            return v
        if isinstance(v, Mat2) and v.var is not None:
            return Rows(v.var, None, lambda row, c: ([], LE.leaf(row)), v.nrows, v.ncols)
        raise Unavailable("a 2-D value that cannot be read row by row")

    # ---- expressions
    def expr(self, n):
        key = " ".join(ast.unparse(n).split())
        if key in self.atoms:
            a = self.atoms[key]
            return a() if callable(a) else a
        if isinstance(n, ast.Constant):
            if isinstance(n.value, bool):
                return Boo("true" if n.value else "false")
            if isinstance(n.value, int):
                if n.value < 0:
                    raise Unavailable("negative literal")
                return Nat(str(n.value))
            return Sca(lit(n.value))
        if isinstance(n, ast.Attribute) and n.attr == "T":
            self.force_names(n.value)
            v = self.expr(n.value)
            if isinstance(v, Mat2) and v.colf is not None:
                return Mat2(v.ncols, v.nrows, rowf=v.colf)
            raise Unavailable(".T of a value without column access")
        nm = _name(n)
        if nm is not None:
            if nm in ("np.newaxis", "None", "np.inf", "np"):
                raise Unavailable(f"{nm} in an unexpected position")
            return self.var(nm)
        if isinstance(n, ast.UnaryOp) and isinstance(n.op, ast.USub):
            v = self.expr(n.operand)
            return self.unary("Sc.neg", v)
        if isinstance(n, ast.BinOp):
            if isinstance(n.op, ast.Pow):
                if not (isinstance(n.right, ast.Constant) and n.right.value == 2 and not isinstance(n.right.value, bool)):
                    raise Unavailable(f"power {ast.unparse(n.right)}")
                return self.square(self.expr(n.left))
            if type(n.op) not in _BIN:
                raise Unavailable(f"operator {type(n.op).__name__}")
            return self.binop(type(n.op), self.expr(n.left), self.expr(n.right))
        if isinstance(n, ast.Compare):
            return self.compare(n)
        if isinstance(n, ast.BoolOp):
            vs = [self.expr(v) for v in n.values]
            if not all(isinstance(v, Boo) for v in vs):
                raise Unavailable("and/or of non-tests")
            op = " && " if isinstance(n.op, ast.And) else " || "
            return Boo("(" + op.join(v.t for v in vs) + ")")
        if isinstance(n, ast.IfExp):
            return self.ifexp(n)
        if isinstance(n, ast.Subscript):
            return self.subscript(n)
        if isinstance(n, ast.Call):
            return self.call(n)
        raise Unavailable(f"expression {key!r} outside the expression language")

    def ifexp(self, n):
        t = n.test
        if (isinstance(t, ast.Compare) and len(t.ops) == 1 and isinstance(t.ops[0], ast.IsNot)
                and isinstance(t.comparators[0], ast.Constant) and t.comparators[0].value is None
                and ast.dump(t.left) == ast.dump(n.body)):
            o = self.var(_name(n.body) or "?")
            if not (isinstance(o, tuple) and o[0] == "opt"):
                raise Unavailable("`x if x is not None else …` on a non-optional")
            e = self.expr(n.orelse)
            if not isinstance(e, Nat):
                raise Unavailable("default of an optional count is not a count")
            return Nat(f"(match {o[1]} with | some m => m | none => {e.t})")
        raise Unavailable(f"conditional expression {ast.unparse(n)!r}")

    def unary(self, fn, v):
        if isinstance(v, (Sca, Nat)):
            return Sca(f"({fn} {_float(v)})")
        if isinstance(v, Vec):
            return Vec(v.le.un(fn), v.n)
        if isinstance(v, Tab):
            f = v.f
            return Tab(v.dims, lambda ix: Sca(f"({fn} {_float(f(ix))})"))
        if isinstance(v, Rows):
            rf = v.rowf
            return Rows(v.spine, v.colvec, lambda r, c: (rf(r, c)[0], rf(r, c)[1].un(fn)), v.nrows, v.ncols)
        if isinstance(v, PerRow):
            g = v.fn
            return PerRow(v.spine, lambda r: f"({fn} {g(r)})", v.n)
        if isinstance(v, Mat2):
            return Mat2(v.nrows, v.ncols, colf=(lambda j: v.colf(j).un(fn)) if v.colf else None,
                        rowf=(lambda i: v.rowf(i).un(fn)) if v.rowf else None)
        raise Unavailable("unary operation on this value")

    def square(self, v):
        if isinstance(v, (Sca, Nat)):
            t = _float(v)
            return Sca(f"(Sc.mul {t} {t})")
        if isinstance(v, Vec):
            return Vec(v.le.sq(), v.n)
        if isinstance(v, Rows):
            rf = v.rowf
            return Rows(v.spine, v.colvec, lambda r, c: (rf(r, c)[0], rf(r, c)[1].sq()), v.nrows, v.ncols)
        if isinstance(v, Mat2):
            return Mat2(v.nrows, v.ncols, colf=(lambda j: v.colf(j).sq()) if v.colf else None,
                        rowf=(lambda i: v.rowf(i).sq()) if v.rowf else None)
        raise Unavailable("** 2 on this value")

    def binop(self, op, a, b):
        f = _BIN[op]
        # scalars
        if isinstance(a, Nat) and isinstance(b, Nat):
            if op is ast.Div:
                return Sca(f"(Sc.div (Sc.ofNat {a.t}) (Sc.ofNat {b.t}))")
            return Nat(f"({a.t} {_NATBIN[op]} {b.t})")
        if isinstance(a, (Sca, Nat)) and isinstance(b, (Sca, Nat)):
            return Sca(f"({f} {_float(a)} {_float(b)})")
        sa, sb = isinstance(a, (Sca, Nat)), isinstance(b, (Sca, Nat))
        # entry-by-entry arrays
        if isinstance(a, Tab) or isinstance(b, Tab):
            if not all(isinstance(x, (Tab, Sca, Nat)) for x in (a, b)):
                raise Unavailable("an entrywise array combined with an elementwise one")
            ta = a if isinstance(a, Tab) else Tab((), lambda ix: a)
            tb = b if isinstance(b, Tab) else Tab((), lambda ix: b)
            r = max(len(ta.dims), len(tb.dims))
            da = (None,) * (r - len(ta.dims)) + tuple(ta.dims)
            db = (None,) * (r - len(tb.dims)) + tuple(tb.dims)
            dims = []
            for x, y in zip(da, db):
                if x is not None and y is not None and x != y:
                    raise Unavailable(f"shapes {x} / {y} do not agree")
                dims.append(x if x is not None else y)
            ka, kb = r - len(ta.dims), r - len(tb.dims)
            return Tab(tuple(dims), lambda ix: Sca(f"({f} {_float(ta.f(ix[ka:]))} {_float(tb.f(ix[kb:]))})"))
        # 1-D
        if isinstance(a, PerRow) and sb:
            g = a.fn
            return PerRow(a.spine, lambda r: f"({f} {g(r)} {_float(b)})", a.n)
        if sa and isinstance(b, PerRow):
            g = b.fn
            return PerRow(b.spine, lambda r: f"({f} {_float(a)} {g(r)})", b.n)
        if isinstance(a, PerRow):
            a = Vec(LE.leaf(self.perrowterm(a)), a.n)
        if isinstance(b, PerRow):
            b = Vec(LE.leaf(self.perrowterm(b)), b.n)
        if isinstance(a, Vec) and isinstance(b, Vec):
            return Vec(a.le.bin(f, b.le), a.n or b.n)
        if isinstance(a, Vec) and sb:
            return Vec(a.le.bin(f, LE.scalar(_float(b))), a.n)
        if sa and isinstance(b, Vec):
            return Vec(LE.scalar(_float(a)).bin(f, b.le), b.n)
        # 2-D with slice access (a 1-D operand runs along the last axis; a column operand along the first)
        if isinstance(a, (Mat2, ColVec, Vec)) and isinstance(b, (Mat2, ColVec, Vec)) and (
                (isinstance(a, Mat2) and a.var is None) or (isinstance(b, Mat2) and b.var is None)):
            m = a if isinstance(a, Mat2) else b

            def part(x, which, k):
                if isinstance(x, Mat2):
                    g = x.colf if which == "col" else x.rowf
                    return None if g is None else g(k)
                if isinstance(x, ColVec):
                    return x.v.le if which == "col" else None
                return x.le if which == "row" else None          # Vec: along the last axis

            def acc(which):
                if part(a, which, "0") is None or part(b, which, "0") is None:
                    return None
                return lambda k: part(a, which, k).bin(f, part(b, which, k))
            colf, rowf = acc("col"), acc("row")
            if colf is None and rowf is None:
                raise Unavailable("2-D operands without a common slice direction")
            return Mat2(m.nrows, m.ncols, colf=colf, rowf=rowf)
        # 2-D row by row
        if isinstance(a, (Mat2, Rows)) and (sb or isinstance(b, (ColVec, Vec, RowRed))):
            return self.rowsop(f, a, b, False)
        if isinstance(b, (Mat2, Rows)) and (sa or isinstance(a, (ColVec, Vec, RowRed))):
            return self.rowsop(f, b, a, True)
        raise Unavailable("operands of an arithmetic operation")

    def rowsop(self, f, m, o, swapped):
        if isinstance(o, RowRed) and o.src is not m:
            raise Unavailable("a row reduction of a different array")
        R = self.as_rows(m)
        rf, colvec = R.rowf, R.colvec
        if isinstance(o, ColVec):
            if colvec is not None or not o.v.le.is_leaf():
                raise Unavailable("more than one column operand")
            colvec = o.v.le.leaves[0]

        def rowf(r, c):
            lets, le = rf(r, c)
            if isinstance(o, RowRed):
                if not le.is_leaf():           # the row is needed twice: bind it
                    nm = ident(o.name or "e")
                    lets = lets + [(nm, le.mat())]
                    le = LE.leaf(nm)
                x = LE.scalar(o.fn(le.leaves[0]))
            elif isinstance(o, ColVec):
                x = LE.scalar(c)
            elif isinstance(o, Vec):
                x = o.le
            else:
                x = LE.scalar(_float(o))
            return lets, (x.bin(f, le) if swapped else le.bin(f, x))
        return Rows(R.spine, colvec, rowf, R.nrows, R.ncols)

    def compare(self, n):
        if len(n.ops) != 1:
            raise Unavailable("chained comparison")
        a, b = self.expr(n.left), self.expr(n.comparators[0])
        op = type(n.ops[0])
        if isinstance(a, Nat) and isinstance(b, Nat):
            s = {ast.Lt: f"decide ({a.t} < {b.t})", ast.LtE: f"decide ({a.t} ≤ {b.t})", ast.Gt: f"decide ({b.t} < {a.t})",
                 ast.GtE: f"decide ({b.t} ≤ {a.t})", ast.Eq: f"({a.t} == {b.t})"}.get(op)
            if s is None:
                raise Unavailable(f"comparison {op.__name__}")
            return Boo(f"({s})" if not s.startswith("(") else s)
        x, y = _float(a), _float(b)
        if op is ast.Eq:
            return Boo(f"(Sc.le {x} {y} && Sc.le {y} {x})")
        g = {ast.Lt: "Sc.lt", ast.LtE: "Sc.le", ast.Gt: "Sc.gt", ast.GtE: "Sc.ge"}.get(op)
        if g is None:
            raise Unavailable(f"comparison {op.__name__}")
        return Boo(f"({g} {x} {y})")

    def subscript(self, n):
        base = _name(n.value)
        sl = n.slice
        elts = list(sl.elts) if isinstance(sl, ast.Tuple) else [sl]

        def full(e):
            return isinstance(e, ast.Slice) and e.lower is None and e.upper is None and e.step is None
        # v[:, np.newaxis]
        if len(elts) == 2 and full(elts[0]) and _name(elts[1]) == "np.newaxis":
            v = self.expr(n.value)
            if isinstance(v, Tab) and len(v.dims) == 1:
                g = v.f
                return Tab((v.dims[0], None), lambda ix: g(ix[:1]))
            if isinstance(v, Vec):
                return ColVec(v)
            raise Unavailable("[:, np.newaxis] on this value")
        if base is None:
            raise Unavailable(f"subscript of {ast.unparse(n.value)!r}")
        # M[:, k]  /  M[:, k, np.newaxis]
        if len(elts) in (2, 3) and full(elts[0]) and (len(elts) == 2 or _name(elts[2]) == "np.newaxis"):
            self.force(base)
            m = self.var(base)
            k = self.expr(elts[1])
            if not (isinstance(m, Mat2) and m.colf is not None and isinstance(k, Nat)):
                raise Unavailable(f"column slice {ast.unparse(n)!r}")
            v = Vec(m.colf(k.t), m.nrows)
            return v if len(elts) == 2 else ColVec(v)
        # v[-1]
        if (len(elts) == 1 and isinstance(elts[0], ast.UnaryOp) and isinstance(elts[0].op, ast.USub)
                and isinstance(elts[0].operand, ast.Constant) and elts[0].operand.value == 1):
            v = self.force(base) or self.var(base)
            if not (isinstance(v, Vec) and v.le.is_leaf()):
                raise Unavailable("[-1] on a non-array")
            return ("last", v.le.leaves[0])
        raise Unavailable(f"subscript {ast.unparse(n)!r}")

    def kw(self, n, allowed):
        out = {}
        for k in n.keywords:
            if k.arg not in allowed:
                raise Unavailable(f"keyword {k.arg} of {ast.unparse(n.func)}")
            out[k.arg] = k.value
        return out

    def call(self, n):
        fn = _name(n.func)
        if fn in ("np.exp", "np.log", "np.sqrt") and len(n.args) == 1 and not n.keywords:
            return self.unary({"np.exp": "ScT.exp", "np.log": "ScT.log", "np.sqrt": "ScT.sqrt"}[fn], self.expr(n.args[0]))
        if fn == "np.maximum" and len(n.args) == 2 and not n.keywords:
            a, b = self.expr(n.args[0]), self.expr(n.args[1])
            if isinstance(a, Tab) and isinstance(b, (Sca, Nat)):
                g = a.f
                return Tab(a.dims, lambda ix: Sca(f"(Sc.max {_float(g(ix))} {_float(b)})"))
            if isinstance(a, (Sca, Nat)) and isinstance(b, (Sca, Nat)):
                return Sca(f"(Sc.max {_float(a)} {_float(b)})")
            raise Unavailable("np.maximum on these operands")
        if fn == "len" and len(n.args) == 1 and _name(n.args[0]) is not None and not n.keywords:
            return Nat(self.param("len_" + ident(_name(n.args[0])), "Nat"))
        if fn in ("np.sum", "np.max") and len(n.args) == 1:
            kw = self.kw(n, ("axis", "keepdims"))
            axis = kw.get("axis")
            if axis is not None and not (isinstance(axis, ast.Constant) and axis.value in (0, 1)):
                raise Unavailable("axis is not 0 or 1")
            axis = None if axis is None else axis.value
            keep = kw.get("keepdims")
            keep = bool(keep is not None and isinstance(keep, ast.Constant) and keep.value is True)
            if kw.get("keepdims") is not None and not keep:
                raise Unavailable("keepdims is not the literal True")
            return self.reduce(fn, n.args[0], axis, keep)
        if fn == "np.dot" and len(n.args) == 2 and not n.keywords:
            self.force_names(n)
            a, b = self.expr(n.args[0]), self.expr(n.args[1])
            if isinstance(a, Mat2) and a.rowf is not None and isinstance(b, Mat2) and b.colf is not None:
                return Tab((self.dim(a.nrows), self.dim(b.ncols)),
                           lambda ix: Sca(f"(Np.dot {a.rowf(ix[0]).mat()} {b.colf(ix[1]).mat()})"))
            raise Unavailable("np.dot on these operands")
        if fn == "np.cumsum" and len(n.args) == 1 and not n.keywords:
            v = self.expr(n.args[0])
            if isinstance(v, Vec):
                return Vec(LE.leaf(f"(Np.cumsum {v.le.mat()})"), v.n)
            raise Unavailable("np.cumsum of a non-array")
        if fn == "np.searchsorted" and len(n.args) == 2 and not n.keywords:
            a, r = self.expr(n.args[0]), self.expr(n.args[1])
            if isinstance(a, Vec) and isinstance(r, Sca):
                return Nat(f"(Np.searchsorted {a.le.mat()} {r.t})")
            raise Unavailable("np.searchsorted on these operands")
        if fn == "np.finfo(float).tiny":
            pass
        raise Unavailable(f"call {ast.unparse(n)!r} outside the expression language")

    def reduce(self, fn, argn, axis, keep):
        nm = _name(argn)
        red = {"np.sum": "Sc.sum", "np.max": "Np.max1"}[fn]
        if nm is not None and axis != 1:
            self.force(nm)
        if axis == 0:
            self.force_names(argn)
        v = self.expr(argn)
        if isinstance(v, (Vec, PerRow)) and axis is None and not keep:
            if isinstance(v, PerRow):
                v = Vec(LE.leaf(self.perrowterm(v)), v.n)
            return Sca(f"({red} {v.le.mat()})")
        if isinstance(v, Mat2) and axis == 0 and not keep and v.colf is not None:
            return Tab((self.dim(v.ncols),), lambda ix: Sca(f"({red} {v.colf(ix[0]).mat()})"))
        if axis == 1 and keep and isinstance(v, (Mat2, Rows)):
            r = RowRed(v, lambda rowterm: f"({red} {rowterm})")
            r.name = nm
            return r
        if axis == 1 and not keep and isinstance(v, (Mat2, Rows)):
            R = self.as_rows(v)
            if R.colvec is not None:
                raise Unavailable("row reduction of an array with a column operand")
            rf = R.rowf

            def g(row):
                lets, le = rf(row, None)
                if lets:
                    raise Unavailable("row reduction after a bound row")
                return f"({red} {le.mat()})"
            return PerRow(R.spine, g, R.nrows)
        raise Unavailable(f"{fn}(…, axis={axis}, keepdims={keep}) on this value")

    # ---- statements
    def assign(self, target, value):
        self.env[target] = value

    def stmt(self, st):
        if isinstance(st, ast.Assign) and len(st.targets) == 1:
            t = " ".join(ast.unparse(st.targets[0]).split())
            self.assign(t, self.expr(st.value))
        elif isinstance(st, ast.AugAssign) and type(st.op) in _BIN:
            t = " ".join(ast.unparse(st.target).split())
            if t not in self.env:
                self.env[t] = self.var(t)
            cur = self.env[t]
            rhs = self.expr(st.value)
            cur = self.env[t]                       # the right-hand side may have bound it
            self.assign(t, self.binop(type(st.op), cur, rhs))
        else:
            raise Unavailable(f"statement {type(st).__name__} in a compiled block")

    # ---- result
    def term(self, v):
        if isinstance(v, (Sca, Nat, Boo)):
            return v.t
        if isinstance(v, Vec):
            return v.le.mat()
        if isinstance(v, Tab):
            return self.tabterm(v)
        if isinstance(v, Rows):
            return self.rowsterm(v)
        if isinstance(v, PerRow):
            return self.perrowterm(v)
        if isinstance(v, Mat2) and v.var is not None:
            return v.var
        raise Unavailable("a value that cannot be written out")

    def typ(self, v):
        if isinstance(v, Sca):
            return "α"
        if isinstance(v, Nat):
            return "Nat"
        if isinstance(v, Boo):
            return "Bool"
        if isinstance(v, (Vec, PerRow)) or (isinstance(v, Tab) and len(v.dims) == 1):
            return "List α"
        return "Np.Mat α"

    def finish(self, name, v, comment, wrap=None, ty=None, tcls="Sc"):
        """the definition `name` whose value is `v` (after the collected lets that it mentions)"""
        body = self.term(v) if not isinstance(v, str) else v
        ty = ty or self.typ(v)
        if wrap is not None:
            body, ty = wrap(body, ty)
        used, keep = body, []
        for nm, t in reversed(self.lets):
            if re.search(rf"(?<![A-Za-z0-9_.]){re.escape(nm)}(?![A-Za-z0-9_])", used):
                keep.append((nm, t))
                used += " " + t
        keep.reverse()
        text = "".join(f"\n  let {nm} := {t}" for nm, t in keep) + "\n  " + body
        # parameters that occur, ordered by where the source binds them (signature order, then first assignment; attributes and
        # the translator's own names alphabetically) — NOT by where the expression mentions them: an operand swap must show
        order = []
        for p, t in self.params:
            if re.search(rf"(?<![A-Za-z0-9_.]){re.escape(p)}(?![A-Za-z0-9_])", text):
                order.append((self.rank.get(p, (3, p, "")), p, t))
        order.sort()
        ps = "".join(f" ({p} : {t})" for _, p, t in order)
        return Def(name, f"/-- `{_doc(comment)}` -/\ndef {name}{ps} : {ty} :={text}", tcls if "ScT." in text or "Np.cumsum" in text
                   or "Np.searchsorted" in text or "Np.addScaledEye" in text or "Np.scaledEye" in text else "Sc")


def _doc(s):
    s = " ".join(str(s).split()).replace("-/", "- /").replace("/-", "/ -").replace("`", "'")
    return s[:160]


class Def:
    def __init__(self, name, text, cls):
        self.name, self.text, self.cls = name, text, cls


# ------------------------------------------------------------------------------------------------ skeletons
def _is_doc(st):
    return isinstance(st, ast.Expr) and isinstance(st.value, ast.Constant) and isinstance(st.value.value, str)


def _verbose(st):
    return isinstance(st, ast.If) and _name(st.test) == "self.verbose"


def _canon_locals(fn):
    """a copy of `fn` whose local variables (everything bound inside the body; parameters keep their names) are renamed
       v0, v1, … in order of first binding"""
    fn = copy.deepcopy(fn)
    params = {a.arg for a in fn.args.args + fn.args.kwonlyargs}
    binds = []
    for node in ast.walk(fn):
        if isinstance(node, ast.Name) and isinstance(node.ctx, ast.Store) and node.id not in params:
            binds.append((node.lineno, node.col_offset, node.id))
        elif isinstance(node, ast.ExceptHandler) and node.name:
            binds.append((node.lineno, node.col_offset, node.name))
    ren = {}
    for _, _, nm in sorted(binds):
        if nm not in ren:
            ren[nm] = f"v{len(ren)}"
    for node in ast.walk(fn):
        if isinstance(node, ast.Name) and node.id in ren:
            node.id = ren[node.id]
        elif isinstance(node, ast.ExceptHandler) and node.name in ren:
            node.name = ren[node.name]
    return fn, ren


def _skeleton(fn, only=None):
    """program-order list of `path: statement` of (the canonical form of) `fn`; `only`: function selecting the statements to
       list from the canonical form"""
    fn, _ = _canon_locals(fn)
    out = []

    def emit(path, text):
        out.append(f"{path}: {' '.join(text.split())}".replace('"', "'").replace("\\", "/"))

    def block(stmts, path):
        k = 0
        for st in stmts:
            if _is_doc(st) or _verbose(st) or isinstance(st, (ast.Import, ast.ImportFrom)):
                continue
            p = f"{path}{k}"
            if isinstance(st, ast.If):
                emit(p, f"if {ast.unparse(st.test)}")
                block(st.body, p + "t.")
                if st.orelse:
                    block(st.orelse, p + "e.")
            elif isinstance(st, ast.While):
                emit(p, f"while {ast.unparse(st.test)}")
                block(st.body, p + ".")
                if st.orelse:
                    raise Unavailable("while … else")
            elif isinstance(st, ast.For):
                emit(p, f"for {ast.unparse(st.target)} in {ast.unparse(st.iter)}")
                block(st.body, p + ".")
                if st.orelse:
                    raise Unavailable("for … else")
            elif isinstance(st, ast.Try):
                emit(p, "try")
                block(st.body, p + ".")
                for h, hd in enumerate(st.handlers):
                    emit(f"{p}x{h}", f"except {ast.unparse(hd.type) if hd.type is not None else ''}")
                    block(hd.body, f"{p}x{h}.")
                if st.orelse or st.finalbody:
                    raise Unavailable("try … else/finally")
            elif isinstance(st, ast.With):
                emit(p, "with " + ", ".join(ast.unparse(i) for i in st.items))
                block(st.body, p + ".")
            elif isinstance(st, (ast.Assign, ast.Return, ast.Expr, ast.AugAssign, ast.Continue, ast.Break, ast.Pass, ast.Raise)):
                emit(p, ast.unparse(st))
            else:
                raise Unavailable(f"statement {type(st).__name__} in {fn.name}")
            k += 1
    block(only(fn) if only is not None else fn.body, "")
    return out


# ------------------------------------------------------------------------------------------------ locating the sites
def _body(fn):
    return [s for s in fn.body if not _is_doc(s) and not isinstance(s, (ast.Import, ast.ImportFrom))]


def _only(nodes, what):
    nodes = list(nodes)
    if len(nodes) != 1:
        raise Unavailable(f"expected exactly one {what}, found {len(nodes)}")
    return nodes[0]


def _args(fn, k):
    names = [a.arg for a in fn.args.args]
    if len(names) != k + 1 or names[0] != "self":
        raise Unavailable(f"{fn.name}: expected self and {k} parameters")
    return names[1:]


def _tname(st):
    return " ".join(ast.unparse(st.targets[0]).split()) if isinstance(st, ast.Assign) and len(st.targets) == 1 else (
        " ".join(ast.unparse(st.target).split()) if isinstance(st, ast.AugAssign) else None)


def _is_range_for(st, what=None):
    return (isinstance(st, ast.For) and isinstance(st.iter, ast.Call) and _name(st.iter.func) == "range"
            and isinstance(st.target, ast.Name) and (what is None or ast.unparse(st.iter.args[-1]) == what))


def _shape_unpack(st):
    """`a, b = X.shape` -> (X, a, b)"""
    if (isinstance(st, ast.Assign) and len(st.targets) == 1 and isinstance(st.targets[0], ast.Tuple) and len(st.targets[0].elts) == 2
            and isinstance(st.value, ast.Attribute) and st.value.attr == "shape" and _name(st.value.value)):
        a, b = st.targets[0].elts
        if isinstance(a, ast.Name) and isinstance(b, ast.Name):
            return _name(st.value.value), a.id, b.id
    return None


def _cov_idiom(c, node, rowatom=None):
    """`C + np.eye(C.shape[0]) * s` / `np.eye(len(v)) * s` as a term"""
    def eye_times(e):
        if (isinstance(e, ast.BinOp) and isinstance(e.op, ast.Mult) and isinstance(e.left, ast.Call)
                and _name(e.left.func) == "np.eye" and len(e.left.args) == 1 and not e.left.keywords):
            return e.left.args[0], e.right
        return None
    if isinstance(node, ast.BinOp) and isinstance(node.op, ast.Add) and isinstance(node.left, ast.Name) and eye_times(node.right):
        size, s = eye_times(node.right)
        if ast.unparse(size) != f"{node.left.id}.shape[0]":
            raise Unavailable(f"identity of size {ast.unparse(size)!r} added to {node.left.id}")
        sv = c.expr(s)
        return f"(Np.addScaledEye {c.param(node.left.id, 'Np.Mat α')} {_float(sv)})", "Np.Mat α"
    if eye_times(node):
        size, s = eye_times(node)
        if not (isinstance(size, ast.Call) and _name(size.func) == "len" and len(size.args) == 1):
            raise Unavailable(f"identity of size {ast.unparse(size)!r}")
        v = c.expr(size.args[0])
        if not (isinstance(v, Vec) and v.le.is_leaf()):
            raise Unavailable("len of a non-array")
        sv = c.expr(s)
        return f"(Np.scaledEye {v.le.leaves[0]}.length {_float(sv)})", "Np.Mat α"
    raise Unavailable(f"covariance expression {ast.unparse(node)!r}")


def _logpdf_call(node):
    """`multivariate_normal.logpdf(X, mean=M, cov=C)` -> (M, C)"""
    if not (isinstance(node, ast.Call) and (_name(node.func) or "").endswith("multivariate_normal.logpdf") and len(node.args) == 1):
        raise Unavailable(f"{ast.unparse(node)[:60]!r} is not a multivariate_normal.logpdf call")
    kw = {k.arg: k.value for k in node.keywords}
    if sorted(kw) != ["cov", "mean"]:
        raise Unavailable("logpdf keywords are not mean=, cov=")
    return node.args[0], kw["mean"], kw["cov"]


def _cov_branches(cc):
    """covariance_type literal -> body of its branch in `_compute_covariances`"""
    chain = [s for s in _body(cc) if isinstance(s, ast.If)]
    branches = {}
    node = _only(chain, "if-chain on covariance_type in _compute_covariances")
    while True:
        t = node.test
        if not (isinstance(t, ast.Compare) and _name(t.left) == "self.covariance_type" and len(t.ops) == 1
                and isinstance(t.ops[0], ast.Eq) and isinstance(t.comparators[0], ast.Constant)):
            raise Unavailable("_compute_covariances: branch test is not `self.covariance_type == <literal>`")
        branches[t.comparators[0].value] = node.body
        if len(node.orelse) == 1 and isinstance(node.orelse[0], ast.If):
            node = node.orelse[0]
        else:
            break
    return branches


def _norm3(fn, stmts, shapes, name, comment):
    """`L -= np.max(L, axis=1, keepdims=True); R = np.exp(L); R /= np.sum(R, axis=1, keepdims=True)` -> row-wise definition"""
    c = Comp(fn, shapes=shapes)
    for st in stmts:
        c.stmt(st)
    last = _tname(stmts[-1])
    v = c.env.get(last)
    if not isinstance(v, Rows):
        raise Unavailable(f"{name}: the normalisation is not row by row")
    return c.finish(name, v, comment, tcls="ScT")


_SITE = [""]


def _at(site):
    _SITE[0] = site


def extract():
    _at("")
    tree = _parse("tempest/cluster.py")
    defs, tabs = [], {}
    GM = "GaussianMixture"

    # ================================================================== GaussianMixture.__init__ : defaults
    _at("GaussianMixture.__init__ : defaults")
    init = _find_func(tree, GM, "__init__")
    dn = [a.arg for a in init.args.args][-len(init.args.defaults):] if init.args.defaults else []
    dflt = dict(zip(dn, init.args.defaults))
    for key, ty in (("tol", "α"), ("reg_covar", "α"), ("max_iter", "Nat"), ("n_init", "Nat"), ("n_components", "Nat")):
        if key not in dflt or not isinstance(dflt[key], ast.Constant):
            raise Unavailable(f"GaussianMixture.__init__: no literal default for {key}")
        v = dflt[key].value
        if ty == "Nat":
            if isinstance(v, bool) or not isinstance(v, int) or v < 0:
                raise Unavailable(f"default of {key} is not a count")
            defs.append(Def(f"default_{key}", f"/-- `{key}={v}` -/\ndef default_{key} : Nat := {v}", "Sc"))
        else:
            defs.append(Def(f"default_{key}", f"/-- `{key}={v!r}` -/\ndef default_{key} : α := {lit(v)}", "Sc"))

    # ================================================================== _m_step
    _at("_m_step")
    ms = _find_func(tree, GM, "_m_step")
    aX, aR, aS = _args(ms, 3)
    c = Comp(ms, shapes={aX: ("n_samples", "n_features"), aR: ("n_samples", "n_components"), aS: "vec"})
    c.atoms["np.finfo(float).tiny"] = lambda: Sca(c.param("finfo_tiny", "α"))
    out_names = []
    for st in _body(ms):
        su = _shape_unpack(st)
        if su:
            if su[0] != aX:
                raise Unavailable("_m_step: shape of another array")
            continue
        if isinstance(st, ast.Return):
            break
        if isinstance(st, ast.Assign) and isinstance(st.value, ast.Call) and (_name(st.value.func) or "").startswith("self._"):
            continue                                  # covariances = self._compute_covariances(…): skeleton
        c.stmt(st)
        out_names.append(_tname(st))
    seen = []
    for nm in out_names:
        if nm not in seen:
            seen.append(nm)
    if len(seen) != 3:
        raise Unavailable(f"_m_step: expected three computed variables (weighted responsibilities, weights, means), found {len(seen)}")
    wr, wv, mv = seen
    c.force(wr)
    w_let = [t for n, t in c.lets if n == ident(wr)]
    if len(w_let) != 1:
        raise Unavailable("_m_step: the weighted responsibilities are not a stored array")
    c2 = copy.copy(c)
    c2.lets = []
    defs.append(c2.finish("mstep_weighted_resp", w_let[0], f"{wr} = …", ty="Np.Mat α"))
    defs.append(c.finish("mstep_weights", c.env[wv], f"{wv} = …; {wv} /= …"))
    defs.append(c.finish("mstep_means", c.env[mv], f"{mv} = …"))
    tabs["mstepSkeleton"] = _skeleton(ms)

    # ================================================================== _compute_covariances ('full', 'diag')
    _at("_compute_covariances ('full', 'diag')")
    cc = _find_func(tree, GM, "_compute_covariances")
    cX, cM, cW = _args(cc, 3)
    branches = _cov_branches(cc)
    for ct in ("full", "diag"):
        if ct not in branches:
            raise Unavailable(f"_compute_covariances: no branch for {ct!r}")
        loop = _only([s for s in branches[ct] if _is_range_for(s, "self.n_components")], f"loop over components ({ct})")
        k = loop.target.id
        c = Comp(cc, shapes={cX: ("n_samples", "n_features"), cW: ("n_samples", "n_components")}, nats={k})
        c.atoms[f"{cM}[{k}]"] = lambda c=c: Vec(LE.leaf(c.param("means_k", "List α")))
        for st in loop.body:
            c.stmt(st)
        tg = {_tname(s) for s in loop.body}
        res = [x for x in tg if x.endswith(f"[{k}]")]
        if len(res) != 1:
            raise Unavailable(f"_compute_covariances ({ct}): the loop does not fill exactly one slot per component")
        defs.append(c.finish(f"cov_{ct}_k", c.env[res[0]], f"covariance_type == '{ct}': {res[0]} = …; {res[0]} /= …"))
        tabs[f"cov{ct.capitalize()}Skeleton"] = _skeleton(cc, only=lambda f, ct=ct: _cov_branches(f)[ct])
    tabs["getCovarianceSkeleton"] = _skeleton(_find_func(tree, GM, "_get_covariance"))

    # ================================================================== _e_step
    _at("_e_step")
    es = _find_func(tree, GM, "_e_step")
    eX, eW, eM, eC = _args(es, 4)
    eb = _body(es)
    loop = _only([s for s in eb if _is_range_for(s, "self.n_components")], "loop over components in _e_step")
    k = loop.target.id
    tr = _only([s for s in loop.body if isinstance(s, ast.Try)], "try in _e_step")
    a_try = _only([s for s in tr.body if isinstance(s, ast.Assign)], "assignment under try")
    if len(tr.handlers) != 1:
        raise Unavailable("_e_step: more than one except clause")
    a_exc = _only([s for s in tr.handlers[0].body if isinstance(s, ast.Assign)], "assignment under except")
    lp = _tname(a_try)
    if _tname(a_exc) != lp:
        raise Unavailable("_e_step: try and except assign different names")
    for a, nm in ((a_try, "estep_cov_try"), (a_exc, "estep_cov_except")):
        x, mean, cov = _logpdf_call(a.value)
        if _name(x) != eX or ast.unparse(mean) != f"{eM}[{k}]":
            raise Unavailable("_e_step: logpdf is not evaluated at (X, mean=means[k])")
        c = Comp(es)
        c.atoms[f"{eM}[{k}]"] = lambda c=c: Vec(LE.leaf(c.param("means_k", "List α")))
        t, ty = _cov_idiom(c, cov)
        defs.append(c.finish(nm, t, f"cov={ast.unparse(cov)}", ty=ty, tcls="ScT"))
    store = [s for s in ast.walk(loop) if isinstance(s, ast.Assign) and _tname(s).endswith(f"[:, {k}]")]
    st = _only(store, "column assignment in _e_step")
    c = Comp(es)
    c.atoms[f"{eW}[{k}]"] = lambda c=c: Sca(c.param("weights_k", "α"))
    defs.append(c.finish("estep_logresp", c.expr(st.value), ast.unparse(st), tcls="ScT"))
    lr = _tname(st).split("[")[0]
    after = eb[eb.index(loop) + 1:]
    norm = [s for s in after if isinstance(s, (ast.Assign, ast.AugAssign))]
    if len(norm) != 3:
        raise Unavailable("_e_step: expected three normalisation statements after the loop")
    defs.append(_norm3(es, norm, {lr: ("n_samples", "n_components")}, "estep_normalise", "; ".join(ast.unparse(s) for s in norm)))
    tabs["estepSkeleton"] = _skeleton(es)

    # ================================================================== _initialize_parameters
    _at("_initialize_parameters")
    ip = _find_func(tree, GM, "_initialize_parameters")
    iX, iS = _args(ip, 2)
    ib = _body(ip)

    def draw(stmts, name):
        """`c = np.cumsum(mass); r = rand() * c[-1]; means[·] = X[np.searchsorted(c, r)]`"""
        if len(stmts) != 3 or not all(isinstance(s, ast.Assign) for s in stmts):
            raise Unavailable(f"{name}: the draw is not three assignments")
        s1, s2, s3 = stmts
        if not (isinstance(s1.value, ast.Call) and _name(s1.value.func) == "np.cumsum" and len(s1.value.args) == 1
                and _name(s1.value.args[0])):
            raise Unavailable(f"{name}: first statement is not a cumulative sum of a variable")
        mass, cs = _name(s1.value.args[0]), _tname(s1)
        c = Comp(ip, shapes={mass: "vec"})
        c.stmt(s1)
        c.force(cs)
        rand = [x for x in ast.walk(s2.value) if isinstance(x, ast.Call) and (_name(x.func) or "").endswith(".rand") and not x.args]
        if len(rand) != 1:
            raise Unavailable(f"{name}: not exactly one rand() draw")
        c.atoms[" ".join(ast.unparse(rand[0]).split())] = lambda c=c: Sca(c.param("rand", "α"))
        lasts = [x for x in ast.walk(s2.value) if isinstance(x, ast.Subscript)]
        if len(lasts) != 1 or " ".join(ast.unparse(lasts[0]).split()) != f"{cs}[-1]":
            raise Unavailable(f"{name}: the draw is not scaled by the last cumulative sum")
        c.atoms[f"{cs}[-1]"] = Sca("last")
        c.stmt(s2)
        v = s3.value
        if not (isinstance(v, ast.Subscript) and _name(v.value) == iX):
            raise Unavailable(f"{name}: the centre is not a row of X")
        idx = c.expr(v.slice)
        if not isinstance(idx, Nat):
            raise Unavailable(f"{name}: the row index is not a search result")
        csv = c.env[cs]
        return c.finish(name, f"(Np.last? {csv.le.leaves[0]}).map fun last => {idx.t}",
                        "; ".join(ast.unparse(s) for s in stmts), ty="Option Nat", tcls="ScT"), _tname(s3)

    top = [s for s in ib if isinstance(s, ast.Assign)]
    cums = [i for i, s in enumerate(ib) if isinstance(s, ast.Assign) and isinstance(s.value, ast.Call) and _name(s.value.func) == "np.cumsum"]
    if len(cums) != 1:
        raise Unavailable("_initialize_parameters: expected one top-level cumulative sum (the first centre)")
    d0, tgt0 = draw(ib[cums[0]:cums[0] + 3], "init_draw_first")
    defs.append(d0)
    loops = [s for s in ib if isinstance(s, ast.For)]
    if len(loops) != 2:
        raise Unavailable("_initialize_parameters: expected two loops (remaining centres, soft assignment)")
    l1, l2 = loops
    if not (_is_range_for(l1) and len(l1.iter.args) == 2 and ast.unparse(l1.iter.args[0]) == "1"
            and ast.unparse(l1.iter.args[1]) == "self.n_components"):
        raise Unavailable("_initialize_parameters: the centre loop is not `range(1, self.n_components)`")
    kk = l1.target.id
    mname = tgt0.split("[")[0]
    if tgt0 != f"{mname}[0]":
        raise Unavailable("_initialize_parameters: the first centre is not stored at index 0")
    lb = l1.body
    cpos = [i for i, s in enumerate(lb) if isinstance(s, ast.Assign) and isinstance(s.value, ast.Call) and _name(s.value.func) == "np.cumsum"]
    if len(cpos) != 1 or cpos[0] + 3 != len(lb):
        raise Unavailable("_initialize_parameters: the centre loop does not end with a draw")
    pre = lb[:cpos[0]]
    mn = pre[0] if pre else None
    if not (isinstance(mn, ast.Assign) and isinstance(mn.value, ast.Call) and _name(mn.value.func) == "np.min"
            and len(mn.value.args) == 1 and isinstance(mn.value.args[0], ast.ListComp)
            and [k_.arg for k_ in mn.value.keywords] == ["axis"] and ast.unparse(mn.value.keywords[0].value) == "0"):
        raise Unavailable("_initialize_parameters: distances are not `np.min([… for j in range(k)], axis=0)`")
    lc = mn.value.args[0]
    g = _only(lc.generators, "generator")
    if not (isinstance(g.target, ast.Name) and not g.ifs and ast.unparse(g.iter) == f"range({kk})"):
        raise Unavailable("_initialize_parameters: the nearest-centre minimum is not over `range(k)`")
    c = Comp(ip, shapes={iX: ("n_samples", "n_features"), iS: "vec"})
    c.atoms[f"{mname}[{g.target.id}]"] = Vec(LE.leaf("m"))
    inner = c.expr(lc.elt)
    if not isinstance(inner, PerRow):
        raise Unavailable("_initialize_parameters: the distance to one centre is not one number per point")
    c0, cr = c.param("means_0", "List α"), c.param("means_rest", "Np.Mat α")
    c.env[_tname(mn)] = PerRow(inner.spine, lambda r: f"(Np.minOver1 (fun m => {inner.fn(r)}) {c0} {cr})", inner.n)
    for st in pre[1:]:
        c.stmt(st)
    d1, tgt1 = draw(lb[cpos[0]:], "init_draw_next")
    if tgt1 != f"{mname}[{kk}]":
        raise Unavailable("_initialize_parameters: centre k is not stored at index k")
    mass1 = _name(lb[cpos[0]].value.args[0])
    if mass1 not in c.env:
        raise Unavailable("_initialize_parameters: the mass of the later draws is not computed in the loop")
    defs.append(c.finish("init_next_mass", c.env[mass1], "; ".join(ast.unparse(s) for s in pre)))
    defs.append(d1)
    # soft assignment
    if not _is_range_for(l2, "self.n_components"):
        raise Unavailable("_initialize_parameters: the soft-assignment loop is not over the components")
    k2 = l2.target.id
    c = Comp(ip, shapes={iX: ("n_samples", "n_features")})
    c.atoms[f"{mname}[{k2}]"] = lambda c=c: Vec(LE.leaf(c.param("means_k", "List α")))
    for st in l2.body:
        c.stmt(st)
    colt = [t_ for t_ in (_tname(s) for s in l2.body) if t_.endswith(f"[:, {k2}]")]
    v = c.env.get(_only(colt, "column assignment in the soft-assignment loop"))
    if not isinstance(v, PerRow):
        raise Unavailable("_initialize_parameters: the soft assignment is not one number per point")
    c.params.append(("row", "List α"))
    defs.append(c.finish("init_logresp_entry", v.fn("row"), "; ".join(ast.unparse(s) for s in l2.body), ty="α"))
    lr = colt[0].split("[")[0]
    after = ib[ib.index(l2) + 1:]
    norm = [s for s in after if isinstance(s, (ast.Assign, ast.AugAssign))][:3]
    if len(norm) != 3 or not isinstance(norm[0], ast.AugAssign):
        raise Unavailable("_initialize_parameters: expected three normalisation statements after the loop")
    defs.append(_norm3(ip, norm, {lr: ("n_samples", "n_components")}, "init_normalise", "; ".join(ast.unparse(s) for s in norm)))
    tabs["initSkeleton"] = _skeleton(ip)

    # ================================================================== _compute_lower_bound
    _at("_compute_lower_bound")
    lbf = _find_func(tree, GM, "_compute_lower_bound")
    bX, bW, bM, bC, bS = _args(lbf, 5)
    bb = _body(lbf)
    loop = _only([s for s in bb if _is_range_for(s, "self.n_components")], "loop over components in _compute_lower_bound")
    k = loop.target.id
    tr = _only([s for s in loop.body if isinstance(s, ast.Try)], "try in _compute_lower_bound")
    a1 = _only([s for s in tr.body if isinstance(s, ast.Assign)], "assignment under try")
    a2 = _only([s for s in tr.body if isinstance(s, ast.AugAssign)], "accumulation under try")
    x, mean, cov = _logpdf_call(a1.value)
    if _name(x) != bX or ast.unparse(mean) != f"{bM}[{k}]":
        raise Unavailable("_compute_lower_bound: logpdf is not evaluated at (X, mean=means[k])")
    c = Comp(lbf)
    t, ty = _cov_idiom(c, cov)
    defs.append(c.finish("lb_cov", t, f"cov={ast.unparse(cov)}", ty=ty, tcls="ScT"))
    if not isinstance(a2.op, ast.Add):
        raise Unavailable("_compute_lower_bound: the accumulation is not `+=`")
    c = Comp(lbf)
    c.atoms[f"{bW}[{k}]"] = lambda c=c: Sca(c.param("weights_k", "α"))
    defs.append(c.finish("lb_term", c.expr(a2.value), ast.unparse(a2), tcls="ScT"))
    acc = _tname(a2)
    post = bb[bb.index(loop) + 1:]
    la = _only([s for s in post if isinstance(s, ast.Assign) and _tname(s) == acc], "logarithm of the accumulated density")
    c = Comp(lbf)
    defs.append(c.finish("lb_log", c.expr(la.value), ast.unparse(la), tcls="ScT"))
    rt = _only([s for s in post if isinstance(s, ast.Return)], "return of _compute_lower_bound")
    c = Comp(lbf, shapes={bS: "vec", acc: "vec"})
    defs.append(c.finish("lb_total", c.expr(rt.value), ast.unparse(rt)))
    tabs["lowerBoundSkeleton"] = _skeleton(lbf)

    # ================================================================== predict
    _at("predict")
    pr = _find_func(tree, GM, "predict")
    loop = _only([s for s in _body(pr) if _is_range_for(s, "self.n_components")], "loop over components in predict")
    k = loop.target.id
    tr = _only([s for s in loop.body if isinstance(s, ast.Try)], "try in predict")
    a1 = _only([s for s in tr.body if isinstance(s, ast.Assign)], "assignment under try")
    calls = [x for x in ast.walk(a1.value) if isinstance(x, ast.Call) and (_name(x.func) or "").endswith("multivariate_normal.logpdf")]
    call = _only(calls, "logpdf call in predict")
    x, mean, cov = _logpdf_call(call)
    c = Comp(pr)
    t, ty = _cov_idiom(c, cov)
    defs.append(c.finish("predict_cov", t, f"cov={ast.unparse(cov)}", ty=ty, tcls="ScT"))
    c = Comp(pr)
    c.atoms[" ".join(ast.unparse(call).split())] = lambda c=c: Sca(c.param("log_pdf", "α"))
    c.atoms[f"self.weights_[{k}]"] = lambda c=c: Sca(c.param("weights_k", "α"))
    defs.append(c.finish("predict_entry", c.expr(a1.value), "log_probabilities[:, k] = …", tcls="ScT"))
    tabs["predictSkeleton"] = _skeleton(pr)

    # ================================================================== bic ('full')
    _at("bic ('full')")
    bf = _find_func(tree, GM, "bic")
    (bicX,) = _args(bf, 1)
    su = [_shape_unpack(s) for s in _body(bf) if _shape_unpack(s)]
    if len(su) != 1:
        raise Unavailable("bic: no `n_samples, n_features = X.shape`")
    _, ns, nf = su[0]
    nats = {ns, nf, "self.n_components"}
    chain = _only([s for s in _body(bf) if isinstance(s, ast.If)], "if-chain in bic")
    if ast.unparse(chain.test) != "self.covariance_type == 'full'":
        raise Unavailable("bic: first branch is not 'full'")
    cp = _only([s for s in chain.body if isinstance(s, ast.Assign)], "assignment in the 'full' branch of bic")
    c = Comp(bf, nats=nats)
    defs.append(c.finish("bic_cov_params_full", c.expr(cp.value), ast.unparse(cp)))
    npar = _only([s for s in _body(bf) if isinstance(s, ast.Assign) and _tname(s) != _tname(cp)
                  and _tname(cp) in [x.id for x in ast.walk(s.value) if isinstance(x, ast.Name)]], "parameter count in bic")
    c = Comp(bf, nats=nats)
    defs.append(c.finish("bic_n_parameters", c.expr(npar.value), ast.unparse(npar)))
    ll = _only([s for s in _body(bf) if isinstance(s, ast.Assign) and "_compute_lower_bound" in ast.unparse(s.value)], "log-likelihood in bic")
    lbc = _only([x for x in ast.walk(ll.value) if isinstance(x, ast.Call) and (_name(x.func) or "") == "self._compute_lower_bound"], "lower-bound call")
    c = Comp(bf, nats=nats)
    c.atoms[" ".join(ast.unparse(lbc).split())] = lambda c=c: Sca(c.param("lower_bound", "α"))
    defs.append(c.finish("bic_log_likelihood", c.expr(ll.value), "log_likelihood = self._compute_lower_bound(…) * n_samples"))
    rt = _only([s for s in _body(bf) if isinstance(s, ast.Return)], "return of bic")
    c = Comp(bf, nats=nats)
    defs.append(c.finish("bic_value", c.expr(rt.value), ast.unparse(rt), tcls="ScT"))
    tabs["bicSkeleton"] = _skeleton(bf)

    # ================================================================== fit
    _at("fit")
    ft = _find_func(tree, GM, "fit")
    fX, fS = _args(ft, 2)
    fb = _body(ft)
    nw = [s for s in fb if isinstance(s, ast.Assign) and _tname(s) == fS and isinstance(s.value, ast.BinOp)]
    nw = _only(nw, "normalisation of sample_weight in fit")
    c = Comp(ft, shapes={fS: "vec"})
    defs.append(c.finish("fit_norm_weights", c.expr(nw.value), ast.unparse(nw)))
    outer = _only([s for s in fb if _is_range_for(s, "self.n_init")], "loop over initialisations")
    inner = _only([s for s in outer.body if _is_range_for(s, "self.max_iter")], "loop over EM iterations")
    it = inner.target.id
    brk = _only([s for s in inner.body if isinstance(s, ast.If) and any(isinstance(x, ast.Break) for x in s.body)], "convergence test")
    c = Comp(ft)
    defs.append(c.finish("fit_conv_test", c.expr(brk.test), f"if {ast.unparse(brk.test)}: break"))
    keep = _only([s for s in outer.body if isinstance(s, ast.If)], "best-initialisation test")
    c = Comp(ft)
    defs.append(c.finish("fit_best_test", c.expr(keep.test), f"if {ast.unparse(keep.test)}"))
    tup = [s for s in keep.body if isinstance(s, ast.Assign) and isinstance(s.value, ast.Tuple)]
    tup = _only(tup, "tuple of best parameters")
    c = Comp(ft, nats={it})
    v = c.expr(tup.value.elts[-1])
    if not isinstance(v, Nat):
        raise Unavailable("fit: the iteration count is not an integer expression")
    defs.append(c.finish("fit_n_iter", v, ast.unparse(tup)))
    cv = _only([s for s in fb if isinstance(s, ast.Assign) and _tname(s) == "self.converged_"], "assignment of converged_")
    c = Comp(ft, nats={"self.n_iter_", "self.max_iter"})
    defs.append(c.finish("fit_converged", c.expr(cv.value), ast.unparse(cv)))
    tabs["fitSkeleton"] = _skeleton(ft)

    # ================================================================== HierarchicalGaussianMixture
    _at("HierarchicalGaussianMixture")
    HG = "HierarchicalGaussianMixture"
    ef = _find_func(tree, HG, "_compute_effective_sample_size")
    (eWn,) = _args(ef, 1)
    c = Comp(ef, shapes={eWn: "vec"})
    ret = None
    for st in _body(ef):
        if isinstance(st, ast.Return):
            ret = c.expr(st.value)
            break
        if (isinstance(st, ast.Assign) and isinstance(st.value, ast.Call) and _name(st.value.func) == "np.asarray"
                and len(st.value.args) == 1 and _name(st.value.args[0]) == _tname(st)):
            continue
        c.stmt(st)
    if not isinstance(ret, Sca):
        raise Unavailable("_compute_effective_sample_size: no scalar return")
    defs.append(c.finish("hess", ret, "1.0 / np.sum((weights / np.sum(weights)) ** 2)"))
    tabs["essSkeleton"] = _skeleton(ef)

    tf = _find_func(tree, HG, "_compute_bic_tolerance")
    tF, tW = _args(tf, 2)
    c = Comp(tf, nats={tF})
    ret = None
    for st in _body(tf):
        if isinstance(st, ast.Return):
            ret = c.expr(st.value)
            break
        if isinstance(st, ast.Assign) and isinstance(st.value, ast.Call) and (_name(st.value.func) or "").startswith("self._"):
            if ast.unparse(st.value) != f"self._compute_effective_sample_size({tW})":
                raise Unavailable("_compute_bic_tolerance: N_eff is not the effective sample size of the weights")
            c.env[_tname(st)] = Sca(c.param("n_eff", "α"))
            continue
        c.stmt(st)
    if not isinstance(ret, Sca):
        raise Unavailable("_compute_bic_tolerance: no scalar return")
    defs.append(c.finish("hbic_tolerance", ret, "n_params * np.log(N_eff), n_params = D + D * (D + 1) / 2 + 1", tcls="ScT"))
    tabs["bicToleranceSkeleton"] = _skeleton(tf)

    hf = _find_func(tree, HG, "fit")
    hX, hS = _args(hf, 2)
    hb = _body(hf)
    su = [_shape_unpack(s) for s in hb if _shape_unpack(s)]
    if len(su) != 1:
        raise Unavailable("HierarchicalGaussianMixture.fit: no `n_samples, n_features = X.shape`")
    _, ns, nf = su[0]
    mp = _only([s for s in hb if isinstance(s, ast.Assign) and isinstance(s.value, ast.IfExp)], "min_points default")
    c = Comp(hf, nats={nf}, shapes={"self.min_points": "opt"})
    defs.append(c.finish("hfit_min_points", c.expr(mp.value), ast.unparse(mp)))
    mpn = _tname(mp)
    cl = [s for s in hb if isinstance(s, ast.Assign) and isinstance(s.value, ast.List) and len(s.value.elts) == 1]
    cl = _only(cl, "initial cluster list")
    e = cl.value.elts[0]
    ok = ast.unparse(e) == f"list(range({ns}))" or (
        isinstance(e, ast.ListComp) and len(e.generators) == 1 and not e.generators[0].ifs
        and ast.unparse(e.elt) == ast.unparse(e.generators[0].target) and ast.unparse(e.generators[0].iter) == f"range({ns})")
    if not ok:
        raise Unavailable("HierarchicalGaussianMixture.fit: the initial cluster is not all indices")
    defs.append(Def("hfit_initial_clusters", f"/-- `{_doc(ast.unparse(cl))}` -/\ndef hfit_initial_clusters ({ident(ns)} : Nat) : List (List Nat) := [List.range {ident(ns)}]", "Sc"))
    cln = _tname(cl)
    wh = _only([s for s in hb if isinstance(s, ast.While)], "split loop")
    itn = _name(wh.test.left) if isinstance(wh.test, ast.Compare) else None
    if itn is None:
        raise Unavailable("split loop: test is not a comparison of the iteration counter")
    c = Comp(hf, nats={itn, "self.max_iterations"})
    defs.append(c.finish("hfit_while_test", c.expr(wh.test), f"while {ast.unparse(wh.test)}"))
    wb = [s for s in wh.body if not _verbose(s)]
    inc = wb[0]
    if not (isinstance(inc, ast.AugAssign) and _tname(inc) == itn):
        raise Unavailable("split loop: does not start by advancing the iteration counter")
    c = Comp(hf, nats={itn})
    c.stmt(inc)
    defs.append(c.finish("hfit_iter_next", c.env[itn], ast.unparse(inc)))
    scan = _only([s for s in wb if isinstance(s, ast.For)], "loop over clusters")
    if not (isinstance(scan.iter, ast.Call) and _name(scan.iter.func) == "enumerate" and ast.unparse(scan.iter.args[0]) == cln
            and isinstance(scan.target, ast.Tuple) and len(scan.target.elts) == 2):
        raise Unavailable("split loop: clusters are not scanned with enumerate")
    idxn, memn = scan.target.elts[0].id, scan.target.elts[1].id
    sb = [s for s in scan.body if not _verbose(s)]
    skip = sb[0]
    if not (isinstance(skip, ast.If) and len(skip.body) == 1 and isinstance(skip.body[0], ast.Continue) and not skip.orelse):
        raise Unavailable("split loop: does not start with the size guard")
    c = Comp(hf, nats={mpn})
    defs.append(c.finish("hfit_skip_test", c.expr(skip.test), f"if {ast.unparse(skip.test)}: continue"))

    def assign_of(name_pred, what):
        return _only([s for s in sb if isinstance(s, ast.Assign) and name_pred(s)], what)
    thr = assign_of(lambda s: "self.threshold_modifier" in ast.unparse(s.value), "threshold")
    c = Comp(hf)
    defs.append(c.finish("hfit_threshold", c.expr(thr.value), ast.unparse(thr)))
    base_n = [x.id for x in ast.walk(thr.value) if isinstance(x, ast.Name)]
    base = assign_of(lambda s: _tname(s) in base_n, "base threshold")
    tabs["hfitThresholdCall"] = [" ".join(ast.unparse(_canon_locals_expr(hf, base)).split()).replace('"', "'")]
    acc = _only([s for s in sb[1:] if isinstance(s, ast.If)], "acceptance test")
    imp_n = _name(acc.test.values[0].left) if isinstance(acc.test, ast.BoolOp) and isinstance(acc.test.values[0], ast.Compare) else None
    imp = assign_of(lambda s: _tname(s) == imp_n, "improvement")
    c = Comp(hf)
    defs.append(c.finish("hfit_improvement", c.expr(imp.value), ast.unparse(imp)))
    c = Comp(hf)
    defs.append(c.finish("hfit_accept_test", c.expr(acc.test), f"if {ast.unparse(acc.test)}"))
    ab = acc.body
    sel = [s for s in ab if isinstance(s, ast.Assign) and isinstance(s.value, ast.ListComp)]
    if len(sel) != 2:
        raise Unavailable("acceptance: expected two child selections")
    labn = [s for s in ab if isinstance(s, ast.Assign) and "predict" in ast.unparse(s.value)]
    labn = _tname(_only(labn, "child labels"))
    kids = []
    for j, s in enumerate(sel):
        val = _select(s.value, memn, labn)
        kids.append(_tname(s))
        defs.append(Def(f"hfit_child{j + 1}", f"/-- `{_doc(ast.unparse(s))}` -/\ndef hfit_child{j + 1} ({ident(memn)} {ident(labn)} : List Nat) : List Nat := "
                        f"Np.selectEq {ident(memn)} {ident(labn)} {val}", "Sc"))
    size = _only([s for s in ab if isinstance(s, ast.If)], "child size test")
    c = Comp(hf, nats={mpn})
    defs.append(c.finish("hfit_size_test", c.expr(size.test), f"if {ast.unparse(size.test)}"))
    lens = [x for x in ast.walk(size.test) if isinstance(x, ast.Call) and _name(x.func) == "len"]
    if [ast.unparse(x.args[0]) for x in lens] != kids:
        raise Unavailable("child size test: not on (child1, child2) in this order")
    rec = {_tname(s): ast.unparse(s.value) for s in size.body if isinstance(s, ast.Assign)}
    pairs = {_tname(s): [e.id for e in s.value.elts] for s in size.body if isinstance(s, ast.Assign) and isinstance(s.value, ast.Tuple)
             and len(s.value.elts) == 2 and all(isinstance(e, ast.Name) and e.id in kids for e in s.value.elts)}
    split_n = list(pairs)
    idx_n = [k_ for k_, v_ in rec.items() if v_ == idxn]
    imp_rec = [k_ for k_, v_ in rec.items() if v_ == imp_n]
    if len(split_n) != 1 or len(idx_n) != 1 or len(imp_rec) != 1:
        raise Unavailable("accepted split: the best improvement / (child1, child2) / parent index are not recorded")
    tail = wb[wb.index(scan) + 1:]
    stop = _only([s for s in tail if isinstance(s, ast.If)], "stop test")
    if ast.unparse(stop.test) != f"{split_n[0]} is None" or not any(isinstance(x, ast.Break) for x in stop.body):
        raise Unavailable("split loop: does not stop when no split was accepted")
    upd = [ast.unparse(s) for s in tail if isinstance(s, ast.Expr)]
    pop_s, ext_s = f"{cln}.pop({idx_n[0]})", f"{cln}.extend({split_n[0]})"
    if sorted(upd) != sorted([pop_s, ext_s]):
        raise Unavailable(f"split bookkeeping is {upd}")
    pa, pb = pairs[split_n[0]]
    defs.append(Def("hfit_apply_split", f"/-- `{_doc('; '.join(upd))}  with {split_n[0]} = ({pa}, {pb})` -/\n"
                    f"def hfit_apply_split ({ident(cln)} : List (List Nat)) ({ident(idx_n[0])} : Nat) ({ident(kids[0])} {ident(kids[1])} : List Nat) : List (List Nat) := "
                    + (f"{ident(cln)}.eraseIdx {ident(idx_n[0])} ++ [{ident(pa)}, {ident(pb)}]" if upd[0] == pop_s else
                       f"({ident(cln)} ++ [{ident(pa)}, {ident(pb)}]).eraseIdx {ident(idx_n[0])}"), "Sc"))
    # the three inner mixtures
    ctor = []
    for s in ast.walk(hf):
        if isinstance(s, ast.Assign) and isinstance(s.value, ast.Call) and _name(s.value.func) == "GaussianMixture":
            if s.value.args:
                raise Unavailable("GaussianMixture built with positional arguments")
            ctor.append((s.lineno, ", ".join(f"{k_.arg}={ast.unparse(k_.value)}" for k_ in s.value.keywords).replace('"', "'")))
    tabs["hfitMixtures"] = [t for _, t in sorted(ctor)]
    fin = _only([s for s in hb if isinstance(s, ast.For) and s is not scan and "enumerate" in ast.unparse(s.iter)], "final loop over clusters")
    ft_if = _only([s for s in fin.body if isinstance(s, ast.If) and "len(" in ast.unparse(s.test)], "final-fit size test")
    c = Comp(hf, nats={nf})
    defs.append(c.finish("hfit_final_test", c.expr(ft_if.test), f"if {ast.unparse(ft_if.test)}"))
    tabs["hfitSkeleton"] = _skeleton(hf)
    return defs, tabs


def _canon_locals_expr(fn, st):
    """statement `st` of `fn` with the locals of `fn` renamed canonically"""
    f2, ren = _canon_locals(fn)
    st = copy.deepcopy(st)
    for node in ast.walk(st):
        if isinstance(node, ast.Name) and node.id in ren:
            node.id = ren[node.id]
    return st


def _select(lc, memn, labn):
    """`[ix[i] for i in range(len(ix)) if lab[i] == c]` or `[i for i, l in zip(ix, lab) if l == c]` -> c"""
    g = _only(lc.generators, "generator of a child selection")
    cond = _only(g.ifs, "condition of a child selection")
    if not (isinstance(cond, ast.Compare) and len(cond.ops) == 1 and isinstance(cond.ops[0], ast.Eq)
            and isinstance(cond.comparators[0], ast.Constant) and isinstance(cond.comparators[0].value, int)
            and not isinstance(cond.comparators[0].value, bool) and cond.comparators[0].value >= 0):
        raise Unavailable("child selection: the condition is not `label == <count>`")
    val = cond.comparators[0].value
    if isinstance(g.target, ast.Name):
        i = g.target.id
        if (ast.unparse(g.iter) == f"range(len({memn}))" and ast.unparse(lc.elt) == f"{memn}[{i}]"
                and ast.unparse(cond.left) == f"{labn}[{i}]"):
            return val
    elif isinstance(g.target, ast.Tuple) and len(g.target.elts) == 2 and all(isinstance(x, ast.Name) for x in g.target.elts):
        a, b = (x.id for x in g.target.elts)
        if ast.unparse(g.iter) == f"zip({memn}, {labn})" and ast.unparse(lc.elt) == a and ast.unparse(cond.left) == b:
            return val
    raise Unavailable(f"child selection {ast.unparse(lc)!r}")


# ------------------------------------------------------------------------------------------------ output
def _lean_str_list(xs):
    return "[" + ",\n   ".join('"' + x.replace("\\", "/").replace('"', "'").replace("\n", " ").replace("\r", " ") + '"' for x in xs) + "]"


def render(defs, tabs):
    L = ["/- GENERATED by translate/g18_cluster.py from /repo's current source — do not edit. -/",
         "import TempestVerif.Model.NpSrc", "namespace Gen.ClusterSrc", "variable {α : Type}", ""]
    for cls in ("Sc", "ScT"):
        L += [f"section {cls}_terms", f"variable [{cls} α]", ""]
        for d in defs:
            if d.cls == cls:
                L += [d.text, ""]
        L += [f"end {cls}_terms", ""]
    for k, v in tabs.items():
        L += [f"def {k} : List String :=\n  {_lean_str_list(v)}", ""]
    L += ["end Gen.ClusterSrc", ""]
    return "\n".join(L)


def generate():
    try:
        defs, tabs = extract()
    except Unavailable as e:
        return (NAME, "unavailable", f"[{_SITE[0]}] {e}" if _SITE[0] else str(e))
    except (SyntaxError, OSError, RecursionError) as e:
        return (NAME, "unavailable", f"{type(e).__name__}: {e}")
    except (AttributeError, IndexError, KeyError, TypeError, ValueError) as e:     # an unforeseen shape is not a crash
        import traceback
        tb = traceback.extract_tb(e.__traceback__)[-1]
        return (NAME, "unavailable", f"[{_SITE[0]}] unrecognised statement shape ({type(e).__name__}: {e} at g18_cluster.py:{tb.lineno})")
    changed = common.write_if_changed(os.path.join(common.GEN, "ClusterSrc.lean"), render(defs, tabs))
    return (NAME, "ok",
            f"{'re' if changed else ''}generated Gen/ClusterSrc.lean ({len(defs)} terms, {sum(len(v) for v in tabs.values())} statements)")


if __name__ == "__main__":
    print(generate())
