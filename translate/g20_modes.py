"""G20 — the label / mode bookkeeping of `tempest/modes.py` (`ModeStatistics.mode_index`, the label handling of
`from_particles`, the gate of `__init__`, the property `K`), `tempest/steps/train.py: Trainer.run` and the
`assignments` hand-off of `tempest/steps/resample.py: Resampler.run`, read from /repo's current source (Python `ast`
only), property C14.

Emits lean/TempestVerif/Gen/ModesSrc.lean, five independent sections (one that cannot be read keeps its previous text and
reports `unavailable`; the others are still regenerated):

  * modes.py:mode_index      `miNoLabels` (the `self.labels is None` return), `miIndex0` (`np.clip(np.searchsorted(…), 0, K-1)`),
                             `miMissing` (`self.labels[index] != assignments`), `miIndex` (the masked store
                             `index[missing] = np.argmin(dist, axis=1)`), `miNearest`, `miDistRow` (the row of distances whose
                             argmin is taken), `miLabel`, `miResult` (the returned pair), `miRowMask` / `miStoreMask`, `kDef`.
  * modes.py:from_particles  `fpLoopLabels` (what the `for` runs over), `fpMembers` (`np.where(labels == label)[0]`),
                             `fpMeansOver/fpCovsOver/fpDofsOver` (what the three constructor arguments range over),
                             `fpStored` (`labels=` of the constructor call), `fpModes`, `fpFitFlow` (which rows each fit is fed).
  * modes.py:__init__        `initGate` — the constructor does not raise `ValueError`, as a Boolean term on array SHAPES
                             (`x.ndim`, `reshape(1, -1)`, `reshape(1, *shape)`, `np.array([x])`, `K, n_dim = means.shape`, the two
                             shape comparisons), `initEffects` (attribute writes / raises in program order with path conditions).
  * train.py:Trainer.run     `trAtoms` / `trAtom0…` (the atomic conditions of all branch tests, sorted by their text, compiled:
                             `self._clusterer_fitted`, `self.clustering`, `beta == 0.0`, `iter % cluster_every == 0`, `iter == 0`),
                             `trTraceId` (reduced decision tree over them: which trace runs), `trTrace0…` (the distinct traces: what
                             is trimmed, fitted on what, predicted on what, which constructor is fed what, what is returned),
                             `trClusterer0…` (the clusterer methods each trace calls, in order), `trDummyMeans/Covs/Dofs/Labels`.
  * resample.py:Resampler.run  `rsAtoms` / `rsAtom0…`, `rsTraceId`, `rsTrace0…`, `rsClusterer0…`, restricted to the rows about
                             `assignments` / `current['u']` / the clusterer and the events they refer to.
  `Props/C14Source.lean` proves that `Model/Modes.lean`, `Model/Cadence.lean`, `Model/CadenceX.lean`, `Model/ModeGate.lean`,
  `Model/TrainStep.lean` and `Model.StudentModes.trainerPath / trainerRun .dummy` are these terms.

HOW the source is read.  A substituting evaluator walks each function body: every local name holds the expression it currently
stands for over the function's INPUTS (parameters by POSITION, `self.*` attributes, state reads), attribute writes are tracked
like locals, `if` branches are merged into conditional expressions, `if …: raise` extends the path condition of everything that
follows, private helpers of the same class / module are inlined, calls that are not pure (clusterer, trimming, constructors,
random draws, state writes) become numbered EVENTS `r0, r1, …` recorded in program order with their path conditions.  So local
names, temporaries, comments, formatting, docstrings, annotations, `if/else` versus a conditional expression, extracted
helpers and — for the two `run` methods, whose behaviour is tabulated per valuation of the atomic conditions — any restructuring
of the branch logic that keeps the behaviour do not change what is generated; a literal, an operator, an operand order, a comparison, a call argument,
a dropped / duplicated / reordered effect does.

The translator never guesses: a construct outside its language makes the section `unavailable` with the construct named.  It
decides nothing about correctness: a source that is readable but different yields different terms and a failing theorem.
"""
import ast
import builtins
import copy
import os
import re
import sys
import warnings

from harness import common
from .g5_tables import Unavailable, _parse, _name
from .g14_resample import AT, _atom, _is_atom, _dump, _show, _replace, _defn, _lit
from .g17_student import _lean_str

NAME = "G20-modes-source"

PURE_BUILTINS = {"len", "range", "int", "float", "bool", "abs", "min", "max", "sum", "tuple", "list", "dict", "str",
                 "isinstance", "enumerate", "zip", "sorted"}
PURE_METHODS = {"reshape", "astype", "copy", "sum", "mean", "flatten", "ravel", "tolist", "item", "any", "all", "transpose",
                "squeeze", "max", "min"}
_FORBIDDEN_EXPR = (ast.Lambda, ast.ListComp, ast.SetComp, ast.DictComp, ast.GeneratorExp, ast.NamedExpr, ast.Await,
                   ast.Yield, ast.YieldFrom)


def _is_doc(st):
    return isinstance(st, ast.Expr) and isinstance(st.value, ast.Constant) and isinstance(st.value.value, str)


def _mentions_name(node, dotted):
    return any(_name(n) == dotted for n in ast.walk(node))


def _call(fn, *args):
    return ast.Call(func=_atom(fn), args=list(args), keywords=[])


def _is_marker(n, fn):
    return isinstance(n, ast.Call) and _is_atom(n.func, fn)


def E(src, **atoms):
    """parse an expression; the names given as keywords become input atoms"""
    node = ast.parse(src, mode="eval").body
    for n in ast.walk(node):
        if isinstance(n, ast.Name) and n.id in atoms:
            n.id = AT + atoms[n.id]
    return node


def D(src, **atoms):
    return _dump(E(src, **atoms))


# ------------------------------------------------------------------------------------------------- substituting evaluator
class Row:
    """one recorded effect: path condition, a text template over expression nodes, the event it defines (if any)"""

    def __init__(self, guards, tpl, nodes, defines=None):
        self.guards, self.tpl, self.nodes, self.defines = tuple(guards), tpl, list(nodes), defines

    @property
    def text(self):
        return self.tpl.format(*[_show(n) for n in self.nodes])

    def __iter__(self):                     # (guards, text)
        yield self.guards
        yield self.text


def _leaves(test, out):
    """the atomic propositions of a branch condition"""
    if isinstance(test, ast.BoolOp):
        for v in test.values:
            _leaves(v, out)
    elif isinstance(test, ast.UnaryOp) and isinstance(test.op, (ast.Not, ast.Invert)):
        _leaves(test.operand, out)
    elif isinstance(test, ast.Constant) and isinstance(test.value, bool):
        pass
    else:
        out.setdefault(_dump(test), test)


def _eval_test(test, sigma):
    if isinstance(test, ast.BoolOp):
        vals = [_eval_test(v, sigma) for v in test.values]
        return all(vals) if isinstance(test.op, ast.And) else any(vals)
    if isinstance(test, ast.UnaryOp) and isinstance(test.op, (ast.Not, ast.Invert)):
        return not _eval_test(test.operand, sigma)
    if isinstance(test, ast.Constant) and isinstance(test.value, bool):
        return test.value
    return sigma[_dump(test)]


def _resolve(node, sigma):
    """`a if T else b` → the branch taken under the valuation, wherever T is a condition over the atoms"""
    class R(ast.NodeTransformer):
        def visit_IfExp(s, n):
            lv = {}
            _leaves(n.test, lv)
            if lv and all(k in sigma for k in lv):
                return s.visit(n.body if _eval_test(n.test, sigma) else n.orelse)
            return s.generic_visit(n)
    return R().visit(copy.deepcopy(node))


class Sym:
    """symbolic evaluation of one function body.  `env`: local name / 'self.attr' → closed expression"""

    MAX_INLINE = 4

    def __init__(self, methods, module_funcs, known, loop_handler=None, skip_attrs=("self.pbar",)):
        self.methods = methods              # name → (FunctionDef, kind) with kind in 'method' | 'classmethod' | 'staticmethod'
        self.module_funcs = module_funcs
        self.known = set(known) | set(dir(builtins)) | {"self", "cls"}
        self.loop_handler = loop_handler
        self.skip_attrs = skip_attrs
        self.rows = []                      # [Row]
        self.guard_names = {}               # dump(full test) → (Gk, text)
        self.guard_tests = []
        self.path = []                      # guards that hold for everything that follows (an `if …: raise` was passed)
        self.events = []                    # call node of event k
        self.unpacks = []                   # [(guards, expr, n)]: `a, b = expr` with a non-tuple value
        self.writes = []                    # [(state key, value)] of set_current / update_current with literal keys
        self.depth = 0
        self.allow_listcomp = False
        self.norm_len = False               # read `X.shape[0]` as `len(X)`

    # ---- guards / rows
    def guard(self, test_full, test_show, positive):
        d = _dump(test_full)
        if d not in self.guard_names:
            self.guard_names[d] = (f"G{len(self.guard_names)}", _show(test_show))
            self.guard_tests.append(copy.deepcopy(test_full))
        return ("" if positive else "!") + self.guard_names[d][0]

    def row(self, guards, tpl, *nodes, defines=None):
        self.rows.append(Row(tuple(self.path) + tuple(guards), tpl, [copy.deepcopy(n) for n in nodes], defines))

    # ---- expressions
    def full(self, node, env):
        """substitute the attribute values currently held"""
        class R(ast.NodeTransformer):
            def visit_Attribute(s, n):
                nm = _name(n)
                if nm is not None and nm in env and isinstance(n.ctx, ast.Load):
                    return copy.deepcopy(env[nm])
                return s.generic_visit(n)
        return R().visit(copy.deepcopy(node))

    def sub(self, node, env, guards):
        for n in ast.walk(node):
            if isinstance(n, _FORBIDDEN_EXPR) and not (self.allow_listcomp and isinstance(n, ast.ListComp)):
                raise Unavailable(f"line {getattr(n, 'lineno', '?')}: {type(n).__name__} is outside the expression language")
        return self._sub(copy.deepcopy(node), env, guards)

    def _sub(self, n, env, guards):
        if isinstance(n, ast.Name):
            if isinstance(n.ctx, ast.Load) and n.id in env:
                return copy.deepcopy(env[n.id])
            if isinstance(n.ctx, ast.Load) and not n.id.startswith(AT) and n.id not in self.known:
                raise Unavailable(f"line {getattr(n, 'lineno', '?')}: `{n.id}` is read where it has no value")
            return n
        if isinstance(n, ast.JoinedStr):
            return ast.Constant(value="<f-string>")
        if isinstance(n, ast.ListComp):
            # `[e for t in L]` where L is a list filled once per pass of the loop: the list of `e` per pass
            if len(n.generators) != 1 or n.generators[0].ifs or n.generators[0].is_async:
                raise Unavailable(f"line {getattr(n, 'lineno', '?')}: list comprehension with a filter / several generators")
            it = self._sub(n.generators[0].iter, env, guards)
            if not _is_marker(it, "forlist"):
                raise Unavailable(f"line {getattr(n, 'lineno', '?')}: list comprehension over `{_show(it)[:60]}`, not over a list filled by the loop")
            env2 = dict(env)
            self._assign(n.generators[0].target, copy.deepcopy(it.args[1]), env2, guards, n)
            return _call("forlist", copy.deepcopy(it.args[0]), self._sub(n.elt, env2, guards))
        if self.norm_len and isinstance(n, ast.Subscript) and isinstance(n.slice, ast.Constant) and n.slice.value == 0 \
                and isinstance(n.value, ast.Attribute) and n.value.attr == "shape" and isinstance(n.ctx, ast.Load):
            return ast.Call(func=ast.Name(id="len", ctx=ast.Load()), args=[self._sub(n.value.value, env, guards)], keywords=[])
        if isinstance(n, ast.IfExp):
            n.test = self._sub(n.test, env, guards)
            tf = self.full(n.test, env)
            n.body = self._sub(n.body, env, list(guards) + [self.guard(tf, n.test, True)])
            n.orelse = self._sub(n.orelse, env, list(guards) + [self.guard(tf, n.test, False)])
            return n
        if isinstance(n, ast.Call):
            if not isinstance(n.func, ast.Name) and _name(n.func) is None:
                n.func = self._sub(n.func, env, guards)
            elif isinstance(n.func, ast.Attribute):
                # a dotted callee: substitute a LOCAL at its root (`u.reshape(…)`), keep `self.*` / module names
                root = n.func
                while isinstance(root, ast.Attribute):
                    root = root.value
                if isinstance(root, ast.Name) and root.id in env:
                    n.func = self._sub(n.func, env, guards)
            elif isinstance(n.func, ast.Name) and n.func.id in env:
                raise Unavailable(f"line {getattr(n, 'lineno', '?')}: call of the local `{n.func.id}`")
            n.args = [self._sub(a, env, guards) for a in n.args]
            for k in n.keywords:
                if k.arg is None:
                    raise Unavailable("`**kwargs` in a call")
                k.value = self._sub(k.value, env, guards)
            return self._call(n, env, guards)
        for field, old in ast.iter_fields(n):
            if isinstance(old, list):
                setattr(n, field, [self._sub(x, env, guards) if isinstance(x, ast.AST) else x for x in old])
            elif isinstance(old, ast.AST):
                setattr(n, field, self._sub(old, env, guards))
        return n

    def _call(self, n, env, guards):
        fn = _name(n.func)
        if fn in ("np.asarray", "numpy.asarray") and len(n.args) == 1 and not n.keywords:
            return n.args[0]                                  # a view of the same array
        if fn is not None and "." in fn and fn.split(".")[0] in ("self", "cls") and fn.count(".") == 1 \
                and fn.split(".")[1] in self.methods:
            return self._inline(*self.methods[fn.split(".")[1]], n, guards)
        if isinstance(n.func, ast.Name) and n.func.id in self.module_funcs and n.func.id.startswith("_"):
            return self._inline(self.module_funcs[n.func.id], "function", n, guards)
        if self._pure(fn, n):
            return n
        if fn is not None and fn.endswith("state.update_current") and len(n.args) == 1 and isinstance(n.args[0], ast.Dict) \
                and not n.keywords and all(isinstance(k, ast.Constant) for k in n.args[0].keys):
            for k, val in zip(n.args[0].keys, n.args[0].values):
                self.writes.append((k.value, val))
                self.row(guards, "current[" + repr(k.value).replace("{", "{{").replace("}", "}}") + "] := {0}", val)
            return ast.Constant(value=None)
        if fn is not None and fn.endswith("state.set_current") and len(n.args) == 2 and isinstance(n.args[0], ast.Constant) \
                and not n.keywords:
            self.writes.append((n.args[0].value, n.args[1]))
            self.row(guards, "current[" + repr(n.args[0].value).replace("{", "{{").replace("}", "}}") + "] := {0}", n.args[1])
            return ast.Constant(value=None)
        k = len(self.events)
        self.events.append(copy.deepcopy(n))
        self.row(guards, f"r{k} = " + "{0}", n, defines=k)
        return _atom(f"r{k}")

    @staticmethod
    def _pure(fn, call):
        if isinstance(call.func, ast.Attribute) and call.func.attr in PURE_METHODS and not (fn or "").startswith(("self.clusterer", "self.state")):
            return True
        if fn is None:
            return False
        if fn in PURE_BUILTINS:
            return True
        head = fn.split(".")[0]
        if head in ("np", "numpy", "math"):
            return not fn.startswith(("np.random.", "numpy.random."))
        if fn.startswith("self.state.get_"):
            return True
        return False

    def _inline(self, fdef, kind, call, guards):
        if self.depth >= self.MAX_INLINE:
            raise Unavailable(f"helper calls nested deeper than {self.MAX_INLINE} at `{fdef.name}`")
        a = fdef.args
        if a.vararg or a.kwarg or a.posonlyargs or a.kwonlyargs:
            raise Unavailable(f"helper `{fdef.name}`: signature outside the language")
        params = [x.arg for x in a.args]
        if kind in ("method", "classmethod"):
            if not params:
                raise Unavailable(f"method `{fdef.name}` without self")
            params = params[1:]
        defaults = dict(zip(params[len(params) - len(a.defaults):], a.defaults)) if a.defaults else {}
        env2 = {}
        if len(call.args) > len(params):
            raise Unavailable(f"helper `{fdef.name}`: too many arguments")
        for p, v in zip(params, call.args):
            if isinstance(v, ast.Starred):
                raise Unavailable(f"helper `{fdef.name}`: starred argument")
            env2[p] = v
        for k in call.keywords:
            if k.arg not in params or k.arg in env2:
                raise Unavailable(f"helper `{fdef.name}`: keyword {k.arg!r}")
            env2[k.arg] = k.value
        for p in params:
            if p not in env2:
                if p not in defaults:
                    raise Unavailable(f"helper `{fdef.name}`: parameter {p!r} unbound")
                env2[p] = copy.deepcopy(defaults[p])
        # attribute values are shared with the caller
        outer = self._cur_env
        for k2, v2 in outer.items():
            if "." in k2:
                env2[k2] = v2
        self.depth += 1
        try:
            st, val = self.block(fdef.body, env2, guards, toplevel=True)
        finally:
            self.depth -= 1
        for k2, v2 in env2.items():
            if "." in k2:
                outer[k2] = v2
        self._cur_env = outer
        return val if st in ("ret", "raise") else ast.Constant(value=None)

    # ---- statements
    def _assign(self, tgt, v_loc, env, guards, st):
        if isinstance(tgt, ast.Name):
            env[tgt.id] = v_loc
        elif isinstance(tgt, (ast.Tuple, ast.List)):
            if isinstance(v_loc, ast.Tuple) and len(tgt.elts) == len(v_loc.elts):
                for t, v in zip(tgt.elts, v_loc.elts):
                    self._assign(t, v, env, guards, st)
            else:
                if any(isinstance(t, ast.Starred) for t in tgt.elts):
                    raise Unavailable(f"line {st.lineno}: starred unpacking")
                self.unpacks.append((tuple(self.path) + tuple(guards), self.full(v_loc, env), len(tgt.elts)))
                for k, t in enumerate(tgt.elts):
                    self._assign(t, ast.Subscript(value=copy.deepcopy(v_loc), slice=ast.Constant(value=k), ctx=ast.Load()),
                                 env, guards, st)
        elif isinstance(tgt, ast.Attribute) and _name(tgt) is not None and _name(tgt).split(".")[0] == "self" \
                and _name(tgt).count(".") == 1:
            self.row(guards, f"{_name(tgt)} := " + "{0}", v_loc)
            env[_name(tgt)] = self.full(v_loc, env)
        elif isinstance(tgt, ast.Subscript) and isinstance(tgt.value, ast.Name) and tgt.value.id in env:
            idx = self._sub(copy.deepcopy(tgt.slice), env, guards)
            env[tgt.value.id] = _call("setitem", copy.deepcopy(env[tgt.value.id]), idx, v_loc)
        elif isinstance(tgt, (ast.Subscript, ast.Attribute)):
            t2 = self._sub(copy.deepcopy(tgt), env, guards)
            self.row(guards, "{0} := {1}", t2, v_loc)
        else:
            raise Unavailable(f"line {st.lineno}: assignment target `{ast.unparse(tgt)}` outside the language")

    def block(self, stmts, env, guards, toplevel=False):
        """→ ('fall', None) | ('ret', value) | ('raise', value).  `env` is updated in place."""
        stmts = [s for s in stmts if not _is_doc(s) and not isinstance(s, ast.Pass)]
        for pos, st in enumerate(stmts):
            self._cur_env = env
            if isinstance(st, (ast.If, ast.Expr, ast.Assign)) and any(_mentions_name(st, a) for a in self.skip_attrs) \
                    and not isinstance(st, ast.Assign):
                continue                                            # progress-bar statements
            if isinstance(st, ast.Assign):
                v = self.sub(st.value, env, guards)
                for t in st.targets:
                    self._assign(t, v, env, guards, st)
            elif isinstance(st, ast.AnnAssign) and st.value is not None:
                self._assign(st.target, self.sub(st.value, env, guards), env, guards, st)
            elif isinstance(st, ast.AugAssign):
                if not isinstance(st.target, ast.Name) or st.target.id not in env:
                    raise Unavailable(f"line {st.lineno}: augmented assignment to `{ast.unparse(st.target)}`")
                env[st.target.id] = ast.BinOp(left=copy.deepcopy(env[st.target.id]), op=st.op, right=self.sub(st.value, env, guards))
            elif isinstance(st, ast.Expr):
                v0 = st.value
                if isinstance(v0, ast.Call) and isinstance(v0.func, ast.Attribute) and v0.func.attr == "append" \
                        and isinstance(v0.func.value, ast.Name) and v0.func.value.id in env and len(v0.args) == 1 and not v0.keywords:
                    nm = v0.func.value.id
                    env[nm] = _call("append", copy.deepcopy(env[nm]), self.sub(v0.args[0], env, guards))
                    continue
                v = self.sub(v0, env, guards)
                last = len(self.events) - 1
                if isinstance(v, ast.Name) and last >= 0 and _is_atom(v, f"r{last}") and isinstance(v0, ast.Call):
                    # the statement IS the event: no binding is shown
                    r = self.rows[-1]
                    if r.defines == last:
                        r.tpl, r.defines = "{0}", None
                elif not isinstance(v, (ast.Constant, ast.Name, ast.IfExp, ast.Call)):
                    raise Unavailable(f"line {st.lineno}: expression statement `{ast.unparse(st)}`")
            elif isinstance(st, ast.Return):
                v = self.sub(st.value, env, guards) if st.value is not None else ast.Constant(value=None)
                if self.depth == 0:
                    self.row(guards, "return {0}", v)
                return "ret", v
            elif isinstance(st, ast.Raise):
                exc = st.exc.func if isinstance(st.exc, ast.Call) else st.exc
                nm = _name(exc) if exc is not None else "re-raise"
                if nm is None or not nm.replace(".", "_").isidentifier():
                    raise Unavailable(f"line {st.lineno}: raise of `{ast.unparse(st.exc)}`")
                self.row(guards, f"raise {nm}")
                return "raise", _atom(f"raise_{nm.replace('.', '_')}")
            elif isinstance(st, ast.If):
                test = self.sub(st.test, env, guards)
                tfull = self.full(test, env)
                e1, e2 = dict(env), dict(env)
                s1, v1 = self.block(st.body, e1, list(guards) + [self.guard(tfull, test, True)])
                self._cur_env = env
                s2, v2 = self.block(st.orelse, e2, list(guards) + [self.guard(tfull, test, False)])
                self._cur_env = env
                if s1 == "fall" and s2 == "fall":
                    for k in list(dict.fromkeys(list(e1) + list(e2))):
                        a, b = e1.get(k), e2.get(k)
                        if a is not None and b is not None and _dump(a) == _dump(b):
                            env[k] = a
                        else:
                            env[k] = ast.IfExp(test=copy.deepcopy(tfull),
                                               body=a if a is not None else _atom("unbound"),
                                               orelse=b if b is not None else _atom("unbound"))
                    continue
                if s1 != "fall" and s2 != "fall":
                    return ("raise" if s1 == s2 == "raise" else "ret"), ast.IfExp(test=tfull, body=v1, orelse=v2)
                if (s1 == "raise" or s2 == "raise") and not guards:
                    # everything that follows — in this body and in every caller — runs under the other branch's condition
                    self.path.append(self.guard(tfull, test, s1 != "raise"))
                    env.clear(); env.update(e2 if s1 == "raise" else e1)
                    continue
                if not toplevel:
                    raise Unavailable(f"line {st.lineno}: conditional `return` / `raise` inside a nested block")
                if s1 != "fall":
                    env.clear(); env.update(e2)
                    sr, vr = self.block(stmts[pos + 1:], env, list(guards) + [self.guard(tfull, test, False)], toplevel=True)
                    return "ret", ast.IfExp(test=tfull, body=v1, orelse=vr if sr != "fall" else ast.Constant(value=None))
                env.clear(); env.update(e1)
                sr, vr = self.block(stmts[pos + 1:], env, list(guards) + [self.guard(tfull, test, True)], toplevel=True)
                return "ret", ast.IfExp(test=tfull, body=vr if sr != "fall" else ast.Constant(value=None), orelse=v2)
            elif isinstance(st, ast.For) and self.loop_handler is not None and self.depth == 0 and not guards:
                self.loop_handler(self, st, env)
            elif isinstance(st, (ast.Import, ast.ImportFrom)):
                self.known |= {(al.asname or al.name).split(".")[0] for al in st.names}
            else:
                raise Unavailable(f"line {st.lineno}: statement {type(st).__name__} outside the statement language")
        return "fall", None

    def effect_rows(self, keep=None):
        """the rows in program order with their path conditions; the conditions that guard some kept row are listed first,
           numbered by first use"""
        rows = [(r.guards, r.text) for r in self.rows if keep is None or keep(r.text)]
        byname = {g: t for g, t in self.guard_names.values()}
        order = []
        for guards, _t in rows:
            for g in guards:
                if g.lstrip("!") not in order:
                    order.append(g.lstrip("!"))
        ren = {g: f"C{k}" for k, g in enumerate(order)}
        out = [f"{ren[g]} := {byname[g]}" for g in order]
        for guards, text in rows:
            gs = [("!" if g.startswith("!") else "") + ren[g.lstrip("!")] for g in guards]
            out.append((f"[{' '.join(gs)}] " if gs else "") + text)
        return out


    MAX_ATOMS = 10

    def traces(self, keep=None):
        """the behaviour as a function of the atomic propositions of all branch conditions:
           → (atoms [AST, sorted by their text], distinct traces [[text]], reduced decision tree over x0.. as a Lean term).
           A trace = the rows active under one valuation, conditional expressions resolved, rows kept by `keep` plus the events
           they refer to, events renumbered in order.  Only atoms the result depends on are returned."""
        byname = {nm: test for (nm, _txt), test in zip(self.guard_names.values(), self.guard_tests)}
        lv = {}
        for t in self.guard_tests:
            _leaves(t, lv)
        atoms = sorted(lv.items(), key=lambda kv: _show(kv[1]))
        if len(atoms) > self.MAX_ATOMS:
            raise Unavailable(f"{len(atoms)} atomic conditions: more than the trace table is built for")

        def trace(sigma):
            act = []
            for r in self.rows:
                ok = True
                for g in r.guards:
                    if g.lstrip("!") not in byname:
                        raise Unavailable(f"row under the pseudo-condition {g}")
                    if _eval_test(byname[g.lstrip("!")], sigma) == g.startswith("!"):
                        ok = False
                        break
                if ok:
                    act.append((r.tpl, [_resolve(n, sigma) for n in r.nodes], r.defines))
                    if r.tpl.startswith(("return ", "raise ")):
                        break
            texts = [tpl.format(*[_show(n) for n in nodes]) for tpl, nodes, _d in act]
            kept = [keep is None or keep(t) for t in texts]
            changed = True
            while changed:
                changed = False
                need = set()
                for (tpl, nodes, _d), k in zip(act, kept):
                    if k:
                        for n in nodes:
                            for x in ast.walk(n):
                                if _is_atom(x) and re.fullmatch(r"r\d+", x.id[len(AT):]):
                                    need.add(int(x.id[len(AT) + 1:]))
                for i, (tpl, nodes, d) in enumerate(act):
                    if d is not None and d in need and not kept[i]:
                        kept[i] = changed = True
            ren, out = {}, []
            for (tpl, nodes, d), k in zip(act, kept):
                if k and d is not None:
                    ren[d] = len(ren)
            for (tpl, nodes, d), k in zip(act, kept):
                if not k:
                    continue
                ns = []
                for n in nodes:
                    n = copy.deepcopy(n)
                    for x in ast.walk(n):
                        if _is_atom(x) and re.fullmatch(r"r\d+", x.id[len(AT):]) and int(x.id[len(AT) + 1:]) in ren:
                            x.id = AT + "R" + str(ren[int(x.id[len(AT) + 1:])])
                    ns.append(n)
                t = tpl.format(*[_show(n) for n in ns])
                if d is not None:
                    t = f"R{ren[d]} = " + t[len(f"r{d} = "):]
                out.append(re.sub(r"\bR(\d+)\b", r"r\1", t))
            return tuple(out)

        import itertools
        keys = [k for k, _ in atoms]
        table = {}
        for bits in itertools.product([False, True], repeat=len(keys)):
            table[bits] = trace(dict(zip(keys, bits)))
        rel = [i for i in range(len(keys))
               if any(table[b] != table[b[:i] + (not b[i],) + b[i + 1:]] for b in table)]
        sub = {}
        for b, t in table.items():
            sub[tuple(b[i] for i in rel)] = t
        ids, distinct = {}, []
        for bits in itertools.product([False, True], repeat=len(rel)):
            t = sub[bits]
            if t not in ids:
                ids[t] = len(distinct)
                distinct.append(list(t))

        def tree(i, prefix):
            if i == len(rel):
                return str(ids[sub[tuple(prefix)]])
            lo, hi = tree(i + 1, prefix + [False]), tree(i + 1, prefix + [True])
            return lo if lo == hi else f"(if x{i} then {hi} else {lo})"
        return [atoms[i][1] for i in rel], distinct, tree(0, [])


# ------------------------------------------------------------------------------------------------- typed compiler → Lean
class LC:
    """compiles closed expressions.  nats / bools / scals / lists / shapes: atom id or dump(expr) → Lean name"""

    def __init__(self, nats=None, bools=None, scals=None, lists=None, shapes=None):
        self.nats, self.bools, self.scals = nats or {}, bools or {}, scals or {}
        self.lists, self.shapes = lists or {}, shapes or {}

    @staticmethod
    def _key(n):
        return n.id if isinstance(n, ast.Name) else _dump(n)

    # ---- Nat
    def nat(self, n):
        k = self._key(n)
        if k in self.nats:
            return self.nats[k]
        if isinstance(n, ast.Constant) and isinstance(n.value, int) and not isinstance(n.value, bool) and n.value >= 0:
            return str(n.value)
        if isinstance(n, ast.BinOp) and isinstance(n.op, (ast.Add, ast.Sub, ast.Mult, ast.Mod)):
            op = {ast.Add: "+", ast.Sub: "-", ast.Mult: "*", ast.Mod: "%"}[type(n.op)]
            return f"({self.nat(n.left)} {op} {self.nat(n.right)})"
        if isinstance(n, ast.Call) and not n.keywords:
            f = _name(n.func)
            if f == "np.clip" and len(n.args) == 3:
                return f"(NpL.clip {self.nat(n.args[0])} {self.nat(n.args[1])} {self.nat(n.args[2])})"
            if f == "np.searchsorted" and len(n.args) == 2:
                return f"(NpL.searchsorted {self.lnat(n.args[0])} {self.nat(n.args[1])})"
            if f == "len" and len(n.args) == 1:
                return f"({self.lnat(n.args[0])}).length"
        if isinstance(n, ast.Attribute) and n.attr == "ndim":
            return f"({self.shape(n.value)}).length"
        if isinstance(n, ast.Subscript) and isinstance(n.slice, ast.Constant) and isinstance(n.slice.value, int) \
                and not isinstance(n.slice.value, bool) and n.slice.value >= 0 and self.is_shape(n.value):
            return f"(({self.shape_of(n.value)}).getD {n.slice.value} 0)"
        raise Unavailable(f"`{_show(n)}` is not an index / count expression")

    # ---- List Nat
    def lnat(self, n):
        k = self._key(n)
        if k in self.lists:
            return self.lists[k]
        if isinstance(n, ast.Call) and not n.keywords and _name(n.func) == "np.unique" and len(n.args) == 1:
            return f"(NpL.unique {self.lnat(n.args[0])})"
        if isinstance(n, ast.Subscript) and isinstance(n.slice, ast.Constant) and n.slice.value == 0 \
                and isinstance(n.value, ast.Call) and _name(n.value.func) == "np.where" and len(n.value.args) == 1 \
                and not n.value.keywords and isinstance(n.value.args[0], ast.Compare) and len(n.value.args[0].ops) == 1:
            c = n.value.args[0]
            f = {ast.Eq: "NpL.whereEq", ast.NotEq: "NpL.whereNe"}.get(type(c.ops[0]))
            if f is None:
                raise Unavailable(f"`{_show(n)}`: comparison {type(c.ops[0]).__name__} inside np.where")
            return f"({f} {self.lnat(c.left)} {self.nat(c.comparators[0])})"
        raise Unavailable(f"`{_show(n)}` is not an integer-array expression")

    # ---- Option Nat (an element read that may raise IndexError)
    def onat(self, n):
        if isinstance(n, ast.Subscript):
            return f"{self.lnat(n.value)}[{self.nat(n.slice)}]?"
        return f"some {self.nat(n)}"

    def _is_read(self, n):
        if not isinstance(n, ast.Subscript):
            return False
        try:
            self.lnat(n.value)
            return True
        except Unavailable:
            return False

    # ---- shapes (List Nat)
    def is_shape(self, n):
        try:
            self.shape_of(n)
            return True
        except Unavailable:
            return False

    def shape_of(self, n):
        """`X.shape` → the shape term of X"""
        if isinstance(n, ast.Attribute) and n.attr == "shape":
            return self.shape(n.value)
        raise Unavailable(f"`{_show(n)}` is not a shape")

    def shape(self, n):
        """the shape of the array expression `n`"""
        k = self._key(n)
        if k in self.shapes:
            return self.shapes[k]
        if isinstance(n, ast.IfExp):
            return f"(if {self.test(n.test)} then {self.shape(n.body)} else {self.shape(n.orelse)})"
        if isinstance(n, ast.Call) and isinstance(n.func, ast.Attribute) and n.func.attr == "reshape" and not n.keywords:
            base = self.shape(n.func.value)
            args = n.args
            if len(args) == 1 and isinstance(args[0], ast.Tuple):
                args = args[0].elts
            parts, minus = [], 0
            for a in args:
                if isinstance(a, ast.Starred):
                    parts.append(self.shape_of(a.value))
                elif isinstance(a, ast.UnaryOp) and isinstance(a.op, ast.USub) and isinstance(a.operand, ast.Constant) and a.operand.value == 1:
                    minus += 1
                    parts.append(None)
                else:
                    parts.append(f"[{self.nat(a)}]")
            if minus > 1:
                raise Unavailable(f"`{_show(n)}`: more than one -1")
            if minus:
                others = [a for a in args if not (isinstance(a, ast.UnaryOp))]
                if not all(isinstance(a, ast.Constant) and a.value == 1 for a in others):
                    raise Unavailable(f"`{_show(n)}`: -1 next to a dimension that is not the literal 1")
                parts = [p if p is not None else f"[NpL.numel {base}]" for p in parts]
            return "(" + " ++ ".join(parts) + ")"
        if isinstance(n, ast.Call) and _name(n.func) == "np.array" and len(n.args) == 1 and not n.keywords \
                and isinstance(n.args[0], ast.List) and len(n.args[0].elts) == 1:
            return f"(1 :: {self.shape(n.args[0].elts[0])})"
        raise Unavailable(f"`{_show(n)}`: shape not in the shape language")

    # ---- scalars
    def scal(self, n):
        k = self._key(n)
        if k in self.scals:
            return self.scals[k]
        if isinstance(n, ast.Constant):
            return _lit(n.value)
        if isinstance(n, ast.UnaryOp) and isinstance(n.op, ast.USub):
            return f"(Sc.neg {self.scal(n.operand)})"
        if isinstance(n, ast.BinOp):
            op = {ast.Add: "Sc.add", ast.Sub: "Sc.sub", ast.Mult: "Sc.mul", ast.Div: "Sc.div"}.get(type(n.op))
            if op is None:
                raise Unavailable(f"operator {type(n.op).__name__} in `{_show(n)}`")
            return f"({op} {self.scal(n.left)} {self.scal(n.right)})"
        raise Unavailable(f"`{_show(n)}` is outside the scalar expression language")

    # ---- Bool
    def test(self, n):
        k = self._key(n)
        if k in self.bools:
            return self.bools[k]
        if isinstance(n, ast.BoolOp):
            op = "&&" if isinstance(n.op, ast.And) else "||"
            out = self.test(n.values[0])
            for v in n.values[1:]:
                out = f"({out} {op} {self.test(v)})"
            return out
        if isinstance(n, ast.UnaryOp) and isinstance(n.op, (ast.Not, ast.Invert)):
            return f"(!{self.test(n.operand)})"
        if isinstance(n, ast.Constant) and isinstance(n.value, bool):
            return "true" if n.value else "false"
        if not (isinstance(n, ast.Compare) and len(n.ops) == 1):
            raise Unavailable(f"test `{_show(n)}` is not a comparison")
        l, r, op = n.left, n.comparators[0], type(n.ops[0])
        # counts / indices
        try:
            a, b = self.nat(l), self.nat(r)
            rel = {ast.Lt: "<", ast.LtE: "≤", ast.Gt: ">", ast.GtE: "≥", ast.Eq: "=", ast.NotEq: "≠"}.get(op)
            if rel is None:
                raise Unavailable(f"comparison {op.__name__} in `{_show(n)}`")
            return f"decide ({a} {rel} {b})"
        except Unavailable:
            pass
        # an element read against a value
        if (self._is_read(l) or self._is_read(r)) and op in (ast.Eq, ast.NotEq):
            rel = "==" if op is ast.Eq else "!="
            return f"({self.onat(l)} {rel} {self.onat(r)})"
        # a shape against a tuple of counts
        if op in (ast.Eq, ast.NotEq) and (isinstance(r, ast.Tuple) or isinstance(l, ast.Tuple)):
            def side(x):
                if isinstance(x, ast.Tuple):
                    return "[" + ", ".join(self.nat(e) for e in x.elts) + "]"
                return self.shape_of(x)
            rel = "==" if op is ast.Eq else "!="
            return f"({side(l)} {rel} {side(r)})"
        a, b = self.scal(l), self.scal(r)
        if op is ast.Eq:
            return f"(Sc.le {a} {b} && Sc.le {b} {a})"
        if op is ast.NotEq:
            return f"(!(Sc.le {a} {b} && Sc.le {b} {a}))"
        f = {ast.Lt: "Sc.lt", ast.LtE: "Sc.le", ast.Gt: "Sc.gt", ast.GtE: "Sc.ge"}.get(op)
        if f is None:
            raise Unavailable(f"comparison {op.__name__} in `{_show(n)}`")
        return f"({f} {a} {b})"


# ------------------------------------------------------------------------------------------------- locating classes
def _class(tree, name):
    for node in tree.body:
        if isinstance(node, ast.ClassDef) and node.name == name:
            return node
    raise Unavailable(f"class {name} not found")


def _module_names(tree):
    out = set()
    for node in tree.body:
        if isinstance(node, (ast.Import, ast.ImportFrom)):
            out |= {(al.asname or al.name).split(".")[0] for al in node.names}
        elif isinstance(node, (ast.FunctionDef, ast.ClassDef)):
            out.add(node.name)
        elif isinstance(node, (ast.Assign, ast.AnnAssign)):
            for t in (node.targets if isinstance(node, ast.Assign) else [node.target]):
                out |= {x.id for x in ast.walk(t) if isinstance(x, ast.Name)}
    return out


def _methods(cls, exclude=()):
    """(inlinable helpers, properties)"""
    helpers, props = {}, {}
    for f in cls.body:
        if not isinstance(f, ast.FunctionDef) or f.name in exclude:
            continue
        decos = [_name(d) for d in f.decorator_list]
        if decos == ["property"]:
            props[f.name] = f
        elif decos == []:
            helpers[f.name] = (f, "method")
        elif decos == ["classmethod"]:
            helpers[f.name] = (f, "classmethod")
        elif decos == ["staticmethod"]:
            helpers[f.name] = (f, "staticmethod")
    return helpers, props


def _method(cls, name, n_params, what):
    fs = [f for f in cls.body if isinstance(f, ast.FunctionDef) and f.name == name]
    if len(fs) != 1:
        raise Unavailable(f"{cls.name}.{name} not found")
    a = fs[0].args
    if a.vararg or a.kwarg or a.posonlyargs or a.kwonlyargs or len(a.args) != n_params:
        raise Unavailable(f"{cls.name}.{name}: signature is not {what}")
    return fs[0]


def _module_funcs(tree):
    return {f.name: f for f in tree.body if isinstance(f, ast.FunctionDef)}


def _bind_ctor(call, init, what):
    """the arguments of a constructor call bound to `__init__`'s parameter names (defaults filled in)"""
    names = [x.arg for x in init.args.args][1:]
    dfl = dict(zip(names[len(names) - len(init.args.defaults):], init.args.defaults)) if init.args.defaults else {}
    out = {}
    if len(call.args) > len(names):
        raise Unavailable(f"{what}: too many positional arguments")
    for nm, v in zip(names, call.args):
        out[nm] = v
    for k in call.keywords:
        if k.arg not in names or k.arg in out:
            raise Unavailable(f"{what}: keyword {k.arg!r}")
        out[k.arg] = k.value
    for nm in names:
        if nm not in out:
            if nm not in dfl:
                raise Unavailable(f"{what}: parameter {nm!r} not supplied")
            out[nm] = copy.deepcopy(dfl[nm])
    return [out[nm] for nm in names]


def _strip_array(n):
    while isinstance(n, ast.Call) and _name(n.func) in ("np.array", "np.asarray") and len(n.args) == 1 and not n.keywords:
        n = n.args[0]
    return n


def _split_ifexp_is_none(ret, what_dump, where):
    """ret = `A if X is None else B` (or the `is not None` form) → (A, B)"""
    if not (isinstance(ret, ast.IfExp) and isinstance(ret.test, ast.Compare) and len(ret.test.ops) == 1
            and isinstance(ret.test.comparators[0], ast.Constant) and ret.test.comparators[0].value is None
            and _dump(ret.test.left) == what_dump and isinstance(ret.test.ops[0], (ast.Is, ast.IsNot))):
        raise Unavailable(f"{where}: the result is not split on `self.labels is None`")
    return (ret.body, ret.orelse) if isinstance(ret.test.ops[0], ast.Is) else (ret.orelse, ret.body)


# ------------------------------------------------------------------------------------------------- modes.py: mode_index
def extract_mode_index(defs, tabs):
    tree = _parse("tempest/modes.py")
    cls = _class(tree, "ModeStatistics")
    fn = _method(cls, "mode_index", 3, "(self, assignments, u)")
    helpers, props = _methods(cls, exclude=("mode_index", "__init__", "from_particles", "from_global"))
    ev = Sym(helpers, _module_funcs(tree), _module_names(tree))
    env = {fn.args.args[1].arg: _atom("assignments"), fn.args.args[2].arg: _atom("u")}
    st, ret = ev.block(fn.body, env, (), toplevel=True)
    if st != "ret":
        raise Unavailable("mode_index does not end in a `return`")
    labels_d = D("self.labels")
    none_val, some_val = _split_ifexp_is_none(ret, labels_d, "mode_index")
    for v, w in ((none_val, "labels-None"), (some_val, "labelled")):
        if not (isinstance(v, ast.Tuple) and len(v.elts) == 2):
            raise Unavailable(f"mode_index: the {w} branch does not return a pair")
    base = dict(lists={labels_d: "stored"}, nats={AT + "assignments": "a", D("self.K"): "K", AT + "i": "i"})
    c = LC(**base)
    defs.append(_defn("miNoLabels", [(["a"], "Nat")], "Nat × Option Nat",
                      f"({c.nat(none_val.elts[0])}, {c.onat(none_val.elts[1])})",
                      "if self.labels is None: return " + _show(none_val)))
    idx, lab = some_val.elts
    # the index: X | setitem(X, M, V) | (setitem(X, M, V) if np.any(M) else X)
    if isinstance(idx, ast.IfExp):
        t, a, b = idx.test, idx.body, idx.orelse
        if not (_is_marker(a, "setitem") and _dump(a.args[0]) == _dump(b)):
            raise Unavailable(f"mode_index: conditional index `{_show(idx)[:120]}` is not a masked store over the unconditional value")
        if not (isinstance(t, ast.Call) and _name(t.func) == "np.any" and len(t.args) == 1 and not t.keywords
                and _dump(t.args[0]) == _dump(a.args[1])):
            raise Unavailable(f"mode_index: the masked store is guarded by `{_show(t)[:120]}`, not by np.any(<its mask>)")
        idx_core = a
    else:
        idx_core = idx
    if _is_marker(idx_core, "setitem"):
        x0, mask, val = idx_core.args
    else:
        x0, mask, val = idx_core, None, None
    defs.append(_defn("miIndex0", [(["stored"], "List Nat"), (["K", "a"], "Nat")], "Nat", c.nat(x0), "index = " + _show(x0)))
    if mask is not None:
        m1 = _replace(mask, _dump(x0), _atom("i"))
        defs.append(_defn("miMissing", [(["stored"], "List Nat"), (["i", "a"], "Nat")], "Bool", c.test(m1),
                          "missing = " + _show(m1) + "   (i = index)"))
        if not (isinstance(val, ast.Call) and _name(val.func) == "np.argmin" and len(val.args) == 1
                and [(k.arg, _show(k.value)) for k in val.keywords] == [("axis", "1")]):
            raise Unavailable(f"mode_index: the stored value `{_show(val)[:120]}` is not np.argmin(<distances>, axis=1)")
        dist = val.args[0]
        defs.append(_defn("miNearest", [(["drow"], "List α")], "Option Nat", "NpL.argmin drow",
                          "index[missing] = np.argmin(dist, axis=1)   (drow = the particle's row of dist)"))
        defs.append(_defn("miIndex", [(["stored"], "List Nat"), (["K", "nearest", "a"], "Nat")], "Nat",
                          "let i := miIndex0 stored K a\n  if miMissing stored i a then nearest else i",
                          "the index after the masked store (nearest = the particle's entry of the stored value)"))
        # the distance row
        if not (isinstance(dist, ast.Call) and _name(dist.func) == "np.linalg.norm" and len(dist.args) == 1
                and [(k.arg, _show(k.value)) for k in dist.keywords] == [("axis", "2")] and isinstance(dist.args[0], ast.BinOp)):
            raise Unavailable(f"mode_index: distances `{_show(dist)[:120]}` are not np.linalg.norm(<difference>, axis=2)")
        diff = dist.args[0]

        def bcast(x):
            """('row', array, mask) for A[mask][:, np.newaxis, :], ('mode', array) for B[np.newaxis, :, :]"""
            if not (isinstance(x, ast.Subscript) and isinstance(x.slice, ast.Tuple) and len(x.slice.elts) == 3):
                raise Unavailable(f"mode_index: operand `{_show(x)[:100]}` of the difference is not broadcast with np.newaxis")
            kinds = ["new" if _name(e) in ("np.newaxis",) or (isinstance(e, ast.Constant) and e.value is None)
                     else "all" if (isinstance(e, ast.Slice) and e.lower is None and e.upper is None and e.step is None) else "?"
                     for e in x.slice.elts]
            if kinds == ["all", "new", "all"]:
                if not isinstance(x.value, ast.Subscript):
                    raise Unavailable(f"mode_index: the particle rows `{_show(x.value)[:100]}` are not selected by a mask")
                return ("row", x.value.value, x.value.slice)
            if kinds == ["new", "all", "all"]:
                return ("mode", x.value, None)
            raise Unavailable(f"mode_index: broadcast pattern of `{_show(x)[:100]}`")
        L, R = bcast(diff.left), bcast(diff.right)
        if {L[0], R[0]} != {"row", "mode"}:
            raise Unavailable("mode_index: the difference is not (particle rows) − (mode means) or the reverse")
        rowop, modeop = (L, R) if L[0] == "row" else (R, L)
        if not _is_atom(rowop[1], "u") or _dump(modeop[1]) != D("self.means"):
            raise Unavailable(f"mode_index: the distances are between `{_show(rowop[1])[:60]}` and `{_show(modeop[1])[:60]}`")
        pos = {id(diff.left): "x", id(diff.right): "y"}
        sc = LC(scals={_dump(diff.left): "x" if L[0] == "row" else "y", _dump(diff.right): "x" if R[0] == "row" else "y"})
        kernel = sc.scal(diff)
        defs.append(_defn("miDistRow", [(["means"], "List (List α)"), (["u"], "List α")], "List α",
                          f"means.map fun m => NpL.norm (List.zipWith (fun x y => {kernel}) u m)",
                          "dist = " + _show(dist)[:150]))
        tabs["miRowMask"] = [_show(rowop[2])]
        tabs["miStoreMask"] = [_show(mask)]
    else:
        defs.append(_defn("miIndex", [(["stored"], "List Nat"), (["K", "nearest", "a"], "Nat")], "Nat", "miIndex0 stored K a",
                          "no masked store: the index is used as computed"))
    if _dump(some_val.elts[0]) != _dump(idx):
        raise Unavailable("mode_index: internal error")
    lab1 = _replace(lab, _dump(idx), _atom("i"))
    defs.append(_defn("miLabel", [(["stored"], "List Nat"), (["i"], "Nat")], "Option Nat", c.onat(lab1),
                      "second component returned: " + _show(lab1) + "   (i = the index returned)"))
    defs.append(_defn("miResult", [(["stored"], "List Nat"), (["K", "nearest", "a"], "Nat")], "Nat × Option Nat",
                      "let i := miIndex stored K nearest a\n  (i, miLabel stored i)", "return index, …"))
    if "K" not in props:
        raise Unavailable("ModeStatistics.K is not a property")
    kb = [s for s in props["K"].body if not _is_doc(s)]
    if not (len(kb) == 1 and isinstance(kb[0], ast.Return) and kb[0].value is not None):
        raise Unavailable("ModeStatistics.K: body is not a single return")
    tabs["kDef"] = [_show(kb[0].value)]
    return len(defs)


# ------------------------------------------------------------------------------------------------- modes.py: from_particles
def extract_from_particles(defs, tabs):
    tree = _parse("tempest/modes.py")
    cls = _class(tree, "ModeStatistics")
    fn = _method(cls, "from_particles", 6, "(cls, u, weights, labels, dof_fallback, resample_factor)")
    init = _method(cls, "__init__", 5, "(self, means, covariances, degrees_of_freedom, labels)")
    helpers, _props = _methods(cls, exclude=("mode_index", "__init__", "from_particles"))
    info = {}

    def loop(ev, st, env):
        if "iter" in info:
            raise Unavailable("from_particles: more than one top-level `for` loop")
        if st.orelse or not isinstance(st.target, ast.Name):
            raise Unavailable(f"line {st.lineno}: loop header `for {ast.unparse(st.target)} in …` / for-else")
        it = ev.sub(st.iter, env, ())
        info["iter"] = it
        lenv = dict(env)
        lenv[st.target.id] = _atom("label")
        before = {k: _dump(v) for k, v in env.items()}
        n_rows = len(ev.rows)
        stt, _ = ev.block(st.body, lenv, ("LOOP",))
        if stt != "fall":
            raise Unavailable("from_particles: `return` / `raise` inside the loop")
        info["loop_rows"] = ev.rows[n_rows:]
        for k, v in lenv.items():
            if k == st.target.id or (k in before and before[k] == _dump(v)):
                continue
            if _is_marker(v, "append") and k in before and _dump(v.args[0]) == before[k] \
                    and isinstance(v.args[0], ast.List) and not v.args[0].elts:
                env[k] = _call("forlist", copy.deepcopy(it), v.args[1])
            else:
                env[k] = _atom("after_loop")

    ev = Sym(helpers, _module_funcs(tree), _module_names(tree), loop_handler=loop)
    ev.allow_listcomp = ev.norm_len = True
    ev.guard_names["LOOP"] = ("LOOP", "for label in …")
    names = [x.arg for x in fn.args.args]
    env = {names[1]: _atom("u"), names[2]: _atom("weights"), names[3]: _atom("labels"),
           names[4]: _atom("dof_fallback"), names[5]: _atom("resample_factor")}
    ev.known.add(names[0])
    cls_name = names[0]
    st, ret = ev.block(fn.body, env, (), toplevel=True)
    if st != "ret":
        raise Unavailable("from_particles does not end in a `return`")
    if "iter" not in info:
        raise Unavailable("from_particles: no top-level `for` loop")
    if not (_is_atom(ret) and ret.id.startswith(AT + "r")):
        raise Unavailable(f"from_particles returns `{_show(ret)[:100]}`, not a constructor call")
    ctor = ev.events[int(ret.id[len(AT) + 1:])]
    if _name(ctor.func) not in (cls_name, "ModeStatistics"):
        raise Unavailable(f"from_particles returns a call of `{_name(ctor.func)}`")
    means, covs, dofs, stored = _bind_ctor(ctor, init, "constructor call of from_particles")
    c = LC(lists={AT + "labels": "labels"}, nats={AT + "label": "label"})
    defs.append(_defn("fpLoopLabels", [(["labels"], "List Nat")], "List Nat", c.lnat(info["iter"]), "for label in " + _show(info["iter"])))
    overs = []
    for nm, arg in (("fpMeansOver", means), ("fpCovsOver", covs), ("fpDofsOver", dofs)):
        a = _strip_array(arg)
        if not _is_marker(a, "forlist"):
            raise Unavailable(f"from_particles: constructor argument `{_show(arg)[:100]}` is not a list filled once per pass of the loop")
        overs.append(a)
        defs.append(_defn(nm, [(["labels"], "List Nat")], "List Nat", c.lnat(a.args[0]),
                          "the constructor argument has one entry per element of " + _show(a.args[0])))
    if isinstance(stored, ast.Constant) and stored.value is None:
        defs.append(_defn("fpStored", [(["labels"], "List Nat")], "Option (List Nat)", "none", "labels=None"))
    else:
        defs.append(_defn("fpStored", [(["labels"], "List Nat")], "Option (List Nat)", f"some {c.lnat(_strip_array(stored))}",
                          "labels=" + _show(stored)))

    # the rows the fit of one pass is fed: follow the appended mean through the events of the loop
    def closure(n, seen):
        out = [n]
        for x in ast.walk(n):
            if _is_atom(x) and re.fullmatch(r"r\d+", x.id[len(AT):]) and x.id not in seen:
                seen.add(x.id)
                out += closure(ev.events[int(x.id[len(AT) + 1:])], seen)
        return out
    nodes = closure(overs[0].args[1], set())
    wheres = {}
    for top in nodes:
        for x in ast.walk(top):
            if isinstance(x, ast.Subscript) and isinstance(x.value, ast.Call) and _name(x.value.func) == "np.where":
                wheres[_dump(x)] = x
    if len(wheres) != 1:
        raise Unavailable(f"from_particles: the fit of one pass depends on {len(wheres)} distinct np.where(…)[…] index sets")
    members = list(wheres.values())[0]
    defs.append(_defn("fpMembers", [(["labels"], "List Nat"), (["label"], "Nat")], "List Nat", c.lnat(members),
                      "idx_cluster = " + _show(members)))
    defs.append(_defn("fpModes", [(["labels"], "List Nat")], "List (List Nat)",
                      "(fpMeansOver labels).map fun label => fpMembers labels label",
                      "one mode per pass; a mode is identified with the index set its fit is fed from"))
    md = _dump(members)
    flow = []
    for g, t in info["loop_rows"]:
        flow.append(t)
    mem_txt = _show(members)
    tabs["fpFitFlow"] = [t.replace(mem_txt, "MEMBERS") for t in flow] + \
                        ["append: " + _show(o.args[1]).replace(mem_txt, "MEMBERS") for o in overs]
    return len(defs)


# ------------------------------------------------------------------------------------------------- modes.py: __init__
def extract_init(defs, tabs):
    tree = _parse("tempest/modes.py")
    cls = _class(tree, "ModeStatistics")
    init = _method(cls, "__init__", 5, "(self, means, covariances, degrees_of_freedom, labels)")
    helpers, _props = _methods(cls, exclude=("mode_index", "__init__", "from_particles", "from_global"))
    ev = Sym(helpers, _module_funcs(tree), _module_names(tree))
    names = [x.arg for x in init.args.args]
    env = {names[1]: _atom("means"), names[2]: _atom("covariances"), names[3]: _atom("degrees_of_freedom"), names[4]: _atom("labels")}
    st, _ret = ev.block(init.body, env, (), toplevel=True)
    if st == "raise":
        raise Unavailable("__init__ always raises")
    c = LC(shapes={AT + "means": "sm", AT + "covariances": "sc", AT + "degrees_of_freedom": "sd"})
    for attr, nm, p in (("self.means", "initMeansShape", "sm"), ("self.covariances", "initCovShape", "sc"),
                        ("self.degrees_of_freedom", "initDofShape", "sd")):
        if attr not in env:
            raise Unavailable(f"__init__ does not set {attr}")
        defs.append(_defn(nm, [([p], "List Nat")], "List Nat", c.shape(env[attr]), f"shape of {attr} when the shapes are compared"))
        c.shapes[_dump(env[attr])] = f"({nm} {p})"
    # the conditions under which the constructor goes on: tuple unpackings and `if …: raise`
    conj = []
    raising = [(g, t) for g, t in ev.rows if t.startswith("raise ")]
    bytest = {nm: test for (nm, _txt), test in zip(ev.guard_names.values(), ev.guard_tests)}
    items = []
    for g, expr, n in ev.unpacks:
        if any(x not in ev.path for x in g):
            raise Unavailable("__init__: tuple unpacking under a condition that is not an `if …: raise` gate")
        items.append((len([x for x in ev.path if x in g]), 0, f"decide (({c.shape_of(expr)}).length = {n})", f"{n} names = {_show(expr)}"))
    for k, p in enumerate(ev.path):
        t = c.test(bytest[p.lstrip("!")])
        items.append((k, 1, t if not p.startswith("!") else f"(!{t})", ("" if not p.startswith("!") else "not ") + ev.guard_names[_dump(bytest[p.lstrip('!')])][1]))
    items.sort(key=lambda x: (x[0], x[1]))
    if not items:
        raise Unavailable("__init__: no shape gate found")
    body = items[0][2]
    for it in items[1:]:
        body = f"({body} && {it[2]})"
    defs.append(_defn("initGate", [(["sm", "sc", "sd"], "List Nat")], "Bool", body,
                      "no ValueError: " + "; ".join(i[3] for i in items)))
    tabs["initEffects"] = ev.effect_rows()
    return len(defs)


# ------------------------------------------------------------------------------------------------- train.py: Trainer.run
def _arr2(c, n, what):
    """a small array literal of the dummy object as a Lean term"""
    f = _name(n.func) if isinstance(n, ast.Call) else None
    if f == "np.zeros" and len(n.args) == 1 and not n.keywords and isinstance(n.args[0], ast.Tuple) and len(n.args[0].elts) == 2:
        return f"NpL.zeros2 {c.nat(n.args[0].elts[0])} {c.nat(n.args[0].elts[1])}", "List (List α)"
    if isinstance(n, ast.Call) and isinstance(n.func, ast.Attribute) and n.func.attr == "reshape" and not n.keywords \
            and len(n.args) == 3 and isinstance(n.args[0], ast.Constant) and n.args[0].value == 1:
        b = n.func.value
        if isinstance(b, ast.Call) and _name(b.func) == "np.eye" and len(b.args) == 1 and not b.keywords \
                and _dump(n.args[1]) == _dump(b.args[0]) and _dump(n.args[2]) == _dump(b.args[0]):
            return f"[NpL.eye {c.nat(b.args[0])}]", "List (List (List α))"
    if f == "np.array" and len(n.args) == 1 and not n.keywords and isinstance(n.args[0], ast.List):
        return "[" + ", ".join(c.scal(e) for e in n.args[0].elts) + "]", "List α"
    raise Unavailable(f"Trainer.run: {what} `{_show(n)[:100]}` of the beta == 0 object is outside the array-literal language")


def _emit_traces(prefix, ev, c, sig, sig_args, defs, tabs, keep=None):
    """atoms (compiled, uniform signature), the decision tree over them, the distinct traces"""
    atoms, distinct, tree = ev.traces(keep)
    tabs[prefix + "Atoms"] = [_show(a) for a in atoms]
    for k, a in enumerate(atoms):
        defs.append(_defn(f"{prefix}Atom{k}", sig, "Bool", c.test(a), f"atomic condition x{k}: " + _show(a)))
    xs = [f"x{k}" for k in range(len(atoms))]
    defs.append(_defn(prefix + "TraceId", [(xs, "Bool")] if xs else [], "Nat", tree,
                      "which trace runs, as a reduced decision tree over the atomic conditions (in the order of " + prefix + "Atoms)"))
    args = " ".join(f"({prefix}Atom{k} {sig_args})" for k in range(len(atoms)))
    defs.append(_defn(prefix + "TraceOf", sig, "Nat", f"{prefix}TraceId {args}".strip(), "the trace as a function of the inputs"))
    for k, t in enumerate(distinct):
        tabs[f"{prefix}Trace{k}"] = t
        tabs[f"{prefix}Clusterer{k}"] = [m.group(1) for row in t for m in re.finditer(r"\bself\.clusterer\.(\w+)\(", row)]
    tabs[prefix + "TraceCount"] = [str(len(distinct))]
    return atoms, distinct


def extract_trainer(defs, tabs):
    tree = _parse("tempest/steps/train.py")
    cls = _class(tree, "Trainer")
    run = _method(cls, "run", 2, "(self, weights)")
    helpers, _props = _methods(cls, exclude=("run", "__init__"))
    ev = Sym(helpers, _module_funcs(tree), _module_names(tree))
    env = {run.args.args[1].arg: _atom("weights")}
    st, _ret = ev.block(run.body, env, (), toplevel=True)
    if st != "ret":
        raise Unavailable("Trainer.run does not end in a `return`")
    beta_d, iter_d = D("self.state.get_current('beta')"), D("self.state.get_current('iter')")
    c = LC(scals={beta_d: "beta"}, nats={iter_d: "iter", D("self.cluster_every"): "ce", D("self.state.n_dim"): "d"},
           bools={D("self.clustering"): "clustering", D("self._clusterer_fitted"): "fitted"})
    sig = [(["beta"], "α"), (["clustering"], "Bool"), (["iter", "ce"], "Nat"), (["fitted"], "Bool")]
    _emit_traces("tr", ev, c, sig, "beta clustering iter ce fitted", defs, tabs)
    # the beta == 0 object: the only constructor call made directly in Trainer.run
    dummies = [call for call in ev.events if _name(call.func) == "ModeStatistics"]
    if len(dummies) != 1:
        raise Unavailable(f"Trainer.run: {len(dummies)} direct ModeStatistics(...) constructor calls")
    mtree = _parse("tempest/modes.py")
    init = _method(_class(mtree, "ModeStatistics"), "__init__", 5, "(self, means, covariances, degrees_of_freedom, labels)")
    means, covs, dofs, stored = _bind_ctor(dummies[0], init, "the beta == 0 constructor call")
    cd = LC(nats={D("self.state.n_dim"): "d"}, scals={D("self.DOF_FALLBACK"): "fb"})
    for nm, arg, params, what in (("trDummyMeans", means, [(["d"], "Nat")], "means"), ("trDummyCovs", covs, [(["d"], "Nat")], "covariances"),
                                  ("trDummyDofs", dofs, [(["fb"], "α")], "degrees_of_freedom")):
        term, ty = _arr2(cd, arg, what)
        defs.append(_defn(nm, params, ty, term, f"{what}=" + _show(arg)))
    if isinstance(stored, ast.Constant) and stored.value is None:
        defs.append(_defn("trDummyLabels", [], "Option (List Nat)", "none", "labels=None (the default)"))
    else:
        raise Unavailable(f"Trainer.run: the beta == 0 object is given labels `{_show(stored)[:80]}`")
    return len(defs)


# ------------------------------------------------------------------------------------------------- resample.py: Resampler.run
def extract_resampler(defs, tabs):
    tree = _parse("tempest/steps/resample.py")
    cls = _class(tree, "Resampler")
    run = _method(cls, "run", 2, "(self, weights)")
    helpers, _props = _methods(cls, exclude=("run", "__init__"))
    ev = Sym(helpers, _module_funcs(tree), _module_names(tree))
    env = {run.args.args[1].arg: _atom("weights")}
    ev.block(run.body, env, (), toplevel=True)
    beta_d = D("self.state.get_current('beta')")
    c = LC(scals={beta_d: "beta"}, bools={D("self.clustering"): "clustering", D("self.have_blobs"): "haveBlobs",
                                          D("self.resample == 'mult'"): "mult", D("self.resample == 'syst'"): "syst"})
    sig = [(["beta"], "α"), (["clustering", "mult", "syst"], "Bool")]
    keys = ("'assignments'", "clusterer", "current['u']")
    _emit_traces("rs", ev, c, sig, "beta clustering mult syst", defs, tabs,
                 keep=lambda t: any(k2 in t for k2 in keys) or t.startswith(("return", "raise")))
    return len(defs)


SECTIONS = [("modes.py:mode_index", "G20-mode_index", extract_mode_index),
            ("modes.py:from_particles", "G20-from_particles", extract_from_particles),
            ("modes.py:__init__", "G20-init-gate", extract_init),
            ("train.py:Trainer.run", "G20-trainer-run", extract_trainer),
            ("resample.py:Resampler.run", "G20-resampler-run", extract_resampler)]


# ------------------------------------------------------------------------------------------------- rendering
_IDENT = re.compile(r"^[A-Za-z][A-Za-z0-9_]*$")


def _lean_str_list(xs):
    if not xs:
        return "[]"
    return "[" + ",\n   ".join(_lean_str(" ".join(str(x).split())) for x in xs) + "]"


def render_section(defs, tabs):
    for k in tabs:
        if not _IDENT.match(k):
            raise Unavailable(f"table name {k!r} is not an identifier")
    L = []
    for d in defs:
        if common.FORBIDDEN.search(re.sub(r"/--.*?-/", "", d, flags=re.S)):
            raise Unavailable("a generated term contains a word the source gate forbids")
        L += [d, ""]
    for k, v in tabs.items():
        L += [f"def {k} : List String :=\n  {_lean_str_list(v)}", ""]
    return "\n".join(L)


def translate_section(fn):
    """('ok', Lean text of the section, detail) or ('unavailable', None, reason) — never raises on any source text"""
    try:
        defs, tabs = [], {}
        with warnings.catch_warnings():
            warnings.simplefilter("ignore")
            n = fn(defs, tabs)
        text = render_section(defs, tabs)
    except Unavailable as e:
        return ("unavailable", None, str(e))
    except (SyntaxError, OSError, RecursionError, UnicodeError) as e:
        return ("unavailable", None, f"{type(e).__name__}: {e}")
    except (AttributeError, IndexError, KeyError, TypeError, ValueError) as e:   # an AST shape the readers did not expect
        import traceback
        tb = traceback.extract_tb(e.__traceback__)[-1]
        return ("unavailable", None, f"source shape not understood ({type(e).__name__}: {e} at g20_modes.py:{tb.lineno})")
    return ("ok", text, f"{n} terms, {len(tabs)} tables, {sum(len(v) for v in tabs.values())} rows")


HEADER = ["/- GENERATED by translate/g20_modes.py from /repo's current source — do not edit. -/",
          "import TempestVerif.Model.NpModes", "set_option linter.unusedVariables false", "namespace Gen.ModesSrc",
          "variable {α : Type} [ScT α]", ""]


def _old_sections(path):
    try:
        with open(path) as fh:
            txt = fh.read()
    except OSError:
        return {}
    out = {}
    for key, _nm, _fn in SECTIONS:
        m = re.search(r"^-- BEGIN " + re.escape(key) + r"\n(.*?)^-- END " + re.escape(key) + r"$", txt, re.S | re.M)
        if m:
            out[key] = m.group(1)
    return out


def translate_all(old=None):
    old = old or {}
    res, parts, complete = [], [], True
    for key, name, fn in SECTIONS:
        status, text, detail = translate_section(fn)
        res.append((name, status, detail))
        if status != "ok":
            text = old.get(key)
        if text is None:
            complete = False
        else:
            parts += [f"-- BEGIN {key}", text.rstrip("\n") + "\n", f"-- END {key}", ""]
    if not complete:
        return res, None
    return res, "\n".join(HEADER + parts + ["end Gen.ModesSrc", ""])


def generate_all():
    path = os.path.join(common.GEN, "ModesSrc.lean")
    res, text = translate_all(_old_sections(path))
    if text is None:
        return [(nm, "unavailable" if st == "ok" else st,
                 d if st != "ok" else "not written: another section is unavailable and has no previous text") for nm, st, d in res]
    changed = common.write_if_changed(path, text)
    return [(nm, st, (f"{'re' if changed else ''}generated Gen/ModesSrc.lean section ({d})" if st == "ok" else d)) for nm, st, d in res]


def generate():
    res = generate_all()
    bad = [r for r in res if r[1] != "ok"]
    if bad:
        return (NAME, bad[0][1], "; ".join(f"{r[0]}: {r[2]}" for r in bad))
    return (NAME, "ok", "; ".join(r[2] for r in res))


if __name__ == "__main__":
    if "--print" in sys.argv:
        print(translate_all(_old_sections(os.path.join(common.GEN, "ModesSrc.lean")))[1])
    else:
        for r in generate_all():
            print(r)
