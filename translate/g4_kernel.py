"""G4 — scalar expressions of the two mutation kernels, regenerated from /repo's current source.

Reads  tempest/mcmc.py  (Python `ast` only, nothing is imported or executed) and emits
lean/TempestVerif/Gen/Kernel.lean with `ScT`-polymorphic Lean definitions of

  TPCNRunner._propose                     gammaShape d nu, gammaScale nu dot, sFromGamma g,
                                          tpcnMuCoef / tpcnDiffCoef / tpcnNoiseScale  (the three terms of the proposal)
  TPCNRunner._compute_acceptance_factor   tpcnLogFactor d nu dot dotp          ( -A + B )
  BaseMCMCRunner.run                      acceptProb beta l lp factor, alphaOutOfBounds alpha (`alpha[~in_bounds] = 0.0`),
                                          acceptDecision r alpha, stepOrder (statement order incl. the bounds check)
  RWMRunner._propose / _compute_…         rwmUCoef, rwmNoiseScale, rwmLogFactor
  *_adapt_sigma                           tpcnAdapt / rwmAdapt sigma iter acc sigma0
  statement shape of the `_propose`s      tpcnProposeShape / rwmProposeShape  (single draw + fold + return; the old
                                          redraw-until-inside loop is still recognised and emitted as such)

How: a tiny symbolic evaluator over a closed vocabulary.  Leaves are recognised by their exact source
text (`self.degrees_of_freedom[self.assignments[k]]` is `nu`, ...), local names go through an environment
(so renaming a local is harmless), scalar arithmetic is translated operator by operator, and exactly two
numpy idioms are mapped to an opaque scalar argument — the quadratic form
        d @ M @ d        and        np.einsum("ij,ijk,ik->i", d, M, d)          (M = inverse covariance)
which becomes `dot` (d = u - mu) or `dotp` (d = u' - mu).  The proposal must be a linear combination of the
vectors mu, (u - mu) resp. u, and  chol @ randn(n_dim); its scalar coefficients are what is emitted.

The translator never guesses: any construct outside this vocabulary raises `Unavailable` and `generate()`
returns status "unavailable" with the reason (DESIGN §3.1: the dynamic twin then carries the tie alone).
"""
import ast
import os

from harness import common

OUT = os.path.join(common.GEN, "Kernel.lean")
SRC = os.path.join("tempest", "mcmc.py")


class Unavailable(Exception):
    pass


# ----------------------------------------------------------------------------- symbolic values
class S:
    """scalar: a Lean term over named scalar parameters"""

    def __init__(self, lean, fv=()):
        self.lean = lean
        self.fv = frozenset(fv)


class V:
    """one of the known vectors: u, mu, uprime, diffu (= u - mu), diffp (= uprime - mu), z (= randn(n_dim)), Lz (= chol @ z)"""

    def __init__(self, name):
        self.name = name


class M:
    """matrix: invcov | chol, optionally scaled by a scalar"""

    def __init__(self, name, scale=None):
        self.name = name
        self.scale = scale


class Lin:
    """linear combination of known vectors: list of (S coefficient, vector name)"""

    def __init__(self, terms):
        self.terms = terms


class Draw:
    """marker values: the uniform draw, boundary calls, ..."""

    def __init__(self, kind):
        self.kind = kind


ONE = S("(Sc.ofNat 1)")

# per-mode arrays of the runners (selected by the walker's assignment)
PERMODE = {
    "self.means": lambda: V("mu"),
    "self.degrees_of_freedom": lambda: S("nu", {"nu"}),
    "self.sigmas": lambda: S("sigma", {"sigma"}),
    "self.chol_covs": lambda: M("chol"),
    "self.inv_covs": lambda: M("invcov"),
}
IDX_LOG = []


def _bin(op, a, b):
    return S(f"(Sc.{op} {a.lean} {b.lean})", a.fv | b.fv)


def _un(op, a, cls="Sc"):
    return S(f"({cls}.{op} {a.lean})", a.fv)


def _lit(c):
    """Python numeric literal -> Lean term (exact for Float: same decimal, correctly rounded)"""
    if isinstance(c, bool) or not isinstance(c, (int, float)):
        raise Unavailable(f"literal {c!r} is not a number")
    if isinstance(c, int):
        if c < 0:
            raise Unavailable("negative int literal")
        return S(f"(Sc.ofNat {c})")
    if c != c or c in (float("inf"), float("-inf")) or c < 0:
        raise Unavailable(f"float literal {c!r}")
    if c == int(c) and c < 2 ** 53:
        return S(f"(Sc.ofNat {int(c)})")
    r = repr(c)
    mant, _, ex = r.partition("e")
    ip, _, fp = mant.partition(".")
    digits = (ip + fp).lstrip("0") or "0"
    e10 = len(fp) - (int(ex) if ex else 0)
    if e10 < 0:
        digits += "0" * (-e10)
        e10 = 0
    return S(f"(Sc.lit {int(digits)} {e10})")


def _src(node):
    return ast.unparse(node)


def _dotted(node):
    if isinstance(node, ast.Name):
        return node.id
    if isinstance(node, ast.Attribute):
        b = _dotted(node.value)
        return None if b is None else b + "." + node.attr
    return None


# ----------------------------------------------------------------------------- expression evaluator
class Ev:
    def __init__(self, leaves, where):
        self.leaves = leaves      # source text -> value
        self.env = {}             # local name -> value
        self.where = where
        self.gamma_args = None    # (shape S, scale S) of np.random.gamma
        self.n_gamma = 0
        self.s_of_g = None
        self.n_randn = 0
        self.expect_idx = "walker" if where.endswith("._propose") else (
            "allWalkers" if where.endswith("._compute_acceptance_factor") else None)

    def fail(self, node, why):
        raise Unavailable(f"{self.where} line {getattr(node, 'lineno', '?')}: {why}: `{_src(node)[:80]}`")

    def ev(self, node):
        text = _src(node)
        if self.expect_idx and isinstance(node, ast.Subscript) and _src(node.value) in PERMODE:
            # a per-mode array: record WHICH index expression selects the mode (table `modeIndexTable`); the value is that
            # mode's statistic whatever the index is — a wrong index shows up in the table, not as a silent acceptance
            idx = _src(node.slice)
            found = {"self.assignments[k]": "walker", "self.assignments": "allWalkers"}.get(idx, "other")
            IDX_LOG.append((self.expect_idx, f"{self.where}: {_src(node.value)}[{idx}]", found))
            return PERMODE[_src(node.value)]()
        if text in self.leaves:
            return self.leaves[text]
        if isinstance(node, ast.Name):
            if node.id in self.env:
                return self.env[node.id]
            self.fail(node, "unknown name")
        if isinstance(node, ast.Constant):
            return _lit(node.value)
        if isinstance(node, ast.UnaryOp):
            a = self.ev(node.operand)
            if isinstance(node.op, ast.USub) and isinstance(a, S):
                return _un("neg", a)
            if isinstance(node.op, ast.UAdd) and isinstance(a, S):
                return a
            self.fail(node, "unary operator on a non-scalar")
        if isinstance(node, ast.BinOp):
            return self.binop(node)
        if isinstance(node, ast.Compare):
            if len(node.ops) == 1 and isinstance(node.ops[0], ast.Lt):
                a, b = self.ev(node.left), self.ev(node.comparators[0])
                if isinstance(a, S) and isinstance(b, S):
                    return S(f"(Sc.lt {a.lean} {b.lean})", a.fv | b.fv)
            self.fail(node, "comparison")
        if isinstance(node, ast.Call):
            return self.call(node)
        self.fail(node, "unrecognised expression")

    # ---- arithmetic
    def binop(self, node):
        op = node.op
        if isinstance(op, ast.Pow):
            a = self.ev(node.left)
            e = node.right
            if isinstance(a, S) and isinstance(e, ast.Constant) and isinstance(e.value, (int, float)) and not isinstance(e.value, bool):
                if e.value == 1:
                    return a
                if e.value == 2:
                    return _bin("mul", a, a)
            self.fail(node, "power other than a literal exponent 1 or 2 of a scalar")
        a, b = self.ev(node.left), self.ev(node.right)
        if isinstance(a, S) and isinstance(b, S):
            name = {ast.Add: "add", ast.Sub: "sub", ast.Mult: "mul", ast.Div: "div"}.get(type(op))
            if name is None:
                self.fail(node, "scalar operator")
            return _bin(name, a, b)
        if isinstance(op, ast.Sub) and isinstance(a, V) and isinstance(b, V):
            if (a.name, b.name) == ("u", "mu"):
                return V("diffu")
            if (a.name, b.name) == ("uprime", "mu"):
                return V("diffp")
            self.fail(node, "vector difference other than u - mu / u_prime - mu")
        if isinstance(op, ast.Mult):
            for x, y in ((a, b), (b, a)):
                if isinstance(x, S) and isinstance(y, V):
                    return Lin([(x, y.name)])
                if isinstance(x, S) and isinstance(y, Lin):
                    return Lin([(_bin("mul", x, c) if x is a else _bin("mul", c, x), v) for c, v in y.terms])
                if isinstance(x, S) and isinstance(y, M) and y.name == "chol":
                    sc = x if y.scale is None else (_bin("mul", x, y.scale) if x is a else _bin("mul", y.scale, x))
                    return M("chol", sc)
            self.fail(node, "product")
        if isinstance(op, ast.MatMult):
            if isinstance(a, M) and a.name == "chol" and isinstance(b, V) and b.name == "z":
                return Lin([(a.scale or ONE, "Lz")])
            if isinstance(a, V) and isinstance(b, M) and b.name == "invcov" and b.scale is None and a.name in ("diffu", "diffp"):
                return Draw("halfq:" + a.name)
            if isinstance(a, Draw) and a.kind.startswith("halfq:") and isinstance(b, V) and a.kind == "halfq:" + b.name:
                return self.qform(b.name)
            self.fail(node, "matrix product other than chol @ randn(n_dim) or d @ inv_cov @ d")
        if isinstance(op, (ast.Add, ast.Sub)):
            la, lb = self.lin(a), self.lin(b)
            if la is not None and lb is not None:
                if isinstance(op, ast.Sub):
                    lb = Lin([(_un("neg", c), v) for c, v in lb.terms])
                return Lin(la.terms + lb.terms)
        self.fail(node, "operator on these operands")

    @staticmethod
    def lin(x):
        if isinstance(x, Lin):
            return x
        if isinstance(x, V):
            return Lin([(ONE, x.name)])
        return None

    @staticmethod
    def qform(vname):
        return S("dot", {"dot"}) if vname == "diffu" else S("dotp", {"dotp"})

    # ---- calls
    def call(self, node):
        f = _dotted(node.func)
        args = node.args
        kw = {k.arg: k.value for k in node.keywords}
        if f in ("np.sqrt", "np.log", "np.exp") and len(args) == 1 and not kw:
            a = self.ev(args[0])
            if isinstance(a, S):
                return _un(f[3:], a, "ScT")
            self.fail(node, "transcendental of a non-scalar")
        if f == "np.einsum" and len(args) == 4 and not kw:
            if not (isinstance(args[0], ast.Constant) and args[0].value == "ij,ijk,ik->i"):
                self.fail(node, "einsum signature other than 'ij,ijk,ik->i'")
            a, m, b = self.ev(args[1]), self.ev(args[2]), self.ev(args[3])
            if isinstance(a, V) and isinstance(b, V) and a.name == b.name and a.name in ("diffu", "diffp") \
                    and isinstance(m, M) and m.name == "invcov" and m.scale is None:
                return self.qform(a.name)
            self.fail(node, "einsum is not a quadratic form d' inv_cov d")
        if f == "np.random.gamma":
            if args or set(kw) != {"shape", "scale"}:
                self.fail(node, "np.random.gamma not called as gamma(shape=, scale=)")
            sh, sc = self.ev(kw["shape"]), self.ev(kw["scale"])
            if not (isinstance(sh, S) and isinstance(sc, S)):
                self.fail(node, "gamma arguments are not scalars")
            self.n_gamma += 1
            if self.n_gamma > 1:
                self.fail(node, "more than one gamma draw")
            self.gamma_args = (sh, sc)
            return S("g", {"g"})
        if f == "np.random.randn" and len(args) == 1 and not kw and _src(args[0]) == "self.n_dim":
            self.n_randn += 1
            return V("z")
        if f == "np.random.rand" and len(args) == 1 and not kw and _src(args[0]) == "self.n_walkers":
            return S("r", {"r"})
        if f == "np.zeros" and len(args) == 1 and not kw and _src(args[0]) == "self.n_walkers":
            return S("(Sc.ofNat 0)")
        if f == "np.minimum" and len(args) == 2 and not kw:
            a, b = self.ev(args[0]), self.ev(args[1])
            if isinstance(a, S) and isinstance(b, S):
                return S(f"(npMinimum {a.lean} {b.lean})", a.fv | b.fv)
        if f == "np.nan_to_num" and len(args) == 1 and set(kw) == {"nan"} \
                and isinstance(kw["nan"], ast.Constant) and kw["nan"].value == 0.0:
            a = self.ev(args[0])
            if isinstance(a, S):
                return S(f"(nanToZero {a.lean})", a.fv)
        if f == "min" and len(args) == 2 and not kw:
            a, b = self.ev(args[0]), self.ev(args[1])
            if isinstance(a, S) and isinstance(b, S):
                return S(f"(Sc.min {a.lean} {b.lean})", a.fv | b.fv)
        if f == "max" and len(args) == 2 and not kw:
            a, b = self.ev(args[0]), self.ev(args[1])
            if isinstance(a, S) and isinstance(b, S):
                # Python max(a, b): b if b > a else a
                return S(f"(Sc.max {a.lean} {b.lean})", a.fv | b.fv)
        if f == "np.clip" and len(args) == 3 and not kw:
            x, lo, hi = (self.ev(t) for t in args)
            if all(isinstance(t, S) for t in (x, lo, hi)):
                return S(f"(Sc.min (Sc.max {x.lean} {lo.lean}) {hi.lean})", x.fv | lo.fv | hi.fv)
        self.fail(node, "unrecognised call")


# ----------------------------------------------------------------------------- statement walkers
def _find_method(tree, cls, name):
    for node in tree.body:
        if isinstance(node, ast.ClassDef) and node.name == cls:
            for f in node.body:
                if isinstance(f, ast.FunctionDef) and f.name == name:
                    return f
    raise Unavailable(f"{cls}.{name} not found")


def _body(fn):
    """statements without the docstring"""
    b = fn.body
    if b and isinstance(b[0], ast.Expr) and isinstance(b[0].value, ast.Constant) and isinstance(b[0].value.value, str):
        b = b[1:]
    return b


def _simple_assign(st):
    if isinstance(st, ast.Assign) and len(st.targets) == 1 and isinstance(st.targets[0], ast.Name):
        return st.targets[0].id, st.value
    return None


BC_ARGS = ["self.periodic", "self.reflective"]


def _is_bc_call(c, pname):
    return isinstance(c, ast.Call) and _dotted(c.func) == "apply_boundary_conditions" and not c.keywords \
        and [_src(a) for a in c.args] == [pname] + BC_ARGS


def _propose(fn, leaves, where):
    """returns (Ev, proposal Lin, shape table).  Two statement shapes are recognised:
         single draw  (current code):  [gamma,] draw, fold, ret           — bounds are checked by the caller
         redraw loop  (old code):      [gamma,] loop, draw, fold, checkReturn
       anything else is `Unavailable`."""
    ev = Ev(leaves, where)
    shape = []
    prop = pname = None
    state = "pre"            # pre -> (loop: draw -> bc -> check -> done) | (bc -> ret -> done)
    for st in _body(fn):
        sa = _simple_assign(st)
        if state == "pre" and sa:
            g0, z0 = ev.n_gamma, ev.n_randn
            val = ev.ev(sa[1])
            if ev.n_gamma > g0:
                # the statement that draws the gamma variate defines the scale variable: s = f(g)
                if ev.n_randn > z0 or not (isinstance(val, S) and val.fv == {"g"}):
                    ev.fail(st, "the statement drawing the gamma variate is not a scalar function of that draw alone")
                ev.s_of_g = val
                val = S("s", {"s"})
                shape.append("gamma")
            if ev.n_randn > z0:
                lin = Ev.lin(val)
                if lin is None:
                    ev.fail(st, "proposal is not a linear combination of the known vectors")
                if ev.n_randn != 1:
                    ev.fail(st, f"{ev.n_randn} normal draws per proposal (expected 1)")
                prop, pname = lin, sa[0]
                shape.append("draw")
                state = "bc"
                continue
            ev.env[sa[0]] = val
            continue
        if state == "bc" and sa and sa[0] == pname and _is_bc_call(sa[1], pname):
            shape.append("fold")
            state = "ret"
            continue
        if state == "bc" and isinstance(st, ast.Return) and st.value is not None and _is_bc_call(st.value, pname):
            shape += ["fold", "ret"]
            state = "done"
            continue
        if state == "ret" and isinstance(st, ast.Return) and st.value is not None and _src(st.value) == pname:
            shape.append("ret")
            state = "done"
            continue
        if state == "pre" and isinstance(st, ast.While):
            if not (isinstance(st.test, ast.Constant) and st.test.value is True) or st.orelse:
                ev.fail(st, "loop is not `while True:`")
            shape.append("loop")
            lstate = "draw"
            for s2 in st.body:
                sa2 = _simple_assign(s2)
                if lstate == "draw" and sa2:
                    g0 = ev.n_gamma
                    val = ev.ev(sa2[1])
                    if ev.n_gamma > g0:
                        ev.fail(s2, "gamma draw inside the redraw loop")
                    lin = Ev.lin(val)
                    if lin is None:
                        ev.fail(s2, "proposal is not a linear combination of the known vectors")
                    if ev.n_randn != 1:
                        ev.fail(s2, f"{ev.n_randn} normal draws per proposal (expected 1)")
                    prop, pname = lin, sa2[0]
                    shape.append("draw")
                    lstate = "bc"
                    continue
                if lstate == "bc" and sa2 and sa2[0] == pname and _is_bc_call(sa2[1], pname):
                    shape.append("fold")
                    lstate = "check"
                    continue
                if lstate == "check" and isinstance(s2, ast.If) and not s2.orelse:
                    c = s2.test
                    ok = isinstance(c, ast.Call) and _dotted(c.func) == "check_bounds" and not c.keywords \
                        and [_src(a) for a in c.args] == [pname] + BC_ARGS
                    ok = ok and len(s2.body) == 1 and isinstance(s2.body[0], ast.Return) and s2.body[0].value is not None \
                        and _src(s2.body[0].value) == pname
                    if ok:
                        shape.append("checkReturn")
                        lstate = "done"
                        continue
                ev.fail(s2, "unrecognised statement in the redraw loop")
            if lstate != "done":
                ev.fail(st, "redraw loop incomplete")
            state = "done"
            continue
        ev.fail(st, "unrecognised statement")
    if prop is None or state != "done":
        raise Unavailable(f"{where}: no complete proposal (draw, fold, return) found")
    return ev, prop, shape


def _coeffs(prop, wanted, where):
    """the proposal must contain each wanted vector exactly once and nothing else"""
    out = {}
    for c, v in prop.terms:
        if v not in wanted:
            raise Unavailable(f"{where}: proposal contains an unexpected vector term `{v}`")
        if v in out:
            raise Unavailable(f"{where}: vector `{v}` occurs twice in the proposal")
        out[v] = c
    for v in wanted:
        if v not in out:
            raise Unavailable(f"{where}: proposal lacks the `{v}` term")
    return out


def _need_fv(s, allowed, what):
    extra = sorted(s.fv - set(allowed))
    if extra:
        raise Unavailable(f"{what} depends on unexpected quantities {extra}")
    return s


def _return_scalar(fn, leaves, where):
    """function body = simple assignments then `return <scalar>`"""
    ev = Ev(leaves, where)
    for st in _body(fn):
        sa = _simple_assign(st)
        if sa:
            ev.env[sa[0]] = ev.ev(sa[1])
            continue
        if isinstance(st, ast.Return) and st.value is not None and st is _body(fn)[-1]:
            r = ev.ev(st.value)
            if isinstance(r, S):
                return r
            ev.fail(st, "return value is not a scalar expression")
        ev.fail(st, "unrecognised statement")
    raise Unavailable(f"{where}: no return")


def _adapt(fn, where):
    if [a.arg for a in fn.args.args] != ["self", "c", "mean_accept"]:
        raise Unavailable(f"{where}: signature changed")
    leaves = {"self.iteration": S("iter", {"iter"}), "self.sigmas[c]": S("sigma", {"sigma"}),
              "mean_accept": S("acc", {"acc"}), "self.sigma_0": S("sigma0", {"sigma0"})}
    ev = Ev(leaves, where)
    out = None
    for st in _body(fn):
        sa = _simple_assign(st)
        if sa and out is None:
            ev.env[sa[0]] = ev.ev(sa[1])
            continue
        if isinstance(st, ast.Assign) and len(st.targets) == 1 and _src(st.targets[0]) == "self.sigmas[c]" and out is None:
            out = ev.ev(st.value)
            if not isinstance(out, S):
                ev.fail(st, "new sigma is not a scalar expression")
            continue
        ev.fail(st, "unrecognised statement")
    if out is None:
        raise Unavailable(f"{where}: no assignment to self.sigmas[c]")
    return _need_fv(out, ["sigma", "iter", "acc", "sigma0"], where)


STAGES = ["iter", "propose", "boundsCheck", "keepCurrent", "transform", "evaluate", "factor", "alpha", "zeroOutOfBounds",
          "uniform", "accept", "update", "adapt", "progress", "converge"]


def _run(fn):
    """BaseMCMCRunner.run: statement order of one step + the acceptance expressions"""
    where = "BaseMCMCRunner.run"
    body = _body(fn)
    if not body or not isinstance(body[0], ast.While):
        raise Unavailable(f"{where}: body does not start with the step loop")
    loop = body[0]
    if not (isinstance(loop.test, ast.Constant) and loop.test.value is True) or loop.orelse:
        raise Unavailable(f"{where}: step loop is not `while True:`")
    leaves = {"self.beta": S("beta", {"beta"}), "self.logl": S("l", {"l"}), "logl_prime": S("lp", {"lp"})}
    ev = Ev(leaves, where)
    order = []
    alpha_name = None
    accept = None
    alpha_final = None
    ib_name = None
    oob = None
    for st in loop.body:
        text = _src(st)
        sa = _simple_assign(st)
        if text == "self.iteration += 1":
            order.append("iter")
        elif sa and sa[0] == "u_prime" and _src(sa[1]) == "np.empty_like(self.u)":
            pass   # allocation only
        elif isinstance(st, ast.For) and _src(st.iter) == "range(self.n_walkers)" and len(st.body) == 1 \
                and _src(st.body[0]) == f"u_prime[{_src(st.target)}] = self._propose({_src(st.target)})" and not st.orelse:
            order.append("propose")
        elif sa and ib_name is None and _src(sa[1]) in (
                "np.atleast_1d(check_bounds(u_prime, self.periodic, self.reflective))",
                "check_bounds(u_prime, self.periodic, self.reflective)"):
            ib_name = sa[0]
            order.append("boundsCheck")
        elif ib_name is not None and text == f"u_prime[~{ib_name}] = self.u[~{ib_name}]":
            order.append("keepCurrent")
        elif ib_name is not None and alpha_name is not None and accept is None and isinstance(st, ast.Assign) \
                and len(st.targets) == 1 and _src(st.targets[0]) == f"{alpha_name}[~{ib_name}]" \
                and isinstance(st.value, ast.Constant) and oob is None:
            oob = _lit(st.value.value)
            order.append("zeroOutOfBounds")
        elif sa and sa[0] == "x_prime" and _src(sa[1]) == "np.array([self.prior_transform(u_p) for u_p in u_prime])":
            order.append("transform")
        elif text == "logl_prime, blobs_prime = self._evaluate_likelihood(x_prime)":
            order.append("evaluate")
        elif sa and _src(sa[1]) == "self._compute_acceptance_factor(u_prime, logl_prime)":
            alpha_name = sa[0]
            ev.env[alpha_name] = S("factor", {"factor"})
            order.append("factor")
        elif sa and alpha_name is not None and sa[0] == alpha_name and accept is None:
            ev.env[alpha_name] = ev.ev(sa[1])
            if order[-1] != "alpha":
                order.append("alpha")
        elif sa and _src(sa[1]) == "np.random.rand(self.n_walkers)":
            ev.env[sa[0]] = ev.ev(sa[1])
            order.append("uniform")
        elif sa and sa[0] == "mask_accept" and alpha_name is not None:
            accept = ev.ev(sa[1])
            alpha_final = ev.env[alpha_name]
            order.append("accept")
        elif isinstance(st, ast.Assign) and len(st.targets) == 1 and isinstance(st.targets[0], ast.Subscript) \
                and _src(st.targets[0].slice) == "mask_accept" and isinstance(st.value, ast.Subscript) \
                and _src(st.value.slice) == "mask_accept" \
                and (_src(st.targets[0].value), _src(st.value.value)) in (("self.u", "u_prime"), ("self.x", "x_prime"),
                                                                          ("self.logl", "logl_prime")):
            if order[-1] != "update":
                order.append("update")
        elif isinstance(st, ast.If) and _src(st.test) == "self.blobs is not None" and len(st.body) == 1 and not st.orelse \
                and _src(st.body[0]) == "self.blobs[mask_accept] = blobs_prime[mask_accept]":
            if order[-1] != "update":
                order.append("update")
        elif isinstance(st, ast.For) and _src(st.iter) == "range(self.n_clusters)" and not st.orelse:
            calls = [n for n in ast.walk(st) if isinstance(n, ast.Call) and _dotted(n.func) and _dotted(n.func).startswith("self.")]
            names = [_dotted(n.func) for n in calls]
            if names != ["self._adapt_sigma"]:
                raise Unavailable(f"{where}: cluster loop calls {names}")
            for n in ast.walk(st):
                if isinstance(n, (ast.Assign, ast.AugAssign)):
                    tg = n.targets[0] if isinstance(n, ast.Assign) else n.target
                    if not isinstance(tg, ast.Name):
                        raise Unavailable(f"{where}: cluster loop writes `{_src(tg)}`")
            order.append("adapt")
        elif text == "self._update_progress_bar(alpha)":
            order.append("progress")
        elif sa and sa[0] == "current_acceptance" and _src(sa[1]) == "mask_accept.mean()":
            pass
        elif isinstance(st, ast.If) and _src(st.test) == "self._check_convergence(current_acceptance)" \
                and len(st.body) == 1 and isinstance(st.body[0], ast.Break) and not st.orelse:
            order.append("converge")
        else:
            raise Unavailable(f"{where} line {st.lineno}: unrecognised statement `{text[:80]}`")
    if accept is None or alpha_final is None:
        raise Unavailable(f"{where}: acceptance lines not found")
    for s in order:
        if s not in STAGES:
            raise Unavailable(f"{where}: stage {s}")
    _need_fv(alpha_final, ["beta", "l", "lp", "factor"], "acceptance probability")
    if accept.lean != f"(Sc.lt r {alpha_final.lean})":
        raise Unavailable(f"{where}: accept mask is not `u_rand < alpha`")
    # what alpha becomes for a walker whose proposal failed check_bounds: the assigned literal, or (no such statement) unchanged
    return order, alpha_final, (oob.lean if oob is not None else "alpha")


# ----------------------------------------------------------------------------- emission
PRELUDE = '''import TempestVerif.Sc
/-
  GENERATED by /verif/translate/g4_kernel.py from tempest/mcmc.py — do not edit; overwritten on every check run.
  Scalar expressions of the tpCN and RWM kernels as the code states them now.  `dot` / `dotp` stand for the
  quadratic forms (u-mu)' inv_cov (u-mu) and (u'-mu)' inv_cov (u'-mu).
-/
set_option linter.unusedVariables false
namespace Gen.Kernel
variable {α : Type} [ScT α]

/-- `np.minimum(a, b)` on scalars (NaN-propagating) -/
def npMinimum (a b : α) : α :=
  if Sc.le a a then (if Sc.le b b then (if Sc.lt b a then b else a) else b) else a

/-- `np.nan_to_num(x, nan=0.0)` on finite-or-NaN scalars -/
def nanToZero (x : α) : α := if Sc.le x x then x else Sc.zero

/-- statements of one step of `BaseMCMCRunner.run`, in source order -/
inductive Stage
  | iter | propose | boundsCheck | keepCurrent | transform | evaluate | factor | alpha | zeroOutOfBounds | uniform | accept
  | update | adapt | progress | converge
  deriving DecidableEq, Repr

/-- which index expression selects the mode of a per-mode array: `self.assignments[k]` (walker), `self.assignments`
    (allWalkers, vectorised), anything else -/
inductive ModeIdx
  | walker | allWalkers | other
  deriving DecidableEq, Repr

/-- statements of a `_propose`: [gamma draw,] normal draw, fold (`apply_boundary_conditions`), return — or, in the OLD
    redraw shape, `loop` with draw, fold, `checkReturn` (`if check_bounds(...): return`) inside -/
inductive PStage
  | gamma | loop | draw | fold | checkReturn | ret
  deriving DecidableEq, Repr
'''


def _def(name, params, body, doc):
    ps = " ".join(params)
    sig = f"({ps} : α) " if params else ""
    return f"/-- {doc} -/\ndef {name} {sig}: α :=\n  {body}\n"


def _emit(tree):
    del IDX_LOG[:]
    # ---- tpCN proposal
    tp = _find_method(tree, "TPCNRunner", "_propose")
    if [a.arg for a in tp.args.args] != ["self", "k"]:
        raise Unavailable("TPCNRunner._propose: signature changed")
    leaves_k = {
        "self.n_dim": S("d", {"d"}),
        "self.degrees_of_freedom[self.assignments[k]]": S("nu", {"nu"}),
        "self.sigmas[self.assignments[k]]": S("sigma", {"sigma"}),
        "self.means[self.assignments[k]]": V("mu"),
        "self.u[k]": V("u"),
        "self.chol_covs[self.assignments[k]]": M("chol"),
        "self.inv_covs[self.assignments[k]]": M("invcov"),
    }
    ev, prop, tshape = _propose(tp, leaves_k, "TPCNRunner._propose")
    if ev.gamma_args is None:
        raise Unavailable("TPCNRunner._propose: no gamma draw")
    shape = _need_fv(ev.gamma_args[0], ["d", "nu"], "gamma shape")
    scale = _need_fv(ev.gamma_args[1], ["nu", "dot"], "gamma scale")
    if ev.s_of_g is None:
        raise Unavailable("TPCNRunner._propose: no scalar computed from the gamma draw alone")
    sval = ev.s_of_g
    co = _coeffs(prop, ["mu", "diffu", "Lz"], "TPCNRunner._propose")
    for v in co:
        _need_fv(co[v], ["sigma", "s"], f"tpCN proposal coefficient of {v}")

    # ---- tpCN factor
    tf = _find_method(tree, "TPCNRunner", "_compute_acceptance_factor")
    if [a.arg for a in tf.args.args] != ["self", "u_prime", "logl_prime"]:
        raise Unavailable("TPCNRunner._compute_acceptance_factor: signature changed")
    leaves_all = {
        "self.n_dim": S("d", {"d"}),
        "self.degrees_of_freedom[self.assignments]": S("nu", {"nu"}),
        "self.means[self.assignments]": V("mu"),
        "self.u": V("u"),
        "u_prime": V("uprime"),
        "self.inv_covs[self.assignments]": M("invcov"),
    }
    factor = _need_fv(_return_scalar(tf, leaves_all, "TPCNRunner._compute_acceptance_factor"),
                      ["d", "nu", "dot", "dotp"], "tpCN acceptance factor")

    # ---- RWM
    rp = _find_method(tree, "RWMRunner", "_propose")
    if [a.arg for a in rp.args.args] != ["self", "k"]:
        raise Unavailable("RWMRunner._propose: signature changed")
    rev, rprop, rshape = _propose(rp, leaves_k, "RWMRunner._propose")
    if rev.gamma_args is not None:
        raise Unavailable("RWMRunner._propose draws a gamma variate")
    rco = _coeffs(rprop, ["u", "Lz"], "RWMRunner._propose")
    for v in rco:
        _need_fv(rco[v], ["sigma"], f"RWM proposal coefficient of {v}")
    rf = _find_method(tree, "RWMRunner", "_compute_acceptance_factor")
    rfactor = _need_fv(_return_scalar(rf, leaves_all, "RWMRunner._compute_acceptance_factor"), [], "RWM acceptance factor")

    # ---- adapt
    tad = _adapt(_find_method(tree, "TPCNRunner", "_adapt_sigma"), "TPCNRunner._adapt_sigma")
    rad = _adapt(_find_method(tree, "RWMRunner", "_adapt_sigma"), "RWMRunner._adapt_sigma")

    # ---- run
    order, alpha, oob = _run(_find_method(tree, "BaseMCMCRunner", "run"))

    return dict(gammaShape=shape.lean, gammaScale=scale.lean, sFromGamma=sval.lean, tpcnMuCoef=co["mu"].lean,
                tpcnDiffCoef=co["diffu"].lean, tpcnNoiseScale=co["Lz"].lean, tpcnLogFactor=factor.lean,
                rwmUCoef=rco["u"].lean, rwmNoiseScale=rco["Lz"].lean, rwmLogFactor=rfactor.lean, acceptProb=alpha.lean, alphaOutOfBounds=oob,
                tpcnAdapt=tad.lean, rwmAdapt=rad.lean, modeIndexTable=list(IDX_LOG), stepOrder=order, tpcnProposeShape=tshape, rwmProposeShape=rshape)


# The reviewed expressions of the pinned tree.  Used ONLY when the current source cannot be parsed (status `unavailable`):
# the theorems are then checked about these reference expressions and the dynamic twin alone ties the code to the model
# (DESIGN §3.1); without this a stale Gen file from an earlier run would be what the theorems see.
_LOGT = "(Sc.mul (Sc.mul (Sc.neg (Sc.lit 5 1)) (Sc.add d nu)) (ScT.log (Sc.add (Sc.ofNat 1) (Sc.div {} nu))))"
_RAW = "(Sc.add sigma (Sc.mul (Sc.div (Sc.ofNat 1) (Sc.add iter (Sc.ofNat 1))) (Sc.sub acc (Sc.lit 234 3))))"
REFERENCE = dict(
    gammaShape="(Sc.div (Sc.add d nu) (Sc.ofNat 2))",
    gammaScale="(Sc.div (Sc.ofNat 2) (Sc.add nu dot))",
    sFromGamma="(Sc.div (Sc.ofNat 1) g)",
    tpcnMuCoef="(Sc.ofNat 1)",
    tpcnDiffCoef="(ScT.sqrt (Sc.sub (Sc.ofNat 1) (Sc.mul sigma sigma)))",
    tpcnNoiseScale="(Sc.mul sigma (ScT.sqrt s))",
    tpcnLogFactor=f"(Sc.add (Sc.neg {_LOGT.format('dotp')}) {_LOGT.format('dot')})",
    rwmUCoef="(Sc.ofNat 1)",
    rwmNoiseScale="sigma",
    rwmLogFactor="(Sc.ofNat 0)",
    acceptProb="(nanToZero (npMinimum (Sc.ofNat 1) (ScT.exp (Sc.add (Sc.mul beta (Sc.sub lp l)) factor))))",
    alphaOutOfBounds="(Sc.ofNat 0)",
    tpcnAdapt=f"(Sc.min (Sc.max {_RAW} (Sc.ofNat 0)) (Sc.min sigma0 (Sc.lit 99 2)))",
    rwmAdapt=_RAW,
    modeIndexTable=[
        ("walker", "TPCNRunner._propose: self.means[self.assignments[k]]", "walker"),
        ("walker", "TPCNRunner._propose: self.chol_covs[self.assignments[k]]", "walker"),
        ("walker", "TPCNRunner._propose: self.sigmas[self.assignments[k]]", "walker"),
        ("walker", "TPCNRunner._propose: self.inv_covs[self.assignments[k]]", "walker"),
        ("walker", "TPCNRunner._propose: self.degrees_of_freedom[self.assignments[k]]", "walker"),
        ("walker", "TPCNRunner._propose: self.degrees_of_freedom[self.assignments[k]]", "walker"),
        ("allWalkers", "TPCNRunner._compute_acceptance_factor: self.means[self.assignments]", "allWalkers"),
        ("allWalkers", "TPCNRunner._compute_acceptance_factor: self.inv_covs[self.assignments]", "allWalkers"),
        ("allWalkers", "TPCNRunner._compute_acceptance_factor: self.degrees_of_freedom[self.assignments]", "allWalkers"),
        ("allWalkers", "TPCNRunner._compute_acceptance_factor: self.degrees_of_freedom[self.assignments]", "allWalkers"),
        ("allWalkers", "TPCNRunner._compute_acceptance_factor: self.inv_covs[self.assignments]", "allWalkers"),
        ("allWalkers", "TPCNRunner._compute_acceptance_factor: self.degrees_of_freedom[self.assignments]", "allWalkers"),
        ("allWalkers", "TPCNRunner._compute_acceptance_factor: self.degrees_of_freedom[self.assignments]", "allWalkers"),
        ("walker", "RWMRunner._propose: self.chol_covs[self.assignments[k]]", "walker"),
        ("walker", "RWMRunner._propose: self.sigmas[self.assignments[k]]", "walker"),
    ],
    stepOrder=["iter", "propose", "boundsCheck", "keepCurrent", "transform", "evaluate", "factor", "alpha", "zeroOutOfBounds",
               "uniform", "accept", "update", "adapt", "progress", "converge"],
    tpcnProposeShape=["gamma", "draw", "fold", "ret"],
    rwmProposeShape=["draw", "fold", "ret"],
)


def _render(v, note=""):
    out = [PRELUDE + (f"\n-- {note}\n" if note else "")]
    out.append(_def("gammaShape", ["d", "nu"], v["gammaShape"], "TPCNRunner._propose: `shape=` of the gamma draw"))
    out.append(_def("gammaScale", ["nu", "dot"], v["gammaScale"], "TPCNRunner._propose: `scale=` of the gamma draw"))
    out.append(_def("sFromGamma", ["g"], v["sFromGamma"], "TPCNRunner._propose: the scale variable s as a function of the gamma draw g"))
    out.append(_def("tpcnMuCoef", ["sigma", "s"], v["tpcnMuCoef"], "tpCN proposal: coefficient of mu"))
    out.append(_def("tpcnDiffCoef", ["sigma", "s"], v["tpcnDiffCoef"], "tpCN proposal: coefficient of (u - mu)"))
    out.append(_def("tpcnNoiseScale", ["sigma", "s"], v["tpcnNoiseScale"], "tpCN proposal: scalar multiplying chol @ randn(n_dim)"))
    out.append(_def("tpcnLogFactor", ["d", "nu", "dot", "dotp"], v["tpcnLogFactor"],
                    "TPCNRunner._compute_acceptance_factor (dot: current state, dotp: proposed state)"))
    out.append(_def("rwmUCoef", ["sigma"], v["rwmUCoef"], "RWM proposal: coefficient of u"))
    out.append(_def("rwmNoiseScale", ["sigma"], v["rwmNoiseScale"], "RWM proposal: scalar multiplying chol @ randn(n_dim)"))
    out.append(_def("rwmLogFactor", [], v["rwmLogFactor"], "RWMRunner._compute_acceptance_factor"))
    out.append(_def("acceptProb", ["beta", "l", "lp", "factor"], v["acceptProb"],
                    "BaseMCMCRunner.run: acceptance probability (l: current logL, lp: proposed logL)"))
    out.append(_def("alphaOutOfBounds", ["alpha"], v["alphaOutOfBounds"],
                    "BaseMCMCRunner.run: what alpha becomes for a walker whose proposal failed check_bounds (`alpha[~in_bounds] = ...`)"))
    out.append("/-- BaseMCMCRunner.run: `mask_accept = u_rand < alpha` -/\ndef acceptDecision (r alpha : α) : Bool :=\n  Sc.lt r alpha\n")
    out.append(_def("tpcnAdapt", ["sigma", "iter", "acc", "sigma0"], v["tpcnAdapt"], "TPCNRunner._adapt_sigma: new sigma of the cluster"))
    out.append(_def("rwmAdapt", ["sigma", "iter", "acc", "sigma0"], v["rwmAdapt"], "RWMRunner._adapt_sigma: new sigma of the cluster"))
    out.append("/-- (expected, site, found): the index expression of every per-mode array in `_propose` / `_compute_acceptance_factor` -/\n"
               "def modeIndexTable : List (ModeIdx × String × ModeIdx) :=\n  ["
               + ",\n   ".join(f'(.{e}, "{t}", .{f})' for e, t, f in v["modeIndexTable"]) + "]\n")
    out.append("/-- statement order of one step of `BaseMCMCRunner.run` -/\ndef stepOrder : List Stage :=\n  ["
               + ", ".join("." + s for s in v["stepOrder"]) + "]\n")
    out.append("/-- statement shape of `TPCNRunner._propose` -/\ndef tpcnProposeShape : List PStage :=\n  ["
               + ", ".join("." + s for s in v["tpcnProposeShape"]) + "]\n")
    out.append("/-- statement shape of `RWMRunner._propose` -/\ndef rwmProposeShape : List PStage :=\n  ["
               + ", ".join("." + s for s in v["rwmProposeShape"]) + "]\n")
    out.append(_run_section())      # run loop / constructor / dispatch (C03 second audit; only ADDS definitions)
    out.append("end Gen.Kernel\n")
    return "\n".join(out)


def generate():
    """-> (name, status, detail); status ok | unavailable"""
    path = os.path.join(common.REPO, SRC)
    try:
        with open(path) as fh:
            tree = ast.parse(fh.read(), filename=path)
        text = _render(_emit(tree))
    except (Unavailable, OSError, SyntaxError) as e:
        why = str(e) if isinstance(e, Unavailable) else f"cannot read {path}: {e}"
        common.write_if_changed(OUT, _render(REFERENCE, "FALLBACK: the translator could not parse the current source ("
                                             + why.replace("\n", " ")[:200] + "); reference expressions of the pinned tree"))
        return ("G4-kernel", "unavailable", why)
    changed = common.write_if_changed(OUT, text)
    return ("G4-kernel", "ok", f"{os.path.relpath(OUT, common.VERIF)} {'rewritten' if changed else 'unchanged'}")


# ============================================================================= the run loop around the step (C03, second audit)
# Everything below only ADDS definitions to Gen/Kernel.lean (section `_run_section`, emitted just before `end Gen.Kernel`):
#
#   scalar expressions   sigma0Of ndim                                   BaseMCMCRunner.__init__   (`self.sigma_0 = ...`)
#                        tpcnInitSigma / rwmInitSigma sigma0              the two `_initialize_sigmas` (one entry of the vector)
#                        adaptiveSteps nsteps ndim nmax acc wsigma sigma0 `_calculate_adaptive_steps` (incl. the `int(...)`)
#                        convergedRule iter steps                         `_check_convergence`
#                        retEfficiency / retAcceptance                    the two computed return values of `run`
#                        nCallsStep ncalls nwalkers, iterStep iter        the two counters
#   tables (closed enumerations, so that `decide` works)
#                        writeSites     every statement of mcmc.py that writes (assign / augmented / subscript store / in-place
#                                       call) one of the watched `self.` attributes, with the enclosing function
#                        selfRefs       every reference to `self._adapt_sigma`, `self._evaluate_likelihood`, ... with the function
#                        dispatchRule, wrapperRunner, bindTable, initStores, returnTuple, weightedSigmaPairing, curAccSource
#
# The two site tables are produced by a plain walk over the AST and can not be `unavailable`; each expression group falls back
# to its reference separately (status of this part: `RUN_STATUS`, reported as translator `G4-kernel-run`).

RUN_STATUS = ("G4-kernel-run", "unavailable", "not generated in this process")

W_ATTRS = {"self.assignments": "assignments", "self.sigmas": "sigmas", "self.mode_stats": "modeStats", "self.means": "means",
           "self.inv_covs": "invCovs", "self.chol_covs": "cholCovs", "self.degrees_of_freedom": "dof", "self.beta": "beta",
           "self.periodic": "periodic", "self.reflective": "reflective", "self.n_calls": "nCalls",
           "self.iteration": "iteration", "self.sigma_0": "sigma0", "self.n_steps": "nSteps", "self.n_max": "nMax",
           "self.n_dim": "nDim", "self.n_walkers": "nWalkers", "self.n_clusters": "nClusters"}
W_FUNCS = {"BaseMCMCRunner.__init__": "baseInit", "TPCNRunner.__init__": "tpcnInit", "RWMRunner.__init__": "rwmInit",
           "TPCNRunner._adapt_sigma": "tpcnAdapt", "RWMRunner._adapt_sigma": "rwmAdapt",
           "BaseMCMCRunner._evaluate_likelihood": "evaluate", "BaseMCMCRunner.run": "run",
           "BaseMCMCRunner._check_convergence": "checkConv", "BaseMCMCRunner._calculate_adaptive_steps": "calcAdaptive",
           "BaseMCMCRunner._update_progress_bar": "progress", "parallel_mcmc": "dispatcher",
           "parallel_t_preconditioned_crank_nicolson": "tpcnWrapper", "parallel_random_walk_metropolis": "rwmWrapper"}
W_CALLEES = {"_adapt_sigma": "adaptSigma", "_evaluate_likelihood": "evaluate", "_check_convergence": "checkConvergence",
             "_calculate_adaptive_steps": "calcAdaptive", "_initialize_sigmas": "initSigmas", "_propose": "propose",
             "_compute_acceptance_factor": "factor", "run": "runLoop"}
P_NAMES = {"u": "u", "x": "x", "logl": "logl", "blobs": "blobs", "assignments": "assignments", "beta": "beta",
           "mode_stats": "modeStats", "log_likelihood": "logLikelihood", "prior_transform": "priorTransform",
           "progress_bar": "progressBar", "n_steps": "nSteps", "n_max": "nMax", "periodic": "periodic",
           "reflective": "reflective", "verbose": "verbose", "sample": "sample"}
D_TARGETS = {"parallel_random_walk_metropolis": "rwmWrapper", "parallel_t_preconditioned_crank_nicolson": "tpcnWrapper",
             "TPCNRunner": "tpcnRunner", "RWMRunner": "rwmRunner"}
MUTATORS = {"fill", "sort", "put", "itemset", "resize", "partition", "setfield", "setflags", "byteswap", "clear", "append",
            "extend", "insert", "pop", "remove", "update", "reverse", "__setitem__", "__iadd__", "__imul__", "__isub__"}
NP_INPLACE = {"np.copyto", "np.put", "np.place", "np.putmask", "np.put_along_axis", "np.fill_diagonal", "np.random.shuffle"}

RUN_PRELUDE = '''/-! ## run loop, constructor and dispatch (second audit of C03; ADDED by `_run_section`, nothing above is changed) -/

/-- watched attributes of the runners -/
inductive WAttr
  | assignments | sigmas | modeStats | means | invCovs | cholCovs | dof | beta | periodic | reflective | nCalls | iteration
  | sigma0 | nSteps | nMax | nDim | nWalkers | nClusters
  deriving DecidableEq, Repr

/-- functions of tempest/mcmc.py (closed list; everything else is `other`) -/
inductive WFn
  | baseInit | tpcnInit | rwmInit | tpcnAdapt | rwmAdapt | evaluate | run | checkConv | calcAdaptive | progress | dispatcher
  | tpcnWrapper | rwmWrapper | other
  deriving DecidableEq, Repr

/-- how an attribute is written: `self.a = …`, augmented assignment (also into a subscript), `self.a[…] = …` /
    `self.a.b = …`, anything else (in-place method, `out=`, `del`, loop target, …) -/
inductive WHow
  | assign | aug | store | other
  deriving DecidableEq, Repr

inductive WCallee
  | adaptSigma | evaluate | checkConvergence | calcAdaptive | initSigmas | propose | factor | runLoop
  deriving DecidableEq, Repr

/-- the 15 runner arguments (+ `sample`) -/
inductive Param
  | u | x | logl | blobs | assignments | beta | modeStats | logLikelihood | priorTransform | progressBar | nSteps | nMax
  | periodic | reflective | verbose | sample | other
  deriving DecidableEq, Repr

inductive DCond
  | sampleEqRwm | otherwise | other
  deriving DecidableEq, Repr

inductive DTarget
  | rwmWrapper | tpcnWrapper | tpcnRunner | rwmRunner | other
  deriving DecidableEq, Repr

/-- which step sizes `np.average` pairs with the populations of the non-empty clusters: `self.sigmas[:len(cluster_sizes)]`
    (the FIRST m), or something else -/
inductive WPair
  | firstM | other
  deriving DecidableEq, Repr

/-- what `current_acceptance` is: `mask_accept.mean()`, `alpha.mean()`, something else -/
inductive AccSrc
  | maskMean | alphaMean | other
  deriving DecidableEq, Repr

inductive RetSlot
  | u | x | logl | blobs | efficiency | acceptance | iteration | nCalls | other
  deriving DecidableEq, Repr
'''


class EvRun(Ev):
    """the evaluator plus the three idioms of the run loop: `a >= b`, `int(x)` (of a non-negative value), `np.ones(n_clusters)`"""

    def ev(self, node):
        if isinstance(node, ast.Compare) and len(node.ops) == 1 and isinstance(node.ops[0], ast.GtE):
            a, b = self.ev(node.left), self.ev(node.comparators[0])
            if isinstance(a, S) and isinstance(b, S):
                return S(f"(Sc.le {b.lean} {a.lean})", a.fv | b.fv)
            self.fail(node, "comparison of non-scalars")
        return super().ev(node)

    def call(self, node):
        f = _dotted(node.func)
        if f == "int" and len(node.args) == 1 and not node.keywords:
            a = self.ev(node.args[0])
            if isinstance(a, S):
                return S(f"(Sc.floor {a.lean})", a.fv)
            self.fail(node, "int() of a non-scalar")
        if f == "np.ones" and len(node.args) == 1 and not node.keywords and _src(node.args[0]) == "self.n_clusters":
            return S("(Sc.ofNat 1)")
        return super().call(node)


def _lean_str(s):
    return '"' + s.replace("\\", "\\\\").replace('"', '\\"').replace("\n", " ") + '"'


def _all_funcs(tree):
    """(qualified name, node) of every function / method; module- and class-level statements as pseudo functions"""
    top = []
    for node in tree.body:
        if isinstance(node, (ast.FunctionDef, ast.AsyncFunctionDef)):
            yield node.name, [node]
        elif isinstance(node, ast.ClassDef):
            rest = []
            for f in node.body:
                if isinstance(f, (ast.FunctionDef, ast.AsyncFunctionDef)):
                    yield f"{node.name}.{f.name}", [f]
                else:
                    rest.append(f)
            if rest:
                yield f"{node.name}.<class body>", rest
        else:
            top.append(node)
    if top:
        yield "<module>", top


def _watch_root(node):
    cur = node
    while True:
        d = _dotted(cur)
        if d in W_ATTRS:
            return d
        if isinstance(cur, (ast.Subscript, ast.Attribute, ast.Starred)):
            cur = cur.value
        else:
            return None


def _flat_targets(t):
    if isinstance(t, (ast.Tuple, ast.List)):
        for e in t.elts:
            yield from _flat_targets(e)
    else:
        yield t


def _site_tables(tree):
    writes, refs = [], []
    for qual, nodes in _all_funcs(tree):
        fn = W_FUNCS.get(qual, "other")

        def rec(target, exact_how, inner_how):
            root = _watch_root(target)
            if root is None:
                return
            exact = _dotted(target) in W_ATTRS
            writes.append((W_ATTRS[root], fn, exact_how if exact else inner_how, f"{qual}: {_src(target)[:60]}"))

        for top in nodes:
            for n in ast.walk(top):
                if isinstance(n, ast.Assign):
                    for t in n.targets:
                        for e in _flat_targets(t):
                            rec(e, "assign", "store")
                elif isinstance(n, ast.AnnAssign) and n.value is not None:
                    rec(n.target, "assign", "store")
                elif isinstance(n, ast.AugAssign):
                    rec(n.target, "aug", "aug")
                elif isinstance(n, (ast.For, ast.AsyncFor)):
                    for e in _flat_targets(n.target):
                        rec(e, "other", "other")
                elif isinstance(n, (ast.With, ast.AsyncWith)):
                    for it in n.items:
                        if it.optional_vars is not None:
                            for e in _flat_targets(it.optional_vars):
                                rec(e, "other", "other")
                elif isinstance(n, ast.Delete):
                    for t in n.targets:
                        for e in _flat_targets(t):
                            rec(e, "other", "other")
                elif isinstance(n, ast.NamedExpr):
                    rec(n.target, "other", "other")
                elif isinstance(n, ast.Call):
                    if isinstance(n.func, ast.Attribute) and n.func.attr in MUTATORS and _watch_root(n.func.value):
                        writes.append((W_ATTRS[_watch_root(n.func.value)], fn, "other", f"{qual}: {_src(n.func)[:60]}(...)"))
                    for k in n.keywords:
                        if k.arg == "out" and _watch_root(k.value):
                            writes.append((W_ATTRS[_watch_root(k.value)], fn, "other", f"{qual}: out={_src(k.value)[:50]}"))
                    if _dotted(n.func) in NP_INPLACE and n.args and _watch_root(n.args[0]):
                        writes.append((W_ATTRS[_watch_root(n.args[0])], fn, "other", f"{qual}: {_dotted(n.func)}({_src(n.args[0])[:40]}, ...)"))
                if isinstance(n, ast.Attribute) and n.attr in W_CALLEES and isinstance(n.ctx, ast.Load) \
                        and not (n.attr == "run" and _dotted(n.value) in ("np", "numpy")):
                    refs.append((W_CALLEES[n.attr], fn, f"{qual}: {_src(n)[:60]}"))
    return writes, refs


def _module_func(tree, name):
    for node in tree.body:
        if isinstance(node, ast.FunctionDef) and node.name == name:
            return node
    raise Unavailable(f"function {name} not found")


def _plain_params(fn, where, drop_self=False):
    a = fn.args
    if a.posonlyargs or a.kwonlyargs or a.vararg or a.kwarg:
        raise Unavailable(f"{where}: signature is not a plain parameter list")
    ps = [x.arg for x in a.args]
    if drop_self:
        if not ps or ps[0] != "self":
            raise Unavailable(f"{where}: no self")
        ps = ps[1:]
    return ps


def _bind(call, params, where):
    """Python's binding of a call's positional and keyword arguments to the callee's parameters -> [(param, passed name)]"""
    for a in call.args:
        if isinstance(a, ast.Starred):
            raise Unavailable(f"{where}: starred argument")
    if any(k.arg is None for k in call.keywords):
        raise Unavailable(f"{where}: ** argument")
    if len(call.args) > len(params):
        raise Unavailable(f"{where}: too many positional arguments")
    pairs = []
    for p, a in zip(params, call.args):
        pairs.append((p, a))
    seen = {p for p, _ in pairs}
    for k in call.keywords:
        if k.arg not in params or k.arg in seen:
            raise Unavailable(f"{where}: keyword {k.arg} does not bind")
        seen.add(k.arg)
        pairs.append((k.arg, k.value))
    pairs.sort(key=lambda pa: params.index(pa[0]))
    return [(P_NAMES.get(p, "other"), P_NAMES.get(a.id, "other") if isinstance(a, ast.Name) else "other") for p, a in pairs]


def _return_call(st, where):
    if isinstance(st, ast.Return) and isinstance(st.value, ast.Call) and isinstance(st.value.func, ast.Name):
        return st.value
    raise Unavailable(f"{where}: branch is not `return f(...)`")


def _dispatch(tree):
    """parallel_mcmc: the branch on `sample`, the two wrappers, the constructor bindings"""
    pm = _module_func(tree, "parallel_mcmc")
    body = _body(pm)
    if len(body) != 1 or not isinstance(body[0], ast.If) or len(body[0].body) != 1 or len(body[0].orelse) != 1:
        raise Unavailable("parallel_mcmc: body is not one if/else of returns")
    test = body[0].test
    cond = "other"
    if isinstance(test, ast.Compare) and len(test.ops) == 1 and isinstance(test.ops[0], ast.Eq) \
            and _src(test.left) == "sample" and isinstance(test.comparators[0], ast.Constant) \
            and test.comparators[0].value == "rwm":
        cond = "sampleEqRwm"
    rule, binds = [], []
    for c, st in ((cond, body[0].body[0]), ("otherwise", body[0].orelse[0])):
        call = _return_call(st, "parallel_mcmc")
        tgt = D_TARGETS.get(call.func.id, "other")
        rule.append((c, tgt))
        callee = _module_func(tree, call.func.id)
        binds.append((f"parallel_mcmc -> {call.func.id}", _bind(call, _plain_params(callee, call.func.id), "parallel_mcmc")))
    base = _plain_params(_find_method(tree, "BaseMCMCRunner", "__init__"), "BaseMCMCRunner.__init__", drop_self=True)
    wrappers = []
    for wname in ("parallel_t_preconditioned_crank_nicolson", "parallel_random_walk_metropolis"):
        w = _module_func(tree, wname)
        wb = _body(w)
        if len(wb) != 2:
            raise Unavailable(f"{wname}: body is not `runner = Cls(...); return runner.run()`")
        sa = _simple_assign(wb[0])
        if not sa or not isinstance(sa[1], ast.Call) or not isinstance(sa[1].func, ast.Name):
            raise Unavailable(f"{wname}: first statement is not a constructor call")
        if not (isinstance(wb[1], ast.Return) and wb[1].value is not None and _src(wb[1].value) == f"{sa[0]}.run()"):
            raise Unavailable(f"{wname}: does not return runner.run()")
        cls = sa[1].func.id
        # the subclass constructor must pass everything through to BaseMCMCRunner.__init__
        cdef = [n for n in tree.body if isinstance(n, ast.ClassDef) and n.name == cls]
        if not cdef or [_src(b) for b in cdef[0].bases] != ["BaseMCMCRunner"]:
            raise Unavailable(f"{wname}: class {cls} is not a direct subclass of BaseMCMCRunner")
        ci = _find_method(tree, cls, "__init__")
        a = ci.args
        if [x.arg for x in a.args] != ["self"] or a.vararg is None or a.kwarg is None or a.kwonlyargs or a.posonlyargs \
                or not _body(ci) or _src(_body(ci)[0]) != f"super().__init__(*{a.vararg.arg}, **{a.kwarg.arg})":
            raise Unavailable(f"{cls}.__init__ does not pass (*args, **kwargs) through to the base constructor")
        wrappers.append((D_TARGETS.get(wname, "other"), D_TARGETS.get(cls, "other")))
        binds.append((f"{wname} -> {cls}", _bind(sa[1], base, wname)))
    # what the base constructor stores
    stores = []
    init = _find_method(tree, "BaseMCMCRunner", "__init__")
    for st in _body(init):
        if isinstance(st, ast.Assign) and len(st.targets) == 1 and isinstance(st.targets[0], ast.Attribute) \
                and _src(st.targets[0].value) == "self":
            attr, v = st.targets[0].attr, st.value
            src, copied = None, False
            if isinstance(v, ast.Name):
                src = v.id
            elif isinstance(v, ast.Call) and isinstance(v.func, ast.Attribute) and v.func.attr == "copy" and not v.args \
                    and not v.keywords and isinstance(v.func.value, ast.Name):
                src, copied = v.func.value.id, True
            elif isinstance(v, ast.IfExp) and isinstance(v.orelse, ast.Constant) and v.orelse.value is None \
                    and isinstance(v.body, ast.Call) and _src(v.body).endswith(".copy()") \
                    and isinstance(v.body.func.value, ast.Name) and _src(v.test) == f"{v.body.func.value.id} is not None":
                src, copied = v.body.func.value.id, True
            if src is not None and src in base:
                stores.append((P_NAMES.get(attr, "other"), P_NAMES.get(src, "other"), copied))
    return dict(dispatchRule=rule, wrapperRunner=wrappers, bindTable=binds, initStores=stores)


POPULATION_LOOP = ("for c in range(self.n_clusters):\n    cluster_size = np.sum(self.assignments == c)\n"
                   "    if cluster_size > 0:\n        cluster_sizes.append(cluster_size)")


def _scalars_init(tree):
    init = _find_method(tree, "BaseMCMCRunner", "__init__")
    s0 = None
    for st in _body(init):
        if isinstance(st, ast.Assign) and len(st.targets) == 1 and _src(st.targets[0]) == "self.sigma_0":
            if s0 is not None:
                raise Unavailable("BaseMCMCRunner.__init__: sigma_0 assigned twice")
            s0 = _need_fv(EvRun({"self.n_dim": S("ndim", {"ndim"})}, "BaseMCMCRunner.__init__").ev(st.value), ["ndim"], "sigma_0")
    if s0 is None:
        raise Unavailable("BaseMCMCRunner.__init__: no assignment to self.sigma_0")
    out = {"sigma0Of": s0.lean}
    for cls, key in (("TPCNRunner", "tpcnInitSigma"), ("RWMRunner", "rwmInitSigma")):
        fn = _find_method(tree, cls, "_initialize_sigmas")
        where = f"{cls}._initialize_sigmas"
        if [a.arg for a in fn.args.args] != ["self"]:
            raise Unavailable(f"{where}: signature changed")
        ev = EvRun({"self.sigma_0": S("sigma0", {"sigma0"})}, where)
        b = _body(fn)
        if len(b) != 1 or not isinstance(b[0], ast.Return) or b[0].value is None:
            raise Unavailable(f"{where}: body is not a single return")
        r = ev.ev(b[0].value)
        if not isinstance(r, S):
            raise Unavailable(f"{where}: not a scalar multiple of np.ones(n_clusters)")
        out[key] = _need_fv(r, ["sigma0"], where).lean
    return out


def _scalars_steps(tree):
    fn = _find_method(tree, "BaseMCMCRunner", "_calculate_adaptive_steps")
    where = "BaseMCMCRunner._calculate_adaptive_steps"
    if [a.arg for a in fn.args.args] != ["self", "current_acceptance"]:
        raise Unavailable(f"{where}: signature changed")
    ev = EvRun({"self.n_steps": S("nsteps", {"nsteps"}), "self.n_dim": S("ndim", {"ndim"}), "self.n_max": S("nmax", {"nmax"}),
                "current_acceptance": S("acc", {"acc"}), "self.sigma_0": S("sigma0", {"sigma0"})}, where)
    body = _body(fn)
    if len(body) < 5 or _src(body[0]) != "cluster_sizes = []" or _src(body[1]) != POPULATION_LOOP \
            or _src(body[2]) != "cluster_sizes = np.array(cluster_sizes)":
        raise Unavailable(f"{where}: the population block (sizes of the non-empty clusters) is not in the recognised shape")
    sa = _simple_assign(body[3])
    pairing = None
    if sa and isinstance(sa[1], ast.Call) and _dotted(sa[1].func) == "np.average" and len(sa[1].args) == 1 \
            and [k.arg for k in sa[1].keywords] == ["weights"] and _src(sa[1].keywords[0].value) == "cluster_sizes":
        if _src(sa[1].args[0]) == "self.sigmas[:len(cluster_sizes)]":
            pairing = "firstM"
    if pairing is None:
        raise Unavailable(f"{where}: weighted sigma is not np.average(self.sigmas[:len(cluster_sizes)], weights=cluster_sizes)")
    ev.env[sa[0]] = S("wsigma", {"wsigma"})
    res = None
    for st in body[4:]:
        s2 = _simple_assign(st)
        if s2:
            ev.env[s2[0]] = ev.ev(s2[1])
            continue
        if isinstance(st, ast.Return) and st.value is not None and st is body[-1]:
            res = ev.ev(st.value)
            continue
        ev.fail(st, "unrecognised statement")
    if not isinstance(res, S):
        raise Unavailable(f"{where}: no scalar return value")
    _need_fv(res, ["nsteps", "ndim", "nmax", "acc", "wsigma", "sigma0"], where)
    # _check_convergence
    cf = _find_method(tree, "BaseMCMCRunner", "_check_convergence")
    cw = "BaseMCMCRunner._check_convergence"
    if [a.arg for a in cf.args.args] != ["self", "current_acceptance"]:
        raise Unavailable(f"{cw}: signature changed")
    cb = _body(cf)
    s3 = _simple_assign(cb[0]) if len(cb) == 2 else None
    if not s3 or _src(s3[1]) != "self._calculate_adaptive_steps(current_acceptance)" or not isinstance(cb[1], ast.Return) \
            or cb[1].value is None:
        raise Unavailable(f"{cw}: body is not `n = self._calculate_adaptive_steps(current_acceptance); return <test>`")
    ev2 = EvRun({"self.iteration": S("iter", {"iter"})}, cw)
    ev2.env[s3[0]] = S("steps", {"steps"})
    rule = ev2.ev(cb[1].value)
    if not isinstance(rule, S) or not rule.lean.startswith("(Sc.l"):
        raise Unavailable(f"{cw}: the return value is not a comparison")
    _need_fv(rule, ["iter", "steps"], cw)
    return {"adaptiveSteps": res.lean, "convergedRule": rule.lean, "weightedSigmaPairing": pairing}


RET_SLOTS = {"self.u": "u", "self.x": "x", "self.logl": "logl", "self.blobs": "blobs", "self.iteration": "iteration",
             "self.n_calls": "nCalls"}


def _scalars_return(tree):
    fn = _find_method(tree, "BaseMCMCRunner", "run")
    where = "BaseMCMCRunner.run"
    body = _body(fn)
    if not body or not isinstance(body[0], ast.While):
        raise Unavailable(f"{where}: body does not start with the step loop")
    ev = EvRun({"self.sigmas.mean()": S("meanSigma", {"meanSigma"}), "self.sigma_0": S("sigma0", {"sigma0"}),
                "alpha.mean()": S("meanAlpha", {"meanAlpha"})}, where)
    ret = None
    for st in body[1:]:
        sa = _simple_assign(st)
        if sa:
            ev.env[sa[0]] = ev.ev(sa[1])
            continue
        if isinstance(st, ast.Return) and isinstance(st.value, ast.Tuple) and st is body[-1]:
            ret = st.value
            continue
        ev.fail(st, "unrecognised statement after the loop")
    if ret is None or len(ret.elts) != 8:
        raise Unavailable(f"{where}: does not return a tuple of 8 values")
    slots, exprs = [], {}
    for i, e in enumerate(ret.elts):
        t = _src(e)
        if t in RET_SLOTS:
            slots.append(RET_SLOTS[t])
            continue
        v = ev.ev(e)
        if isinstance(v, S) and i in (4, 5):
            slots.append("efficiency" if i == 4 else "acceptance")
            exprs[i] = _need_fv(v, ["meanSigma", "sigma0", "meanAlpha"], f"return value {i}")
        else:
            slots.append("other")
    if 4 not in exprs or 5 not in exprs:
        raise Unavailable(f"{where}: return values 4 / 5 are not scalar expressions of sigmas.mean(), sigma_0, alpha.mean()")
    # the acceptance the stopping rule sees, and the two counters
    loop = body[0]
    src = "other"
    for st in loop.body:
        if isinstance(st, ast.If) and isinstance(st.test, ast.Call) and _dotted(st.test.func) == "self._check_convergence" \
                and len(st.test.args) == 1 and isinstance(st.test.args[0], ast.Name):
            name = st.test.args[0].id
            vals = [_src(s[1]) for s in map(_simple_assign, loop.body) if s and s[0] == name]
            if vals:
                src = {"mask_accept.mean()": "maskMean", "alpha.mean()": "alphaMean"}.get(vals[-1], "other")
    it = [st for st in loop.body if isinstance(st, ast.AugAssign) and _src(st.target) == "self.iteration"]
    if len(it) != 1 or not isinstance(it[0].op, ast.Add):
        raise Unavailable(f"{where}: not exactly one `self.iteration += …` in the loop")
    istep = EvRun({}, where).ev(it[0].value)
    el = _find_method(tree, "BaseMCMCRunner", "_evaluate_likelihood")
    nc = [n for n in ast.walk(el) if isinstance(n, (ast.AugAssign, ast.Assign))
          and _src(n.target if isinstance(n, ast.AugAssign) else n.targets[0]) == "self.n_calls"]
    if len(nc) != 1 or not isinstance(nc[0], ast.AugAssign) or not isinstance(nc[0].op, ast.Add) or nc[0] not in _body(el):
        raise Unavailable("BaseMCMCRunner._evaluate_likelihood: not exactly one unconditional `self.n_calls += …`")
    cstep = EvRun({"self.n_walkers": S("nwalkers", {"nwalkers"})}, "BaseMCMCRunner._evaluate_likelihood").ev(nc[0].value)
    if not isinstance(istep, S) or not isinstance(cstep, S):
        raise Unavailable("counter increments are not scalars")
    _need_fv(istep, [], "iteration increment")
    _need_fv(cstep, ["nwalkers"], "n_calls increment")
    return {"retEfficiency": exprs[4].lean, "retAcceptance": exprs[5].lean, "returnTuple": slots, "curAccSource": src,
            "iterStep": f"(Sc.add iter {istep.lean})", "nCallsStep": f"(Sc.add ncalls {cstep.lean})"}


_P15 = ["u", "x", "logl", "blobs", "assignments", "beta", "modeStats", "logLikelihood", "priorTransform", "progressBar",
        "nSteps", "nMax", "periodic", "reflective", "verbose"]
_Q = "(Sc.div sigma0 (Sc.max (Sc.lit 1 6) wsigma))"
REFERENCE_RUN = dict(
    sigma0Of="(Sc.div (Sc.lit 238 2) (ScT.sqrt ndim))",
    tpcnInitSigma="(Sc.mul (Sc.ofNat 1) (npMinimum sigma0 (Sc.lit 99 2)))",
    rwmInitSigma="(Sc.mul (Sc.ofNat 1) sigma0)",
    adaptiveSteps="(Sc.floor (Sc.min (Sc.max (Sc.mul nsteps ndim) (Sc.mul (Sc.mul (Sc.mul nsteps ndim) (Sc.div (Sc.lit 234 3) "
                  f"(Sc.max (Sc.lit 1 2) acc))) (Sc.mul {_Q} {_Q}))) (Sc.mul nmax ndim)))",
    convergedRule="(Sc.le steps iter)",
    weightedSigmaPairing="firstM",
    retEfficiency="(Sc.div meanSigma sigma0)",
    retAcceptance="meanAlpha",
    returnTuple=["u", "x", "logl", "blobs", "efficiency", "acceptance", "iteration", "nCalls"],
    curAccSource="maskMean",
    iterStep="(Sc.add iter (Sc.ofNat 1))",
    nCallsStep="(Sc.add ncalls nwalkers)",
    dispatchRule=[("sampleEqRwm", "rwmWrapper"), ("otherwise", "tpcnWrapper")],
    wrapperRunner=[("tpcnWrapper", "tpcnRunner"), ("rwmWrapper", "rwmRunner")],
    bindTable=[("parallel_mcmc -> parallel_random_walk_metropolis", [(p, p) for p in _P15]),
               ("parallel_mcmc -> parallel_t_preconditioned_crank_nicolson", [(p, p) for p in _P15]),
               ("parallel_t_preconditioned_crank_nicolson -> TPCNRunner", [(p, p) for p in _P15]),
               ("parallel_random_walk_metropolis -> RWMRunner", [(p, p) for p in _P15])],
    initStores=[("beta", "beta", False), ("modeStats", "modeStats", False), ("logLikelihood", "logLikelihood", False),
                ("priorTransform", "priorTransform", False), ("progressBar", "progressBar", False), ("nSteps", "nSteps", False),
                ("nMax", "nMax", False), ("periodic", "periodic", False), ("reflective", "reflective", False),
                ("verbose", "verbose", False), ("u", "u", True), ("x", "x", True), ("logl", "logl", True),
                ("blobs", "blobs", True), ("assignments", "assignments", True)],
    writeSites=[("beta", "baseInit", "assign", "BaseMCMCRunner.__init__: self.beta"),
                ("modeStats", "baseInit", "assign", "BaseMCMCRunner.__init__: self.mode_stats"),
                ("nSteps", "baseInit", "assign", "BaseMCMCRunner.__init__: self.n_steps"),
                ("nMax", "baseInit", "assign", "BaseMCMCRunner.__init__: self.n_max"),
                ("periodic", "baseInit", "assign", "BaseMCMCRunner.__init__: self.periodic"),
                ("reflective", "baseInit", "assign", "BaseMCMCRunner.__init__: self.reflective"),
                ("assignments", "baseInit", "assign", "BaseMCMCRunner.__init__: self.assignments"),
                ("nWalkers", "baseInit", "assign", "BaseMCMCRunner.__init__: self.n_walkers"),
                ("nDim", "baseInit", "assign", "BaseMCMCRunner.__init__: self.n_dim"),
                ("nClusters", "baseInit", "assign", "BaseMCMCRunner.__init__: self.n_clusters"),
                ("nCalls", "baseInit", "assign", "BaseMCMCRunner.__init__: self.n_calls"),
                ("sigma0", "baseInit", "assign", "BaseMCMCRunner.__init__: self.sigma_0"),
                ("sigmas", "baseInit", "assign", "BaseMCMCRunner.__init__: self.sigmas"),
                ("iteration", "baseInit", "assign", "BaseMCMCRunner.__init__: self.iteration"),
                ("nCalls", "evaluate", "aug", "BaseMCMCRunner._evaluate_likelihood: self.n_calls"),
                ("iteration", "run", "aug", "BaseMCMCRunner.run: self.iteration"),
                ("means", "tpcnInit", "assign", "TPCNRunner.__init__: self.means"),
                ("dof", "tpcnInit", "assign", "TPCNRunner.__init__: self.degrees_of_freedom"),
                ("invCovs", "tpcnInit", "assign", "TPCNRunner.__init__: self.inv_covs"),
                ("cholCovs", "tpcnInit", "assign", "TPCNRunner.__init__: self.chol_covs"),
                ("sigmas", "tpcnAdapt", "store", "TPCNRunner._adapt_sigma: self.sigmas[c]"),
                ("cholCovs", "rwmInit", "assign", "RWMRunner.__init__: self.chol_covs"),
                ("sigmas", "rwmAdapt", "store", "RWMRunner._adapt_sigma: self.sigmas[c]")],
    selfRefs=[("evaluate", "run", "BaseMCMCRunner.run: self._evaluate_likelihood"),
              ("adaptSigma", "run", "BaseMCMCRunner.run: self._adapt_sigma"),
              ("checkConvergence", "run", "BaseMCMCRunner.run: self._check_convergence"),
              ("calcAdaptive", "checkConv", "BaseMCMCRunner._check_convergence: self._calculate_adaptive_steps"),
              ("initSigmas", "baseInit", "BaseMCMCRunner.__init__: self._initialize_sigmas"),
              ("propose", "run", "BaseMCMCRunner.run: self._propose"),
              ("factor", "run", "BaseMCMCRunner.run: self._compute_acceptance_factor"),
              ("runLoop", "tpcnWrapper", "parallel_t_preconditioned_crank_nicolson: runner.run"),
              ("runLoop", "rwmWrapper", "parallel_random_walk_metropolis: runner.run")],
)


def _render_run(v, notes):
    o = [RUN_PRELUDE]
    for n in notes:
        o.append(f"-- FALLBACK (reference of the pinned tree): {n.replace(chr(10), ' ')[:220]}\n")
    o.append(_def("sigma0Of", ["ndim"], v["sigma0Of"], "BaseMCMCRunner.__init__: `self.sigma_0` as a function of `self.n_dim`"))
    o.append(_def("tpcnInitSigma", ["sigma0"], v["tpcnInitSigma"], "TPCNRunner._initialize_sigmas: one entry of the returned vector"))
    o.append(_def("rwmInitSigma", ["sigma0"], v["rwmInitSigma"], "RWMRunner._initialize_sigmas: one entry of the returned vector"))
    o.append(_def("adaptiveSteps", ["nsteps", "ndim", "nmax", "acc", "wsigma", "sigma0"], v["adaptiveSteps"],
                  "BaseMCMCRunner._calculate_adaptive_steps (wsigma: the weighted average step size; `int` of a value >= 0 = floor)"))
    o.append("/-- BaseMCMCRunner._check_convergence: the stopping test -/\ndef convergedRule (iter steps : α) : Bool :=\n  "
             + v["convergedRule"] + "\n")
    o.append(_def("retEfficiency", ["meanSigma", "sigma0", "meanAlpha"], v["retEfficiency"],
                  "BaseMCMCRunner.run: 5th return value (meanSigma = self.sigmas.mean(), meanAlpha = alpha.mean() after the loop)"))
    o.append(_def("retAcceptance", ["meanSigma", "sigma0", "meanAlpha"], v["retAcceptance"], "BaseMCMCRunner.run: 6th return value"))
    o.append(_def("iterStep", ["iter"], v["iterStep"], "BaseMCMCRunner.run: `self.iteration` after the first statement of the loop body"))
    o.append(_def("nCallsStep", ["ncalls", "nwalkers"], v["nCallsStep"], "BaseMCMCRunner._evaluate_likelihood: `self.n_calls` after the call"))
    o.append(f"/-- which step sizes are averaged in `_calculate_adaptive_steps` -/\ndef weightedSigmaPairing : WPair := .{v['weightedSigmaPairing']}\n")
    o.append(f"/-- what the stopping rule receives as `current_acceptance` -/\ndef curAccSource : AccSrc := .{v['curAccSource']}\n")
    o.append("/-- the tuple returned by `run` -/\ndef returnTuple : List RetSlot :=\n  [" + ", ".join("." + s for s in v["returnTuple"]) + "]\n")
    o.append("/-- `parallel_mcmc`: (condition, callee) of the two branches -/\ndef dispatchRule : List (DCond × DTarget) :=\n  ["
             + ", ".join(f"(.{c}, .{t})" for c, t in v["dispatchRule"]) + "]\n")
    o.append("/-- (wrapper, runner class it constructs and runs) -/\ndef wrapperRunner : List (DTarget × DTarget) :=\n  ["
             + ", ".join(f"(.{c}, .{t})" for c, t in v["wrapperRunner"]) + "]\n")
    o.append("/-- (call site, [(callee parameter, name passed)]) after Python's argument binding -/\n"
             "def bindTable : List (String × List (Param × Param)) :=\n  ["
             + ",\n   ".join(f"({_lean_str(s)}, [" + ", ".join(f"(.{p}, .{a})" for p, a in prs) + "])" for s, prs in v["bindTable"]) + "]\n")
    o.append("/-- `BaseMCMCRunner.__init__`: (attribute, constructor parameter it is stored from, stored as a copy) -/\n"
             "def initStores : List (Param × Param × Bool) :=\n  ["
             + ", ".join(f"(.{a}, .{p}, {'true' if c else 'false'})" for a, p, c in v["initStores"]) + "]\n")
    o.append("/-- every statement of tempest/mcmc.py that writes a watched attribute: (attribute, function, how, site) -/\n"
             "def writeSites : List (WAttr × WFn × WHow × String) :=\n  ["
             + ",\n   ".join(f"(.{a}, .{f}, .{h}, {_lean_str(t)})" for a, f, h, t in v["writeSites"]) + "]\n")
    o.append("/-- every reference to one of the runner's own methods: (method, function containing the reference, site) -/\n"
             "def selfRefs : List (WCallee × WFn × String) :=\n  ["
             + ",\n   ".join(f"(.{c}, .{f}, {_lean_str(t)})" for c, f, t in v["selfRefs"]) + "]\n")
    return "\n".join(o)


def _run_section():
    """text of the added section; never raises (each group falls back to its reference on `Unavailable`)"""
    global RUN_STATUS
    path = os.path.join(common.REPO, SRC)
    v, notes = dict(REFERENCE_RUN), []
    try:
        with open(path) as fh:
            tree = ast.parse(fh.read(), filename=path)
    except (OSError, SyntaxError) as e:
        notes.append(f"cannot read {path}: {e}")
        tree = None
    if tree is not None:
        w, r = _site_tables(tree)
        v["writeSites"], v["selfRefs"] = w, r
        for group in (_scalars_init, _scalars_steps, _scalars_return, _dispatch):
            try:
                v.update(group(tree))
            except Unavailable as e:
                notes.append(str(e))
    RUN_STATUS = ("G4-kernel-run", "unavailable" if notes else "ok", "; ".join(notes) if notes else "run-loop section generated")
    return _render_run(v, notes)


def run_status():
    """status tuple of the run-loop section of the last `generate()` call"""
    return RUN_STATUS


if __name__ == "__main__":
    print(generate())
