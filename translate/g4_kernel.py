"""G4 — scalar expressions of the two mutation kernels, regenerated from /repo's current source.

Reads  tempest/mcmc.py  (Python `ast` only, nothing is imported or executed) and emits
lean/TempestVerif/Gen/Kernel.lean with `ScT`-polymorphic Lean definitions of

  TPCNRunner._propose                     gammaShape d nu, gammaScale nu dot, sFromGamma g,
                                          tpcnMuCoef / tpcnDiffCoef / tpcnNoiseScale  (the three terms of the proposal)
  TPCNRunner._compute_acceptance_factor   tpcnLogFactor d nu dot dotp          ( -A + B )
  BaseMCMCRunner.run                      acceptProb beta l lp factor, alphaOutOfBounds alpha (`alpha[~in_bounds] = 0.0`),
                                          acceptDecision r alpha, stepOrder (statement order incl. the bounds check)
  RWMRunner._propose / _compute_…         rwmUCoef, rwmNoiseScale, rwmLogFactor
  *_adapt_sigma                           tpcnAdapt / rwmAdapt sigma iter acc sigma0
  statement shape of the `_propose`s      tpcnProposeShape / rwmProposeShape  (single draw + fold + return; the old
                                          redraw-until-inside loop is still recognised and emitted as such)

How: a tiny symbolic evaluator over a closed vocabulary.  Leaves are recognised by their exact source
text (`self.degrees_of_freedom[self.assignments[k]]` is `nu`, ...), local names go through an environment
(so renaming a local is harmless), scalar arithmetic is translated operator by operator, and exactly two
numpy idioms are mapped to an opaque scalar argument — the quadratic form
        d @ M @ d        and        np.einsum("ij,ijk,ik->i", d, M, d)          (M = inverse covariance)
which becomes `dot` (d = u - mu) or `dotp` (d = u' - mu).  The proposal must be a linear combination of the
vectors mu, (u - mu) resp. u, and  chol @ randn(n_dim); its scalar coefficients are what is emitted.

The translator never guesses: any construct outside this vocabulary raises `Unavailable` and `generate()`
returns status "unavailable" with the reason (DESIGN §3.1: the dynamic twin then carries the tie alone).
"""
import ast
import os

from harness import common

OUT = os.path.join(common.GEN, "Kernel.lean")
SRC = os.path.join("tempest", "mcmc.py")


class Unavailable(Exception):
    pass


# ----------------------------------------------------------------------------- symbolic values
class S:
    """scalar: a Lean term over named scalar parameters"""

    def __init__(self, lean, fv=()):
        self.lean = lean
        self.fv = frozenset(fv)


class V:
    """one of the known vectors: u, mu, uprime, diffu (= u - mu), diffp (= uprime - mu), z (= randn(n_dim)), Lz (= chol @ z)"""

    def __init__(self, name):
        self.name = name


class M:
    """matrix: invcov | chol, optionally scaled by a scalar"""

    def __init__(self, name, scale=None):
        self.name = name
        self.scale = scale


class Lin:
    """linear combination of known vectors: list of (S coefficient, vector name)"""

    def __init__(self, terms):
        self.terms = terms


class Draw:
    """marker values: the uniform draw, boundary calls, ..."""

    def __init__(self, kind):
        self.kind = kind


ONE = S("(Sc.ofNat 1)")

# per-mode arrays of the runners (selected by the walker's assignment)
PERMODE = {
    "self.means": lambda: V("mu"),
    "self.degrees_of_freedom": lambda: S("nu", {"nu"}),
    "self.sigmas": lambda: S("sigma", {"sigma"}),
    "self.chol_covs": lambda: M("chol"),
    "self.inv_covs": lambda: M("invcov"),
}
IDX_LOG = []


def _bin(op, a, b):
    return S(f"(Sc.{op} {a.lean} {b.lean})", a.fv | b.fv)


def _un(op, a, cls="Sc"):
    return S(f"({cls}.{op} {a.lean})", a.fv)


def _lit(c):
    """Python numeric literal -> Lean term (exact for Float: same decimal, correctly rounded)"""
    if isinstance(c, bool) or not isinstance(c, (int, float)):
        raise Unavailable(f"literal {c!r} is not a number")
    if isinstance(c, int):
        if c < 0:
            raise Unavailable("negative int literal")
        return S(f"(Sc.ofNat {c})")
    if c != c or c in (float("inf"), float("-inf")) or c < 0:
        raise Unavailable(f"float literal {c!r}")
    if c == int(c) and c < 2 ** 53:
        return S(f"(Sc.ofNat {int(c)})")
    r = repr(c)
    mant, _, ex = r.partition("e")
    ip, _, fp = mant.partition(".")
    digits = (ip + fp).lstrip("0") or "0"
    e10 = len(fp) - (int(ex) if ex else 0)
    if e10 < 0:
        digits += "0" * (-e10)
        e10 = 0
    return S(f"(Sc.lit {int(digits)} {e10})")


def _src(node):
    return ast.unparse(node)


def _dotted(node):
    if isinstance(node, ast.Name):
        return node.id
    if isinstance(node, ast.Attribute):
        b = _dotted(node.value)
        return None if b is None else b + "." + node.attr
    return None


# ----------------------------------------------------------------------------- expression evaluator
class Ev:
    def __init__(self, leaves, where):
        self.leaves = leaves      # source text -> value
        self.env = {}             # local name -> value
        self.where = where
        self.gamma_args = None    # (shape S, scale S) of np.random.gamma
        self.n_gamma = 0
        self.s_of_g = None
        self.n_randn = 0
        self.expect_idx = "walker" if where.endswith("._propose") else (
            "allWalkers" if where.endswith("._compute_acceptance_factor") else None)

    def fail(self, node, why):
        raise Unavailable(f"{self.where} line {getattr(node, 'lineno', '?')}: {why}: `{_src(node)[:80]}`")

    def ev(self, node):
        text = _src(node)
        if self.expect_idx and isinstance(node, ast.Subscript) and _src(node.value) in PERMODE:
            # a per-mode array: record WHICH index expression selects the mode (table `modeIndexTable`); the value is that
            # mode's statistic whatever the index is — a wrong index shows up in the table, not as a silent acceptance
            idx = _src(node.slice)
            found = {"self.assignments[k]": "walker", "self.assignments": "allWalkers"}.get(idx, "other")
            IDX_LOG.append((self.expect_idx, f"{self.where}: {_src(node.value)}[{idx}]", found))
            return PERMODE[_src(node.value)]()
        if text in self.leaves:
            return self.leaves[text]
        if isinstance(node, ast.Name):
            if node.id in self.env:
                return self.env[node.id]
            self.fail(node, "unknown name")
        if isinstance(node, ast.Constant):
            return _lit(node.value)
        if isinstance(node, ast.UnaryOp):
            a = self.ev(node.operand)
            if isinstance(node.op, ast.USub) and isinstance(a, S):
                return _un("neg", a)
            if isinstance(node.op, ast.UAdd) and isinstance(a, S):
                return a
            self.fail(node, "unary operator on a non-scalar")
        if isinstance(node, ast.BinOp):
            return self.binop(node)
        if isinstance(node, ast.Compare):
            if len(node.ops) == 1 and isinstance(node.ops[0], ast.Lt):
                a, b = self.ev(node.left), self.ev(node.comparators[0])
                if isinstance(a, S) and isinstance(b, S):
                    return S(f"(Sc.lt {a.lean} {b.lean})", a.fv | b.fv)
            self.fail(node, "comparison")
        if isinstance(node, ast.Call):
            return self.call(node)
        self.fail(node, "unrecognised expression")

    # ---- arithmetic
    def binop(self, node):
        op = node.op
        if isinstance(op, ast.Pow):
            a = self.ev(node.left)
            e = node.right
            if isinstance(a, S) and isinstance(e, ast.Constant) and isinstance(e.value, (int, float)) and not isinstance(e.value, bool):
                if e.value == 1:
                    return a
                if e.value == 2:
                    return _bin("mul", a, a)
            self.fail(node, "power other than a literal exponent 1 or 2 of a scalar")
        a, b = self.ev(node.left), self.ev(node.right)
        if isinstance(a, S) and isinstance(b, S):
            name = {ast.Add: "add", ast.Sub: "sub", ast.Mult: "mul", ast.Div: "div"}.get(type(op))
            if name is None:
                self.fail(node, "scalar operator")
            return _bin(name, a, b)
        if isinstance(op, ast.Sub) and isinstance(a, V) and isinstance(b, V):
            if (a.name, b.name) == ("u", "mu"):
                return V("diffu")
            if (a.name, b.name) == ("uprime", "mu"):
                return V("diffp")
            self.fail(node, "vector difference other than u - mu / u_prime - mu")
        if isinstance(op, ast.Mult):
            for x, y in ((a, b), (b, a)):
                if isinstance(x, S) and isinstance(y, V):
                    return Lin([(x, y.name)])
                if isinstance(x, S) and isinstance(y, Lin):
                    return Lin([(_bin("mul", x, c) if x is a else _bin("mul", c, x), v) for c, v in y.terms])
                if isinstance(x, S) and isinstance(y, M) and y.name == "chol":
                    sc = x if y.scale is None else (_bin("mul", x, y.scale) if x is a else _bin("mul", y.scale, x))
                    return M("chol", sc)
            self.fail(node, "product")
        if isinstance(op, ast.MatMult):
            if isinstance(a, M) and a.name == "chol" and isinstance(b, V) and b.name == "z":
                return Lin([(a.scale or ONE, "Lz")])
            if isinstance(a, V) and isinstance(b, M) and b.name == "invcov" and b.scale is None and a.name in ("diffu", "diffp"):
                return Draw("halfq:" + a.name)
            if isinstance(a, Draw) and a.kind.startswith("halfq:") and isinstance(b, V) and a.kind == "halfq:" + b.name:
                return self.qform(b.name)
            self.fail(node, "matrix product other than chol @ randn(n_dim) or d @ inv_cov @ d")
        if isinstance(op, (ast.Add, ast.Sub)):
            la, lb = self.lin(a), self.lin(b)
            if la is not None and lb is not None:
                if isinstance(op, ast.Sub):
                    lb = Lin([(_un("neg", c), v) for c, v in lb.terms])
                return Lin(la.terms + lb.terms)
        self.fail(node, "operator on these operands")

    @staticmethod
    def lin(x):
        if isinstance(x, Lin):
            return x
        if isinstance(x, V):
            return Lin([(ONE, x.name)])
        return None

    @staticmethod
    def qform(vname):
        return S("dot", {"dot"}) if vname == "diffu" else S("dotp", {"dotp"})

    # ---- calls
    def call(self, node):
        f = _dotted(node.func)
        args = node.args
        kw = {k.arg: k.value for k in node.keywords}
        if f in ("np.sqrt", "np.log", "np.exp") and len(args) == 1 and not kw:
            a = self.ev(args[0])
            if isinstance(a, S):
                return _un(f[3:], a, "ScT")
            self.fail(node, "transcendental of a non-scalar")
        if f == "np.einsum" and len(args) == 4 and not kw:
            if not (isinstance(args[0], ast.Constant) and args[0].value == "ij,ijk,ik->i"):
                self.fail(node, "einsum signature other than 'ij,ijk,ik->i'")
            a, m, b = self.ev(args[1]), self.ev(args[2]), self.ev(args[3])
            if isinstance(a, V) and isinstance(b, V) and a.name == b.name and a.name in ("diffu", "diffp") \
                    and isinstance(m, M) and m.name == "invcov" and m.scale is None:
                return self.qform(a.name)
            self.fail(node, "einsum is not a quadratic form d' inv_cov d")
        if f == "np.random.gamma":
            if args or set(kw) != {"shape", "scale"}:
                self.fail(node, "np.random.gamma not called as gamma(shape=, scale=)")
            sh, sc = self.ev(kw["shape"]), self.ev(kw["scale"])
            if not (isinstance(sh, S) and isinstance(sc, S)):
                self.fail(node, "gamma arguments are not scalars")
            self.n_gamma += 1
            if self.n_gamma > 1:
                self.fail(node, "more than one gamma draw")
            self.gamma_args = (sh, sc)
            return S("g", {"g"})
        if f == "np.random.randn" and len(args) == 1 and not kw and _src(args[0]) == "self.n_dim":
            self.n_randn += 1
            return V("z")
        if f == "np.random.rand" and len(args) == 1 and not kw and _src(args[0]) == "self.n_walkers":
            return S("r", {"r"})
        if f == "np.zeros" and len(args) == 1 and not kw and _src(args[0]) == "self.n_walkers":
            return S("(Sc.ofNat 0)")
        if f == "np.minimum" and len(args) == 2 and not kw:
            a, b = self.ev(args[0]), self.ev(args[1])
            if isinstance(a, S) and isinstance(b, S):
                return S(f"(npMinimum {a.lean} {b.lean})", a.fv | b.fv)
        if f == "np.nan_to_num" and len(args) == 1 and set(kw) == {"nan"} \
                and isinstance(kw["nan"], ast.Constant) and kw["nan"].value == 0.0:
            a = self.ev(args[0])
            if isinstance(a, S):
                return S(f"(nanToZero {a.lean})", a.fv)
        if f == "min" and len(args) == 2 and not kw:
            a, b = self.ev(args[0]), self.ev(args[1])
            if isinstance(a, S) and isinstance(b, S):
                return S(f"(Sc.min {a.lean} {b.lean})", a.fv | b.fv)
        if f == "max" and len(args) == 2 and not kw:
            a, b = self.ev(args[0]), self.ev(args[1])
            if isinstance(a, S) and isinstance(b, S):
                # Python max(a, b): b if b > a else a
                return S(f"(Sc.max {a.lean} {b.lean})", a.fv | b.fv)
        if f == "np.clip" and len(args) == 3 and not kw:
            x, lo, hi = (self.ev(t) for t in args)
            if all(isinstance(t, S) for t in (x, lo, hi)):
                return S(f"(Sc.min (Sc.max {x.lean} {lo.lean}) {hi.lean})", x.fv | lo.fv | hi.fv)
        self.fail(node, "unrecognised call")


# ----------------------------------------------------------------------------- statement walkers
def _find_method(tree, cls, name):
    for node in tree.body:
        if isinstance(node, ast.ClassDef) and node.name == cls:
            for f in node.body:
                if isinstance(f, ast.FunctionDef) and f.name == name:
                    return f
    raise Unavailable(f"{cls}.{name} not found")


def _body(fn):
    """statements without the docstring"""
    b = fn.body
    if b and isinstance(b[0], ast.Expr) and isinstance(b[0].value, ast.Constant) and isinstance(b[0].value.value, str):
        b = b[1:]
    return b


def _simple_assign(st):
    if isinstance(st, ast.Assign) and len(st.targets) == 1 and isinstance(st.targets[0], ast.Name):
        return st.targets[0].id, st.value
    return None


BC_ARGS = ["self.periodic", "self.reflective"]


def _is_bc_call(c, pname):
    return isinstance(c, ast.Call) and _dotted(c.func) == "apply_boundary_conditions" and not c.keywords \
        and [_src(a) for a in c.args] == [pname] + BC_ARGS


def _propose(fn, leaves, where):
    """returns (Ev, proposal Lin, shape table).  Two statement shapes are recognised:
         single draw  (current code):  [gamma,] draw, fold, ret           — bounds are checked by the caller
         redraw loop  (old code):      [gamma,] loop, draw, fold, checkReturn
       anything else is `Unavailable`."""
    ev = Ev(leaves, where)
    shape = []
    prop = pname = None
    state = "pre"            # pre -> (loop: draw -> bc -> check -> done) | (bc -> ret -> done)
    for st in _body(fn):
        sa = _simple_assign(st)
        if state == "pre" and sa:
            g0, z0 = ev.n_gamma, ev.n_randn
            val = ev.ev(sa[1])
            if ev.n_gamma > g0:
                # the statement that draws the gamma variate defines the scale variable: s = f(g)
                if ev.n_randn > z0 or not (isinstance(val, S) and val.fv == {"g"}):
                    ev.fail(st, "the statement drawing the gamma variate is not a scalar function of that draw alone")
                ev.s_of_g = val
                val = S("s", {"s"})
                shape.append("gamma")
            if ev.n_randn > z0:
                lin = Ev.lin(val)
                if lin is None:
                    ev.fail(st, "proposal is not a linear combination of the known vectors")
                if ev.n_randn != 1:
                    ev.fail(st, f"{ev.n_randn} normal draws per proposal (expected 1)")
                prop, pname = lin, sa[0]
                shape.append("draw")
                state = "bc"
                continue
            ev.env[sa[0]] = val
            continue
        if state == "bc" and sa and sa[0] == pname and _is_bc_call(sa[1], pname):
            shape.append("fold")
            state = "ret"
            continue
        if state == "bc" and isinstance(st, ast.Return) and st.value is not None and _is_bc_call(st.value, pname):
            shape += ["fold", "ret"]
            state = "done"
            continue
        if state == "ret" and isinstance(st, ast.Return) and st.value is not None and _src(st.value) == pname:
            shape.append("ret")
            state = "done"
            continue
        if state == "pre" and isinstance(st, ast.While):
            if not (isinstance(st.test, ast.Constant) and st.test.value is True) or st.orelse:
                ev.fail(st, "loop is not `while True:`")
            shape.append("loop")
            lstate = "draw"
            for s2 in st.body:
                sa2 = _simple_assign(s2)
                if lstate == "draw" and sa2:
                    g0 = ev.n_gamma
                    val = ev.ev(sa2[1])
                    if ev.n_gamma > g0:
                        ev.fail(s2, "gamma draw inside the redraw loop")
                    lin = Ev.lin(val)
                    if lin is None:
                        ev.fail(s2, "proposal is not a linear combination of the known vectors")
                    if ev.n_randn != 1:
                        ev.fail(s2, f"{ev.n_randn} normal draws per proposal (expected 1)")
                    prop, pname = lin, sa2[0]
                    shape.append("draw")
                    lstate = "bc"
                    continue
                if lstate == "bc" and sa2 and sa2[0] == pname and _is_bc_call(sa2[1], pname):
                    shape.append("fold")
                    lstate = "check"
                    continue
                if lstate == "check" and isinstance(s2, ast.If) and not s2.orelse:
                    c = s2.test
                    ok = isinstance(c, ast.Call) and _dotted(c.func) == "check_bounds" and not c.keywords \
                        and [_src(a) for a in c.args] == [pname] + BC_ARGS
                    ok = ok and len(s2.body) == 1 and isinstance(s2.body[0], ast.Return) and s2.body[0].value is not None \
                        and _src(s2.body[0].value) == pname
                    if ok:
                        shape.append("checkReturn")
                        lstate = "done"
                        continue
                ev.fail(s2, "unrecognised statement in the redraw loop")
            if lstate != "done":
                ev.fail(st, "redraw loop incomplete")
            state = "done"
            continue
        ev.fail(st, "unrecognised statement")
    if prop is None or state != "done":
        raise Unavailable(f"{where}: no complete proposal (draw, fold, return) found")
    return ev, prop, shape


def _coeffs(prop, wanted, where):
    """the proposal must contain each wanted vector exactly once and nothing else"""
    out = {}
    for c, v in prop.terms:
        if v not in wanted:
            raise Unavailable(f"{where}: proposal contains an unexpected vector term `{v}`")
        if v in out:
            raise Unavailable(f"{where}: vector `{v}` occurs twice in the proposal")
        out[v] = c
    for v in wanted:
        if v not in out:
            raise Unavailable(f"{where}: proposal lacks the `{v}` term")
    return out


def _need_fv(s, allowed, what):
    extra = sorted(s.fv - set(allowed))
    if extra:
        raise Unavailable(f"{what} depends on unexpected quantities {extra}")
    return s


def _return_scalar(fn, leaves, where):
    """function body = simple assignments then `return <scalar>`"""
    ev = Ev(leaves, where)
    for st in _body(fn):
        sa = _simple_assign(st)
        if sa:
            ev.env[sa[0]] = ev.ev(sa[1])
            continue
        if isinstance(st, ast.Return) and st.value is not None and st is _body(fn)[-1]:
            r = ev.ev(st.value)
            if isinstance(r, S):
                return r
            ev.fail(st, "return value is not a scalar expression")
        ev.fail(st, "unrecognised statement")
    raise Unavailable(f"{where}: no return")


def _adapt(fn, where):
    if [a.arg for a in fn.args.args] != ["self", "c", "mean_accept"]:
        raise Unavailable(f"{where}: signature changed")
    leaves = {"self.iteration": S("iter", {"iter"}), "self.sigmas[c]": S("sigma", {"sigma"}),
              "mean_accept": S("acc", {"acc"}), "self.sigma_0": S("sigma0", {"sigma0"})}
    ev = Ev(leaves, where)
    out = None
    for st in _body(fn):
        sa = _simple_assign(st)
        if sa and out is None:
            ev.env[sa[0]] = ev.ev(sa[1])
            continue
        if isinstance(st, ast.Assign) and len(st.targets) == 1 and _src(st.targets[0]) == "self.sigmas[c]" and out is None:
            out = ev.ev(st.value)
            if not isinstance(out, S):
                ev.fail(st, "new sigma is not a scalar expression")
            continue
        ev.fail(st, "unrecognised statement")
    if out is None:
        raise Unavailable(f"{where}: no assignment to self.sigmas[c]")
    return _need_fv(out, ["sigma", "iter", "acc", "sigma0"], where)


STAGES = ["iter", "propose", "boundsCheck", "keepCurrent", "transform", "evaluate", "factor", "alpha", "zeroOutOfBounds",
          "uniform", "accept", "update", "adapt", "progress", "converge"]


def _run(fn):
    """BaseMCMCRunner.run: statement order of one step + the acceptance expressions"""
    where = "BaseMCMCRunner.run"
    body = _body(fn)
    if not body or not isinstance(body[0], ast.While):
        raise Unavailable(f"{where}: body does not start with the step loop")
    loop = body[0]
    if not (isinstance(loop.test, ast.Constant) and loop.test.value is True) or loop.orelse:
        raise Unavailable(f"{where}: step loop is not `while True:`")
    leaves = {"self.beta": S("beta", {"beta"}), "self.logl": S("l", {"l"}), "logl_prime": S("lp", {"lp"})}
    ev = Ev(leaves, where)
    order = []
    alpha_name = None
    accept = None
    alpha_final = None
    ib_name = None
    oob = None
    for st in loop.body:
        text = _src(st)
        sa = _simple_assign(st)
        if text == "self.iteration += 1":
            order.append("iter")
        elif sa and sa[0] == "u_prime" and _src(sa[1]) == "np.empty_like(self.u)":
            pass   # allocation only
        elif isinstance(st, ast.For) and _src(st.iter) == "range(self.n_walkers)" and len(st.body) == 1 \
                and _src(st.body[0]) == f"u_prime[{_src(st.target)}] = self._propose({_src(st.target)})" and not st.orelse:
            order.append("propose")
        elif sa and ib_name is None and _src(sa[1]) in (
                "np.atleast_1d(check_bounds(u_prime, self.periodic, self.reflective))",
                "check_bounds(u_prime, self.periodic, self.reflective)"):
            ib_name = sa[0]
            order.append("boundsCheck")
        elif ib_name is not None and text == f"u_prime[~{ib_name}] = self.u[~{ib_name}]":
            order.append("keepCurrent")
        elif ib_name is not None and alpha_name is not None and accept is None and isinstance(st, ast.Assign) \
                and len(st.targets) == 1 and _src(st.targets[0]) == f"{alpha_name}[~{ib_name}]" \
                and isinstance(st.value, ast.Constant) and oob is None:
            oob = _lit(st.value.value)
            order.append("zeroOutOfBounds")
        elif sa and sa[0] == "x_prime" and _src(sa[1]) == "np.array([self.prior_transform(u_p) for u_p in u_prime])":
            order.append("transform")
        elif text == "logl_prime, blobs_prime = self._evaluate_likelihood(x_prime)":
            order.append("evaluate")
        elif sa and _src(sa[1]) == "self._compute_acceptance_factor(u_prime, logl_prime)":
            alpha_name = sa[0]
            ev.env[alpha_name] = S("factor", {"factor"})
            order.append("factor")
        elif sa and alpha_name is not None and sa[0] == alpha_name and accept is None:
            ev.env[alpha_name] = ev.ev(sa[1])
            if order[-1] != "alpha":
                order.append("alpha")
        elif sa and _src(sa[1]) == "np.random.rand(self.n_walkers)":
            ev.env[sa[0]] = ev.ev(sa[1])
            order.append("uniform")
        elif sa and sa[0] == "mask_accept" and alpha_name is not None:
            accept = ev.ev(sa[1])
            alpha_final = ev.env[alpha_name]
            order.append("accept")
        elif isinstance(st, ast.Assign) and len(st.targets) == 1 and isinstance(st.targets[0], ast.Subscript) \
                and _src(st.targets[0].slice) == "mask_accept" and isinstance(st.value, ast.Subscript) \
                and _src(st.value.slice) == "mask_accept" \
                and (_src(st.targets[0].value), _src(st.value.value)) in (("self.u", "u_prime"), ("self.x", "x_prime"),
                                                                          ("self.logl", "logl_prime")):
            if order[-1] != "update":
                order.append("update")
        elif isinstance(st, ast.If) and _src(st.test) == "self.blobs is not None" and len(st.body) == 1 and not st.orelse \
                and _src(st.body[0]) == "self.blobs[mask_accept] = blobs_prime[mask_accept]":
            if order[-1] != "update":
                order.append("update")
        elif isinstance(st, ast.For) and _src(st.iter) == "range(self.n_clusters)" and not st.orelse:
            calls = [n for n in ast.walk(st) if isinstance(n, ast.Call) and _dotted(n.func) and _dotted(n.func).startswith("self.")]
            names = [_dotted(n.func) for n in calls]
            if names != ["self._adapt_sigma"]:
                raise Unavailable(f"{where}: cluster loop calls {names}")
            for n in ast.walk(st):
                if isinstance(n, (ast.Assign, ast.AugAssign)):
                    tg = n.targets[0] if isinstance(n, ast.Assign) else n.target
                    if not isinstance(tg, ast.Name):
                        raise Unavailable(f"{where}: cluster loop writes `{_src(tg)}`")
            order.append("adapt")
        elif text == "self._update_progress_bar(alpha)":
            order.append("progress")
        elif sa and sa[0] == "current_acceptance" and _src(sa[1]) == "mask_accept.mean()":
            pass
        elif isinstance(st, ast.If) and _src(st.test) == "self._check_convergence(current_acceptance)" \
                and len(st.body) == 1 and isinstance(st.body[0], ast.Break) and not st.orelse:
            order.append("converge")
        else:
            raise Unavailable(f"{where} line {st.lineno}: unrecognised statement `{text[:80]}`")
    if accept is None or alpha_final is None:
        raise Unavailable(f"{where}: acceptance lines not found")
    for s in order:
        if s not in STAGES:
            raise Unavailable(f"{where}: stage {s}")
    _need_fv(alpha_final, ["beta", "l", "lp", "factor"], "acceptance probability")
    if accept.lean != f"(Sc.lt r {alpha_final.lean})":
        raise Unavailable(f"{where}: accept mask is not `u_rand < alpha`")
    # what alpha becomes for a walker whose proposal failed check_bounds: the assigned literal, or (no such statement) unchanged
    return order, alpha_final, (oob.lean if oob is not None else "alpha")


# ----------------------------------------------------------------------------- emission
PRELUDE = '''import TempestVerif.Sc
/-
  GENERATED by /verif/translate/g4_kernel.py from tempest/mcmc.py — do not edit; overwritten on every check run.
  Scalar expressions of the tpCN and RWM kernels as the code states them now.  `dot` / `dotp` stand for the
  quadratic forms (u-mu)' inv_cov (u-mu) and (u'-mu)' inv_cov (u'-mu).
-/
set_option linter.unusedVariables false
namespace Gen.Kernel
variable {α : Type} [ScT α]

/-- `np.minimum(a, b)` on scalars (NaN-propagating) -/
def npMinimum (a b : α) : α :=
  if Sc.le a a then (if Sc.le b b then (if Sc.lt b a then b else a) else b) else a

/-- `np.nan_to_num(x, nan=0.0)` on finite-or-NaN scalars -/
def nanToZero (x : α) : α := if Sc.le x x then x else Sc.zero

/-- statements of one step of `BaseMCMCRunner.run`, in source order -/
inductive Stage
  | iter | propose | boundsCheck | keepCurrent | transform | evaluate | factor | alpha | zeroOutOfBounds | uniform | accept
  | update | adapt | progress | converge
  deriving DecidableEq, Repr

/-- which index expression selects the mode of a per-mode array: `self.assignments[k]` (walker), `self.assignments`
    (allWalkers, vectorised), anything else -/
inductive ModeIdx
  | walker | allWalkers | other
  deriving DecidableEq, Repr

/-- statements of a `_propose`: [gamma draw,] normal draw, fold (`apply_boundary_conditions`), return — or, in the OLD
    redraw shape, `loop` with draw, fold, `checkReturn` (`if check_bounds(...): return`) inside -/
inductive PStage
  | gamma | loop | draw | fold | checkReturn | ret
  deriving DecidableEq, Repr
'''


def _def(name, params, body, doc):
    ps = " ".join(params)
    sig = f"({ps} : α) " if params else ""
    return f"/-- {doc} -/\ndef {name} {sig}: α :=\n  {body}\n"


def _emit(tree):
    del IDX_LOG[:]
    # ---- tpCN proposal
    tp = _find_method(tree, "TPCNRunner", "_propose")
    if [a.arg for a in tp.args.args] != ["self", "k"]:
        raise Unavailable("TPCNRunner._propose: signature changed")
    leaves_k = {
        "self.n_dim": S("d", {"d"}),
        "self.degrees_of_freedom[self.assignments[k]]": S("nu", {"nu"}),
        "self.sigmas[self.assignments[k]]": S("sigma", {"sigma"}),
        "self.means[self.assignments[k]]": V("mu"),
        "self.u[k]": V("u"),
        "self.chol_covs[self.assignments[k]]": M("chol"),
        "self.inv_covs[self.assignments[k]]": M("invcov"),
    }
    ev, prop, tshape = _propose(tp, leaves_k, "TPCNRunner._propose")
    if ev.gamma_args is None:
        raise Unavailable("TPCNRunner._propose: no gamma draw")
    shape = _need_fv(ev.gamma_args[0], ["d", "nu"], "gamma shape")
    scale = _need_fv(ev.gamma_args[1], ["nu", "dot"], "gamma scale")
    if ev.s_of_g is None:
        raise Unavailable("TPCNRunner._propose: no scalar computed from the gamma draw alone")
    sval = ev.s_of_g
    co = _coeffs(prop, ["mu", "diffu", "Lz"], "TPCNRunner._propose")
    for v in co:
        _need_fv(co[v], ["sigma", "s"], f"tpCN proposal coefficient of {v}")

    # ---- tpCN factor
    tf = _find_method(tree, "TPCNRunner", "_compute_acceptance_factor")
    if [a.arg for a in tf.args.args] != ["self", "u_prime", "logl_prime"]:
        raise Unavailable("TPCNRunner._compute_acceptance_factor: signature changed")
    leaves_all = {
        "self.n_dim": S("d", {"d"}),
        "self.degrees_of_freedom[self.assignments]": S("nu", {"nu"}),
        "self.means[self.assignments]": V("mu"),
        "self.u": V("u"),
        "u_prime": V("uprime"),
        "self.inv_covs[self.assignments]": M("invcov"),
    }
    factor = _need_fv(_return_scalar(tf, leaves_all, "TPCNRunner._compute_acceptance_factor"),
                      ["d", "nu", "dot", "dotp"], "tpCN acceptance factor")

    # ---- RWM
    rp = _find_method(tree, "RWMRunner", "_propose")
    if [a.arg for a in rp.args.args] != ["self", "k"]:
        raise Unavailable("RWMRunner._propose: signature changed")
    rev, rprop, rshape = _propose(rp, leaves_k, "RWMRunner._propose")
    if rev.gamma_args is not None:
        raise Unavailable("RWMRunner._propose draws a gamma variate")
    rco = _coeffs(rprop, ["u", "Lz"], "RWMRunner._propose")
    for v in rco:
        _need_fv(rco[v], ["sigma"], f"RWM proposal coefficient of {v}")
    rf = _find_method(tree, "RWMRunner", "_compute_acceptance_factor")
    rfactor = _need_fv(_return_scalar(rf, leaves_all, "RWMRunner._compute_acceptance_factor"), [], "RWM acceptance factor")

    # ---- adapt
    tad = _adapt(_find_method(tree, "TPCNRunner", "_adapt_sigma"), "TPCNRunner._adapt_sigma")
    rad = _adapt(_find_method(tree, "RWMRunner", "_adapt_sigma"), "RWMRunner._adapt_sigma")

    # ---- run
    order, alpha, oob = _run(_find_method(tree, "BaseMCMCRunner", "run"))

    return dict(gammaShape=shape.lean, gammaScale=scale.lean, sFromGamma=sval.lean, tpcnMuCoef=co["mu"].lean,
                tpcnDiffCoef=co["diffu"].lean, tpcnNoiseScale=co["Lz"].lean, tpcnLogFactor=factor.lean,
                rwmUCoef=rco["u"].lean, rwmNoiseScale=rco["Lz"].lean, rwmLogFactor=rfactor.lean, acceptProb=alpha.lean, alphaOutOfBounds=oob,
                tpcnAdapt=tad.lean, rwmAdapt=rad.lean, modeIndexTable=list(IDX_LOG), stepOrder=order, tpcnProposeShape=tshape, rwmProposeShape=rshape)


# The reviewed expressions of the pinned tree.  Used ONLY when the current source cannot be parsed (status `unavailable`):
# the theorems are then checked about these reference expressions and the dynamic twin alone ties the code to the model
# (DESIGN §3.1); without this a stale Gen file from an earlier run would be what the theorems see.
_LOGT = "(Sc.mul (Sc.mul (Sc.neg (Sc.lit 5 1)) (Sc.add d nu)) (ScT.log (Sc.add (Sc.ofNat 1) (Sc.div {} nu))))"
_RAW = "(Sc.add sigma (Sc.mul (Sc.div (Sc.ofNat 1) (Sc.add iter (Sc.ofNat 1))) (Sc.sub acc (Sc.lit 234 3))))"
REFERENCE = dict(
    gammaShape="(Sc.div (Sc.add d nu) (Sc.ofNat 2))",
    gammaScale="(Sc.div (Sc.ofNat 2) (Sc.add nu dot))",
    sFromGamma="(Sc.div (Sc.ofNat 1) g)",
    tpcnMuCoef="(Sc.ofNat 1)",
    tpcnDiffCoef="(ScT.sqrt (Sc.sub (Sc.ofNat 1) (Sc.mul sigma sigma)))",
    tpcnNoiseScale="(Sc.mul sigma (ScT.sqrt s))",
    tpcnLogFactor=f"(Sc.add (Sc.neg {_LOGT.format('dotp')}) {_LOGT.format('dot')})",
    rwmUCoef="(Sc.ofNat 1)",
    rwmNoiseScale="sigma",
    rwmLogFactor="(Sc.ofNat 0)",
    acceptProb="(nanToZero (npMinimum (Sc.ofNat 1) (ScT.exp (Sc.add (Sc.mul beta (Sc.sub lp l)) factor))))",
    alphaOutOfBounds="(Sc.ofNat 0)",
    tpcnAdapt=f"(Sc.min (Sc.max {_RAW} (Sc.ofNat 0)) (Sc.min sigma0 (Sc.lit 99 2)))",
    rwmAdapt=_RAW,
    modeIndexTable=[
        ("walker", "TPCNRunner._propose: self.means[self.assignments[k]]", "walker"),
        ("walker", "TPCNRunner._propose: self.chol_covs[self.assignments[k]]", "walker"),
        ("walker", "TPCNRunner._propose: self.sigmas[self.assignments[k]]", "walker"),
        ("walker", "TPCNRunner._propose: self.inv_covs[self.assignments[k]]", "walker"),
        ("walker", "TPCNRunner._propose: self.degrees_of_freedom[self.assignments[k]]", "walker"),
        ("walker", "TPCNRunner._propose: self.degrees_of_freedom[self.assignments[k]]", "walker"),
        ("allWalkers", "TPCNRunner._compute_acceptance_factor: self.means[self.assignments]", "allWalkers"),
        ("allWalkers", "TPCNRunner._compute_acceptance_factor: self.inv_covs[self.assignments]", "allWalkers"),
        ("allWalkers", "TPCNRunner._compute_acceptance_factor: self.degrees_of_freedom[self.assignments]", "allWalkers"),
        ("allWalkers", "TPCNRunner._compute_acceptance_factor: self.degrees_of_freedom[self.assignments]", "allWalkers"),
        ("allWalkers", "TPCNRunner._compute_acceptance_factor: self.inv_covs[self.assignments]", "allWalkers"),
        ("allWalkers", "TPCNRunner._compute_acceptance_factor: self.degrees_of_freedom[self.assignments]", "allWalkers"),
        ("allWalkers", "TPCNRunner._compute_acceptance_factor: self.degrees_of_freedom[self.assignments]", "allWalkers"),
        ("walker", "RWMRunner._propose: self.chol_covs[self.assignments[k]]", "walker"),
        ("walker", "RWMRunner._propose: self.sigmas[self.assignments[k]]", "walker"),
    ],
    stepOrder=["iter", "propose", "boundsCheck", "keepCurrent", "transform", "evaluate", "factor", "alpha", "zeroOutOfBounds",
               "uniform", "accept", "update", "adapt", "progress", "converge"],
    tpcnProposeShape=["gamma", "draw", "fold", "ret"],
    rwmProposeShape=["draw", "fold", "ret"],
)


def _render(v, note=""):
    out = [PRELUDE + (f"\n-- {note}\n" if note else "")]
    out.append(_def("gammaShape", ["d", "nu"], v["gammaShape"], "TPCNRunner._propose: `shape=` of the gamma draw"))
    out.append(_def("gammaScale", ["nu", "dot"], v["gammaScale"], "TPCNRunner._propose: `scale=` of the gamma draw"))
    out.append(_def("sFromGamma", ["g"], v["sFromGamma"], "TPCNRunner._propose: the scale variable s as a function of the gamma draw g"))
    out.append(_def("tpcnMuCoef", ["sigma", "s"], v["tpcnMuCoef"], "tpCN proposal: coefficient of mu"))
    out.append(_def("tpcnDiffCoef", ["sigma", "s"], v["tpcnDiffCoef"], "tpCN proposal: coefficient of (u - mu)"))
    out.append(_def("tpcnNoiseScale", ["sigma", "s"], v["tpcnNoiseScale"], "tpCN proposal: scalar multiplying chol @ randn(n_dim)"))
    out.append(_def("tpcnLogFactor", ["d", "nu", "dot", "dotp"], v["tpcnLogFactor"],
                    "TPCNRunner._compute_acceptance_factor (dot: current state, dotp: proposed state)"))
    out.append(_def("rwmUCoef", ["sigma"], v["rwmUCoef"], "RWM proposal: coefficient of u"))
    out.append(_def("rwmNoiseScale", ["sigma"], v["rwmNoiseScale"], "RWM proposal: scalar multiplying chol @ randn(n_dim)"))
    out.append(_def("rwmLogFactor", [], v["rwmLogFactor"], "RWMRunner._compute_acceptance_factor"))
    out.append(_def("acceptProb", ["beta", "l", "lp", "factor"], v["acceptProb"],
                    "BaseMCMCRunner.run: acceptance probability (l: current logL, lp: proposed logL)"))
    out.append(_def("alphaOutOfBounds", ["alpha"], v["alphaOutOfBounds"],
                    "BaseMCMCRunner.run: what alpha becomes for a walker whose proposal failed check_bounds (`alpha[~in_bounds] = ...`)"))
    out.append("/-- BaseMCMCRunner.run: `mask_accept = u_rand < alpha` -/\ndef acceptDecision (r alpha : α) : Bool :=\n  Sc.lt r alpha\n")
    out.append(_def("tpcnAdapt", ["sigma", "iter", "acc", "sigma0"], v["tpcnAdapt"], "TPCNRunner._adapt_sigma: new sigma of the cluster"))
    out.append(_def("rwmAdapt", ["sigma", "iter", "acc", "sigma0"], v["rwmAdapt"], "RWMRunner._adapt_sigma: new sigma of the cluster"))
    out.append("/-- (expected, site, found): the index expression of every per-mode array in `_propose` / `_compute_acceptance_factor` -/\n"
               "def modeIndexTable : List (ModeIdx × String × ModeIdx) :=\n  ["
               + ",\n   ".join(f'(.{e}, "{t}", .{f})' for e, t, f in v["modeIndexTable"]) + "]\n")
    out.append("/-- statement order of one step of `BaseMCMCRunner.run` -/\ndef stepOrder : List Stage :=\n  ["
               + ", ".join("." + s for s in v["stepOrder"]) + "]\n")
    out.append("/-- statement shape of `TPCNRunner._propose` -/\ndef tpcnProposeShape : List PStage :=\n  ["
               + ", ".join("." + s for s in v["tpcnProposeShape"]) + "]\n")
    out.append("/-- statement shape of `RWMRunner._propose` -/\ndef rwmProposeShape : List PStage :=\n  ["
               + ", ".join("." + s for s in v["rwmProposeShape"]) + "]\n")
    out.append("end Gen.Kernel\n")
    return "\n".join(out)


def generate():
    """-> (name, status, detail); status ok | unavailable"""
    path = os.path.join(common.REPO, SRC)
    try:
        with open(path) as fh:
            tree = ast.parse(fh.read(), filename=path)
        text = _render(_emit(tree))
    except (Unavailable, OSError, SyntaxError) as e:
        why = str(e) if isinstance(e, Unavailable) else f"cannot read {path}: {e}"
        common.write_if_changed(OUT, _render(REFERENCE, "FALLBACK: the translator could not parse the current source ("
                                             + why.replace("\n", " ")[:200] + "); reference expressions of the pinned tree"))
        return ("G4-kernel", "unavailable", why)
    changed = common.write_if_changed(OUT, text)
    return ("G4-kernel", "ok", f"{os.path.relpath(OUT, common.VERIF)} {'rewritten' if changed else 'unchanged'}")


if __name__ == "__main__":
    print(generate())
