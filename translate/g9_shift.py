"""G9 — where absolute log-likelihood values can enter a run (property C10), read from /repo's current source (Python `ast` only).

Emits lean/TempestVerif/Gen/Shift.lean:
  * `logwCalls`: every call of `compute_logw_and_logz` in core.py / steps/reweight.py as (function, first argument, normalize, which
    results are used): the log-WEIGHTS are shift-invariant only in their normalised form (normalize left at its default True);
  * `weightExps`: every `np.exp(<expr>)` in those files whose argument mentions a log-weight array, with the argument text:
    `logw - np.max(logw)` (max-shifted) or a normalised one;
  * `stateReads`: the state keys read (get_current / get_history / get_last_history) by each step function that the closed-loop
    model treats as a function of shift-invariant data only: Trainer.run, Reweighter.run, Reweighter._compute_metric_and_weights,
    SamplerCore._not_termination, BaseMCMCRunner._check_convergence / _calculate_adaptive_steps / _adapt_sigma (attribute reads);
  * `vvArgs`: the argument expressions of `volume_variation(...)` in Reweighter._compute_metric_and_weights;
  * `acceptArg`: the argument of `np.exp` in the acceptance line of BaseMCMCRunner.run.
The translator never guesses: anything it does not recognise makes it return status `unavailable`.
"""
import ast
import os

from harness import common
from .g5_tables import Unavailable, _parse, _find_func, _name, _strip_self, _state_reads, _lean_list


def _src(node):
    return ast.unparse(node).replace('"', "'")


def _funcs(tree):
    """(qualified name, FunctionDef) for every method / function of a module"""
    out = []
    for node in tree.body:
        if isinstance(node, ast.ClassDef):
            for f in node.body:
                if isinstance(f, ast.FunctionDef):
                    out.append((f"{node.name}.{f.name}", f))
        elif isinstance(node, ast.FunctionDef):
            out.append((node.name, node))
    return out


def _own_nodes(fn):
    """nodes of a function body without descending into nested function definitions twice (nested defs are included once)"""
    return list(ast.walk(fn))


def _logw_calls(tree):
    calls = []
    for qn, fn in _funcs(tree):
        for node in ast.walk(fn):
            if isinstance(node, ast.Call) and (_name(node.func) or "").endswith("compute_logw_and_logz"):
                arg = _src(node.args[0]) if node.args else "default"
                norm = "default"
                if len(node.args) > 1:
                    norm = _src(node.args[1])
                for kw in node.keywords:
                    if kw.arg == "normalize":
                        norm = _src(kw.value)
                    elif kw.arg == "beta_final":
                        arg = _src(kw.value)
                    else:
                        raise Unavailable(f"{qn}: unknown keyword {kw.arg} of compute_logw_and_logz")
                calls.append((node.lineno, qn, arg, norm))
    return [(q, a, n) for _, q, a, n in sorted(calls)]


def _weight_exps(tree):
    out = []
    for qn, fn in _funcs(tree):
        for node in ast.walk(fn):
            if isinstance(node, ast.Call) and _name(node.func) == "np.exp" and len(node.args) == 1:
                names = {n.id for n in ast.walk(node.args[0]) if isinstance(n, ast.Name)}
                if any("logw" in n for n in names):
                    out.append((node.lineno, qn, _src(node.args[0])))
    return [(q, a) for _, q, a in sorted(out)]


def _attr_reads(fn):
    """`self.X` attributes read in a function"""
    return sorted({node.attr for node in ast.walk(fn)
                   if isinstance(node, ast.Attribute) and isinstance(node.ctx, ast.Load) and _name(node.value) == "self"})


def extract():
    t = {}
    core = _parse("tempest/core.py")
    rwt = _parse("tempest/steps/reweight.py")
    trn = _parse("tempest/steps/train.py")
    mc = _parse("tempest/mcmc.py")
    t["logwCalls"] = [("core:" + q, a, n) for q, a, n in _logw_calls(core)] + [("reweight:" + q, a, n) for q, a, n in _logw_calls(rwt)]
    t["weightExps"] = [("core:" + q, a) for q, a in _weight_exps(core)] + [("reweight:" + q, a) for q, a in _weight_exps(rwt)]
    reads = []
    for label, tree, cls, fn in (("Trainer.run", trn, "Trainer", "run"), ("Reweighter.run", rwt, "Reweighter", "run"),
                                 ("Reweighter._compute_metric_and_weights", rwt, "Reweighter", "_compute_metric_and_weights"),
                                 ("Reweighter._find_beta_upper_limit", rwt, "Reweighter", "_find_beta_upper_limit"),
                                 ("Reweighter._find_beta_bisection", rwt, "Reweighter", "_find_beta_bisection"),
                                 ("SamplerCore._not_termination", core, "SamplerCore", "_not_termination")):
        for k in _state_reads(_find_func(tree, cls, fn)):
            reads.append((label, k))
    t["stateReads"] = reads
    attrs = []
    for fn in ("_check_convergence", "_calculate_adaptive_steps"):
        for a in _attr_reads(_find_func(mc, "BaseMCMCRunner", fn)):
            attrs.append(("BaseMCMCRunner." + fn, a))
    for cls in ("TPCNRunner", "RWMRunner"):
        for a in _attr_reads(_find_func(mc, cls, "_adapt_sigma")):
            attrs.append((cls + "._adapt_sigma", a))
    t["attrReads"] = attrs
    # volume_variation(...) inside _compute_metric_and_weights, with the definitions of its arguments
    cm = _find_func(rwt, "Reweighter", "_compute_metric_and_weights")
    vv = [node for node in ast.walk(cm) if isinstance(node, ast.Call) and _name(node.func) == "volume_variation"]
    if len(vv) != 1 or vv[0].keywords:
        raise Unavailable("expected exactly one positional call of volume_variation in _compute_metric_and_weights")
    defs = {}
    for node in ast.walk(cm):
        if isinstance(node, ast.Assign) and len(node.targets) == 1:
            tg = node.targets[0]
            if isinstance(tg, ast.Name):
                defs.setdefault(tg.id, []).append(_src(node.value))
            elif isinstance(tg, ast.Tuple):
                for k, e in enumerate(tg.elts):
                    if isinstance(e, ast.Name):
                        defs.setdefault(e.id, []).append(f"{_src(node.value)}[{k}]")
    args = []
    for a in vv[0].args:
        nm = _name(a)
        if nm is None or len(defs.get(nm, [])) != 1:
            raise Unavailable("volume_variation argument is not a singly-assigned local name")
        args.append((nm, defs[nm][0]))
    t["vvArgs"] = args
    t["metricLocals"] = [(k, v[0]) for k, v in sorted(defs.items()) if len(v) == 1]
    # the acceptance line of BaseMCMCRunner.run
    run = _find_func(mc, "BaseMCMCRunner", "run")
    exps = [node for node in ast.walk(run) if isinstance(node, ast.Call) and _name(node.func) == "np.exp"]
    if len(exps) != 1:
        raise Unavailable("expected exactly one np.exp in BaseMCMCRunner.run")
    t["acceptArg"] = [_src(exps[0].args[0])]
    # every other use of a log-likelihood array in the loop: names containing 'logl' read in BaseMCMCRunner.run
    t["mcmcLoglUses"] = sorted({_src(node) for node in ast.walk(run)
                                if isinstance(node, (ast.BinOp, ast.Compare, ast.Call)) and
                                any(isinstance(n, (ast.Name, ast.Attribute)) and "logl" in (_name(n) or "") for n in ast.walk(node))
                                and not any(isinstance(ch, (ast.BinOp, ast.Compare, ast.Call)) and ch is not node and
                                            any(isinstance(n, (ast.Name, ast.Attribute)) and "logl" in (_name(n) or "") for n in ast.walk(ch))
                                            for ch in ast.iter_child_nodes(node))})
    # the Hastings factor receives logl_prime: does any implementation read it?
    fr = []
    for cls in ("TPCNRunner", "RWMRunner"):
        f = _find_func(mc, cls, "_compute_acceptance_factor")
        for node in ast.walk(f):
            if isinstance(node, (ast.Name, ast.Attribute)) and isinstance(getattr(node, "ctx", None), ast.Load) and "logl" in (_name(node) or ""):
                fr.append(f"{cls}:{_name(node)}")
    t["factorReadsLogl"] = sorted(set(fr))
    # the proposal generators must not read a log-likelihood
    pr = []
    for cls in ("TPCNRunner", "RWMRunner"):
        f = _find_func(mc, cls, "_propose")
        for node in ast.walk(f):
            if isinstance(node, (ast.Name, ast.Attribute)) and "logl" in (_name(node) or ""):
                pr.append(f"{cls}:{_name(node)}")
    t["proposeReadsLogl"] = sorted(set(pr))
    # Mutator.run: every innermost expression (operation / comparison / call) that mentions a log-likelihood variable
    mu = _parse("tempest/steps/mutate.py")
    t["mutatorLoglUses"] = _logl_uses(_find_func(mu, "Mutator", "run"))
    return t


def _mentions_logl(node):
    return any(isinstance(n, (ast.Name, ast.Attribute)) and "logl" in (_name(n) or "") for n in ast.walk(node))


def _logl_uses(fn):
    kinds = (ast.BinOp, ast.Compare, ast.Call, ast.UnaryOp, ast.BoolOp)
    out = set()
    for node in ast.walk(fn):
        if isinstance(node, kinds) and _mentions_logl(node):
            inner = [ch for ch in ast.walk(node) if ch is not node and isinstance(ch, kinds) and _mentions_logl(ch)]
            if not inner:
                out.add(_src(node) if len(_src(node)) < 80 else _src(node)[:77] + "...")
    return sorted(out)


def _pairs(ps):
    return "[" + ", ".join('("%s", "%s")' % p for p in ps) + "]"


def _triples(ps):
    return "[" + ", ".join('("%s", "%s", "%s")' % p for p in ps) + "]"


def render(t):
    L = ["/- GENERATED by translate/g9_shift.py from /repo's current source — do not edit. -/",
         "namespace Gen.Shift", "",
         "/-- (function, beta argument, `normalize` argument) of every call of `compute_logw_and_logz` in core.py / steps/reweight.py -/",
         f"def logwCalls : List (String × String × String) := {_triples(t['logwCalls'])}", "",
         "/-- (function, argument) of every `np.exp` applied to an expression that mentions a log-weight array -/",
         f"def weightExps : List (String × String) := {_pairs(t['weightExps'])}", "",
         "/-- (function, state key) read through get_current / get_history / get_last_history -/",
         f"def stateReads : List (String × String) := {_pairs(t['stateReads'])}", "",
         "/-- (function, `self.` attribute) read by the stop rule and the step-size adaptation -/",
         f"def attrReads : List (String × String) := {_pairs(t['attrReads'])}", "",
         "/-- the arguments of `volume_variation(…)` in `_compute_metric_and_weights` with their (single) definitions -/",
         f"def vvArgs : List (String × String) := {_pairs(t['vvArgs'])}", "",
         "/-- every singly-assigned local of `_compute_metric_and_weights` with its definition -/",
         f"def metricLocals : List (String × String) := {_pairs(t['metricLocals'])}", "",
         "/-- the argument of the one `np.exp` of `BaseMCMCRunner.run` (the acceptance ratio) -/",
         f"def acceptArg : List String := {_lean_list(t['acceptArg'])}", "",
         "/-- the innermost expressions of `BaseMCMCRunner.run` that mention a log-likelihood array -/",
         f"def mcmcLoglUses : List String := {_lean_list(t['mcmcLoglUses'])}", "",
         "/-- log-likelihood names read inside the two `_compute_acceptance_factor` implementations -/",
         f"def factorReadsLogl : List String := {_lean_list(t['factorReadsLogl'])}", "",
         "/-- log-likelihood names mentioned inside the two `_propose` implementations -/",
         f"def proposeReadsLogl : List String := {_lean_list(t['proposeReadsLogl'])}", "",
         "/-- the innermost expressions of `Mutator.run` that mention a log-likelihood variable -/",
         f"def mutatorLoglUses : List String := {_lean_list(t['mutatorLoglUses'])}", "",
         "end Gen.Shift", ""]
    return "\n".join(L)


def generate():
    try:
        t = extract()
    except Unavailable as e:
        return ("G9-shift", "unavailable", str(e))
    except (SyntaxError, OSError) as e:
        return ("G9-shift", "unavailable", f"{type(e).__name__}: {e}")
    changed = common.write_if_changed(os.path.join(common.GEN, "Shift.lean"), render(t))
    return ("G9-shift", "ok", f"{'re' if changed else ''}generated Gen/Shift.lean ({sum(len(v) for v in t.values())} entries)")


if __name__ == "__main__":
    import json
    print(json.dumps(extract(), indent=1))
    print(generate())
