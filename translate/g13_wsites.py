"""G13 — the text of `StateManager.compute_logw_and_logz` / `compute_results`, every call site of the weight function in
the package, and the cache discipline of `StateManager`, regenerated from /repo's source (Python `ast` only; C04 second pass).

Emits lean/TempestVerif/Gen/WeightSites.lean:
  * logwSignature        the parameter list of compute_logw_and_logz with defaults (`normalize=True` matters: no caller passes it)
  * logwBody             its statements in `ast.unparse` form, one string per top-level statement (docstring dropped; an `if`
                         is rendered `if <test>: {<stmt>; <stmt>}`).  `Model.Weights` / `Model.WeightsKeys.logwK` mirror THIS text.
  * resultsBody          likewise for compute_results (the cache: `Model.WeightsKeys.computeResults`)
  * logwCallSites        every call `<expr>.compute_logw_and_logz(...)` in tempest/**/*.py:
                         (file, enclosing class.function, unparsed argument list, assignment target)
  * stateWriters         methods of StateManager that write `self._history` / `self._current` (subscript store, `.append`,
                         `.update`, plain assignment) — `__init__` excluded (it creates the cache attribute itself)
  * cacheInvalidators    methods of StateManager that call `self._invalidate_cache()`
  * cacheWriters         methods that assign `self._results_dict`
  * evidenceBody / posteriorHead   `compute_evidence` and the first statements of `compute_posterior` (what is handed out)
The translator never guesses: an unrecognised shape gives status `unavailable` (the dynamic suites then carry the tie alone).

Second half (G13b, `generate_src` → Gen/WeightSrc.lean): the arithmetic, tests and return tree of the same functions COMPILED to
terms over `ScT α` with canonical local names — see the comment block before `_canonicalise`.
"""
import ast
import glob
import os

from harness import common


class Unavailable(Exception):
    pass


def _parse(rel):
    path = os.path.join(common.REPO, rel)
    with open(path) as fh:
        return ast.parse(fh.read(), filename=path)


def _u(node):
    return ast.unparse(node)


def _cls(tree, name):
    for node in tree.body:
        if isinstance(node, ast.ClassDef) and node.name == name:
            return node
    raise Unavailable(f"class {name} not found")


def _func(cls, name):
    for f in cls.body:
        if isinstance(f, ast.FunctionDef) and f.name == name:
            return f
    raise Unavailable(f"{cls.name}.{name} not found")


def _drop_doc(body):
    if body and isinstance(body[0], ast.Expr) and isinstance(body[0].value, ast.Constant) and isinstance(body[0].value.value, str):
        return body[1:]
    return body


def _flat_stmt(s):
    """one string per top-level statement; compound statements on one line"""
    if isinstance(s, ast.If):
        body = "; ".join(_flat_stmt(x) for x in s.body)
        out = f"if {_u(s.test)}: {{{body}}}"
        if s.orelse:
            out += " else: {" + "; ".join(_flat_stmt(x) for x in s.orelse) + "}"
        return out
    if isinstance(s, ast.For):
        return f"for {_u(s.target)} in {_u(s.iter)}: {{" + "; ".join(_flat_stmt(x) for x in s.body) + "}"
    if isinstance(s, (ast.While, ast.With, ast.Try, ast.FunctionDef, ast.ClassDef)):
        raise Unavailable(f"unexpected compound statement {type(s).__name__}")
    return _u(s)


def _signature(fn):
    a = fn.args
    if a.vararg or a.kwarg or a.kwonlyargs or a.posonlyargs:
        raise Unavailable(f"{fn.name}: unexpected parameter kinds")
    names = [x.arg for x in a.args]
    defaults = [None] * (len(names) - len(a.defaults)) + [_u(d) for d in a.defaults]
    return [n if d is None else f"{n}={d}" for n, d in zip(names, defaults)]


def _is_self_attr(node, attr):
    return isinstance(node, ast.Attribute) and node.attr == attr and isinstance(node.value, ast.Name) and node.value.id == "self"


def _writes_state(fn):
    """does the method write self._history / self._current (or their items)?"""
    for n in ast.walk(fn):
        tgts = []
        if isinstance(n, ast.Assign):
            tgts = n.targets
        elif isinstance(n, (ast.AugAssign, ast.AnnAssign)):
            tgts = [n.target]
        for t in tgts:
            base = t
            while isinstance(base, ast.Subscript):
                base = base.value
            if _is_self_attr(base, "_history") or _is_self_attr(base, "_current"):
                return True
        if isinstance(n, ast.Call) and isinstance(n.func, ast.Attribute) and n.func.attr in ("append", "update", "extend", "pop", "clear",
                                                                                               "insert", "setdefault", "remove"):
            base = n.func.value
            while isinstance(base, ast.Subscript):
                base = base.value
            if _is_self_attr(base, "_history") or _is_self_attr(base, "_current"):
                return True
    return False


def extract():
    t = {}
    sm = _parse("tempest/state_manager.py")
    cls = _cls(sm, "StateManager")
    fn = _func(cls, "compute_logw_and_logz")
    t["logwSignature"] = _signature(fn)
    t["logwBody"] = [_flat_stmt(s) for s in _drop_doc(fn.body)]
    t["resultsBody"] = [_flat_stmt(s) for s in _drop_doc(_func(cls, "compute_results").body)]
    t["invalidateBody"] = [_flat_stmt(s) for s in _drop_doc(_func(cls, "_invalidate_cache").body)]
    writers, invalidators, cache_writers = [], [], []
    for f in cls.body:
        if not isinstance(f, ast.FunctionDef):
            continue
        if f.name != "__init__" and _writes_state(f):
            writers.append(f.name)
        if any(isinstance(n, ast.Call) and _is_self_attr(n.func, "_invalidate_cache") for n in ast.walk(f)):
            invalidators.append(f.name)
        for n in ast.walk(f):
            if isinstance(n, ast.Assign) and any(_is_self_attr(x, "_results_dict") for x in n.targets):
                cache_writers.append(f.name)
                break
    t["stateWriters"] = sorted(writers)
    t["cacheInvalidators"] = sorted(invalidators)
    t["cacheWriters"] = sorted(cache_writers)

    # every call site of the weight function in the package
    sites = []
    root = os.path.join(common.REPO, "tempest")
    for path in sorted(glob.glob(os.path.join(root, "**", "*.py"), recursive=True)):
        rel = os.path.relpath(path, common.REPO)
        with open(path) as fh:
            tree = ast.parse(fh.read(), filename=path)
        for c in [n for n in tree.body if isinstance(n, ast.ClassDef)]:
            for f in [n for n in c.body if isinstance(n, ast.FunctionDef)]:
                for n in ast.walk(f):
                    if isinstance(n, ast.Assign) and isinstance(n.value, ast.Call) and isinstance(n.value.func, ast.Attribute) \
                            and n.value.func.attr == "compute_logw_and_logz":
                        call = n.value
                        args = ", ".join([_u(a) for a in call.args] + [f"{k.arg}={_u(k.value)}" for k in call.keywords])
                        sites.append((n.lineno, rel, f"{c.name}.{f.name}", args, _u(n.targets[0])))
        # a call whose result is not assigned would be invisible above: count all calls and compare
        n_calls = sum(1 for n in ast.walk(tree) if isinstance(n, ast.Call) and isinstance(n.func, ast.Attribute)
                      and n.func.attr == "compute_logw_and_logz")
        n_seen = sum(1 for s in sites if s[1] == rel)
        if n_calls != n_seen:
            raise Unavailable(f"{rel}: {n_calls} calls of compute_logw_and_logz, {n_seen} of them plain assignments inside methods")
    t["logwCallSites"] = [(rel, where, args, tgt) for _, rel, where, args, tgt in sorted(sites, key=lambda s: (s[1], s[0]))]

    core = _cls(_parse("tempest/core.py"), "SamplerCore")
    t["evidenceBody"] = [_flat_stmt(s) for s in _drop_doc(_func(core, "compute_evidence").body)]
    post = _drop_doc(_func(core, "compute_posterior").body)
    if len(post) < 3:
        raise Unavailable("compute_posterior: fewer than three statements")
    t["posteriorHead"] = [_flat_stmt(s) for s in post[:3]]
    return t


def _q(s):
    return '"' + s.replace("\\", "\\\\").replace('"', '\\"') + '"'


def _lean_list(xs):
    return "[" + ", ".join(_q(x) for x in xs) + "]"


def render(t):
    L = ["/- GENERATED by translate/g13_wsites.py from /repo's current source — do not edit. -/",
         "namespace Gen.WeightSites", ""]
    for k in ("logwSignature", "logwBody", "resultsBody", "invalidateBody", "stateWriters", "cacheInvalidators", "cacheWriters",
              "evidenceBody", "posteriorHead"):
        L.append(f"def {k} : List String := {_lean_list(t[k])}")
    L.append("def logwCallSites : List (String × String × String × String) := [" +
             ", ".join("(" + ", ".join(_q(x) for x in s) + ")" for s in t["logwCallSites"]) + "]")
    L += ["", "end Gen.WeightSites", ""]
    return "\n".join(L)


def generate():
    try:
        t = extract()
    except Unavailable as e:
        return ("G13-weight-sites", "unavailable", str(e))
    except (SyntaxError, OSError) as e:
        return ("G13-weight-sites", "unavailable", f"{type(e).__name__}: {e}")
    changed = common.write_if_changed(os.path.join(common.GEN, "WeightSites.lean"), render(t))
    return ("G13-weight-sites", "ok", f"{'re' if changed else ''}generated Gen/WeightSites.lean ({len(t['logwBody'])} statements, "
                                      f"{len(t['logwCallSites'])} call sites)")


# =====================================================================================================================
# G13b — SOURCE-DERIVED MODEL (C04 third pass): the arithmetic of `compute_logw_and_logz` / `compute_posterior` COMPILED
#
# Emits lean/TempestVerif/Gen/WeightSrc.lean.  For each of the functions below
#     logw  = StateManager.compute_logw_and_logz        post = SamplerCore.compute_posterior
#     evid  = SamplerCore.compute_evidence
#   1. LOCAL NAMES ARE CANONICALISED: every name bound inside the function (assignment / tuple / loop / comprehension target;
#      parameters and `_` excluded) is renamed `v0, v1, …` in order of first binding, so a pure renaming of locals gives the
#      same output.  Comments, docstrings, blank lines and formatting never reach the AST.
#   2. `<f>Canon : List String` — the statement skeleton of the canonical function (`path: statement`, program order; `t`/`e`
#      = then / else block): which branch assigns what, what is returned, order and arguments of every call.
#   3. every ARITHMETIC right-hand side (`+ - * /`, unary minus, np.exp / np.log / np.sqrt / np.abs, numeric literals) of an
#      assignment, augmented assignment or return is compiled to a term over the scalar interface `ScT α`, one definition
#      `<f>_<path>` per statement, elementwise (numpy arrays become scalar parameters; pure broadcasting subscripts
#      `[:, None]`, `[None, :]` are dropped from the term and kept in the leaf text).  Whatever is not arithmetic — a name,
#      `x.size`, `len(x)`, a reduction `np.max(x)` / `np.sum(x)` / `np.logaddexp.reduce(x, axis=1)`, any other call — is a LEAF
#      = a parameter `a<k>`, numbered in a canonical order that does NOT depend on where the leaf stands in the expression
#      (canonical locals by number, then the other leaves by text: `_leaf_key`) — so swapping two operands changes the term;
#      `<f>Leaves` lists the canonical source text of every parameter of every definition.  `<f>_<path>_full` is the same statement with the arithmetic definitions of the locals it uses
#      substituted (only while nothing they mention has been reassigned), i.e. the data flow between arithmetic statements.
#   4. every `if` test is compiled to a Bool term `<f>_<path>_test` over Bool / Nat / scalar parameters (`and`, `or`, `not`,
#      `is None`, `is not None`, comparisons of sizes with integer literals or of scalars, truthiness of a size = `≠ 0`).
#   5. an `if` tree all of whose leaves are `return <tuple of names>` is compiled to a function `<f>_<path>_ret` returning
#      the list of (canonical) names handed out; `<f>Gathers` lists every index gather `X = X[I]` with its path.
#   6. numeric defaults of the signature (`<f>_default_<k>`), numeric literals handed to a call (`<f>_<path>_arg<j>`), and
#      every call site of `compute_logw_and_logz` in the package with its literal arguments (`site<k>_arg<j>`, `callSites`).
# Sanitisation: generated identifiers are `<prefix>_<path>` over [A-Za-z0-9_] and binders `a<k>`; source text only ever
# appears inside Lean string literals (`\\` and `"` escaped, one line, no control characters) or doc comments (`-/`, `/-`
# and back-ticks defused).
# `Props/C04Source.lean` proves (by `rfl` / `cases … <;> rfl`, for every scalar type) that the hand-written models unfold to
# exactly these terms.  The translator never guesses: a statement or expression outside this language gives `unavailable`.
# =====================================================================================================================
import copy
import re as _re
from fractions import Fraction

_ARITH_CALLS = {"np.exp": "ScT.exp", "np.log": "ScT.log", "np.sqrt": "ScT.sqrt", "np.abs": "Sc.abs", "abs": "Sc.abs",
                "numpy.exp": "ScT.exp", "numpy.log": "ScT.log", "numpy.sqrt": "ScT.sqrt", "numpy.abs": "Sc.abs"}
_BINOPS = {ast.Add: "Sc.add", ast.Sub: "Sc.sub", ast.Mult: "Sc.mul", ast.Div: "Sc.div"}


def _dotted(node):
    if isinstance(node, ast.Name):
        return node.id
    if isinstance(node, ast.Attribute):
        b = _dotted(node.value)
        return None if b is None else b + "." + node.attr
    return None


def _txt(node):
    """canonical one-line source text of a node (double quotes never appear: ast.unparse prefers single quotes, the rest is mapped)"""
    return " ".join(ast.unparse(node).split()).replace('"', "'")


def _is_doc(st):
    return isinstance(st, ast.Expr) and isinstance(st.value, ast.Constant) and isinstance(st.value.value, str)


# ---------------------------------------------------------------------------------------------- canonical local names
def _canonicalise(fn):
    """a deep copy of `fn` with every locally bound name renamed v0, v1, … in order of first binding"""
    a = fn.args
    params = [x.arg for x in a.posonlyargs + a.args + a.kwonlyargs] + [x.arg for x in (a.vararg, a.kwarg) if x is not None]
    stores, others = [], set(params)
    for n in ast.walk(fn):
        if n is not fn and isinstance(n, (ast.FunctionDef, ast.AsyncFunctionDef, ast.Lambda, ast.ClassDef)):
            raise Unavailable(f"{fn.name}: nested {type(n).__name__} (line {n.lineno})")
        if isinstance(n, (ast.Global, ast.Nonlocal, ast.Try, ast.With, ast.AsyncWith, ast.AsyncFor, ast.Match if hasattr(ast, 'Match') else ast.Try)):
            raise Unavailable(f"{fn.name}: statement {type(n).__name__} (line {n.lineno}) outside the statement language")
        if isinstance(n, ast.Name):
            if isinstance(n.ctx, ast.Store) and n.id not in params and n.id != "_":
                stores.append((n.lineno, n.col_offset, n.id))
        elif isinstance(n, ast.alias):
            others.add((n.asname or n.name).split(".")[0])
    order = []
    for _l, _c, name in sorted(stores):
        if name not in order:
            order.append(name)
    for n in ast.walk(fn):
        if isinstance(n, ast.Name) and n.id not in order:
            others.add(n.id)
    prefix = "v"
    while any(_re.fullmatch(_re.escape(prefix) + r"\d+", o) for o in others):
        prefix += "_"
    ren = {name: f"{prefix}{k}" for k, name in enumerate(order)}

    class R(ast.NodeTransformer):
        def visit_Name(self, node):
            return ast.copy_location(ast.Name(id=ren.get(node.id, node.id), ctx=node.ctx), node)

    out = R().visit(copy.deepcopy(fn))
    return out, ren


# ---------------------------------------------------------------------------------------------- literals, arithmetic
def _lit(v):
    if isinstance(v, bool) or not isinstance(v, (int, float)):
        raise Unavailable(f"literal {v!r} is not numeric")
    f = float(v)
    if f != f or f in (float("inf"), float("-inf")) or f < 0:
        raise Unavailable(f"literal {v!r} outside the literal language")
    if f == int(f) and f < 2 ** 53:
        return f"(Sc.ofNat {int(f)})"
    r = repr(f)
    if "e" in r or "E" in r:
        raise Unavailable(f"literal {v!r}: exponent form of a non-integer")
    whole, frac = r.split(".")
    m, e = int(whole + frac), len(frac)
    if Fraction(m, 10 ** e) != Fraction(r):
        raise Unavailable(f"literal {v!r}: decimal expansion not exact")
    return f"(Sc.lit {m} {e})"


def _strip_bcast(n):
    """`x[:, None]`, `x[None, :]`, `x[None]`, `x[:, None, None]` … → x (a pure change of shape), else None"""
    if not isinstance(n, ast.Subscript):
        return None
    sl = n.slice
    elts = sl.elts if isinstance(sl, ast.Tuple) else [sl]

    def full(e):
        return isinstance(e, ast.Slice) and e.lower is None and e.upper is None and e.step is None

    def none(e):
        return isinstance(e, ast.Constant) and e.value is None
    if elts and all(full(e) or none(e) for e in elts) and any(none(e) for e in elts):
        return n.value
    return None


_NONSCALAR = (ast.Tuple, ast.List, ast.Set, ast.Dict, ast.JoinedStr, ast.ListComp, ast.SetComp, ast.DictComp, ast.GeneratorExp)


def _nonscalar(n):
    return isinstance(n, _NONSCALAR) or (isinstance(n, ast.Constant) and isinstance(n.value, (str, bytes)))


def _is_arith(n):
    if isinstance(n, ast.BinOp):
        # `result + (blobs,)`, `'a' + s`, `[0] * n`: container / string operators, not arithmetic (skeleton only)
        return not (_nonscalar(n.left) or _nonscalar(n.right))
    if isinstance(n, ast.UnaryOp) and isinstance(n.op, (ast.USub, ast.UAdd)):
        return not (isinstance(n.operand, ast.Attribute) and _dotted(n.operand) in ("np.inf", "numpy.inf"))
    if isinstance(n, ast.Call) and _dotted(n.func) in _ARITH_CALLS:
        return True
    b = _strip_bcast(n)
    return b is not None and _is_arith(b)


_LEAF_NODES = (ast.Name, ast.Attribute, ast.Call, ast.Subscript)


def _leaf_key(text):
    """canonical order of the parameters of a generated term — INDEPENDENT of where a leaf stands in the expression, so that
    swapping two operands changes the term (and breaks the `rfl`), not merely the numbering: canonical locals `v<k>` (bare or
    broadcast) by k, then everything else by its text (digit runs compared as numbers)"""
    m = _re.fullmatch(r"v_*(\d+)(\[[^\]]*\])?", text)
    nat = tuple((0, int(c), "") if c.isdigit() else (1, 0, c) for c in _re.findall(r"\d+|\D+", text))
    return (0, int(m.group(1)), nat) if m else (1, 0, nat)


class _Params:
    """parameters of one generated definition: (leaf text, Lean type); numbered by `_leaf_key` when the definition is closed"""

    def __init__(self):
        self.keys, self.types = [], []

    def get(self, node, ty):
        key = _txt(node)
        if key in self.keys:
            k = self.keys.index(key)
            if self.types[k] != ty:
                raise Unavailable(f"leaf {key!r} is used both as {self.types[k]} and as {ty}")
            return f"\x00{k}\x00"
        self.keys.append(key)
        self.types.append(ty)
        return f"\x00{len(self.keys) - 1}\x00"

    def close(self, body):
        """(binders, body with the final parameter names, leaf texts in parameter order)"""
        order = sorted(range(len(self.keys)), key=lambda k: _leaf_key(self.keys[k]))
        pos = {k: i for i, k in enumerate(order)}
        body = _re.sub("\x00(\\d+)\x00", lambda m: f"a{pos[int(m.group(1))]}", body)
        binders = "".join(f" (a{i} : {self.types[k]})" for i, k in enumerate(order))
        return binders, body, [self.keys[k] for k in order]


def _term(n, P, env=None):
    """arithmetic expression → term over `ScT α`; `env` (canonical local → its arithmetic definition) is substituted if given"""
    if isinstance(n, ast.Constant):
        return _lit(n.value)
    b = _strip_bcast(n)
    if b is not None and (_is_arith(b) or (env is not None and isinstance(b, ast.Name) and b.id in env)):
        return _term(b, P, env)
    if isinstance(n, ast.Name) and env is not None and n.id in env:
        return _term(env[n.id], P, env)
    if isinstance(n, ast.UnaryOp) and isinstance(n.op, ast.USub):
        return f"(Sc.neg {_term(n.operand, P, env)})"
    if isinstance(n, ast.UnaryOp) and isinstance(n.op, ast.UAdd):
        return _term(n.operand, P, env)
    if isinstance(n, ast.BinOp):
        op = _BINOPS.get(type(n.op))
        if op is None:
            raise Unavailable(f"operator {type(n.op).__name__} in {_txt(n)!r} (line {n.lineno}) outside the expression language")
        x = _term(n.left, P, env)
        y = _term(n.right, P, env)
        return f"({op} {x} {y})"
    if isinstance(n, ast.Call) and _dotted(n.func) in _ARITH_CALLS:
        if len(n.args) != 1 or n.keywords:
            raise Unavailable(f"call {_txt(n)!r} (line {n.lineno}): expected exactly one positional argument")
        return f"({_ARITH_CALLS[_dotted(n.func)]} {_term(n.args[0], P, env)})"
    if isinstance(n, _LEAF_NODES):
        return P.get(n, "α")
    raise Unavailable(f"expression {_txt(n)!r} (line {getattr(n, 'lineno', '?')}) outside the expression language")


def _names_in(n):
    return {x.id for x in ast.walk(n) if isinstance(x, ast.Name)}


# ---------------------------------------------------------------------------------------------- tests
def _is_size(n):
    """a non-negative integer read off an array: `x.size`, `len(x)`, `x.shape[k]`"""
    if isinstance(n, ast.Attribute) and n.attr == "size":
        return True
    if isinstance(n, ast.Call) and _dotted(n.func) == "len" and len(n.args) == 1 and not n.keywords:
        return True
    if isinstance(n, ast.Subscript) and isinstance(n.value, ast.Attribute) and n.value.attr == "shape":
        return True
    return False


def _is_natlit(n):
    return isinstance(n, ast.Constant) and isinstance(n.value, int) and not isinstance(n.value, bool) and n.value >= 0


def _test(n, P):
    """boolean context → Bool term"""
    if isinstance(n, ast.BoolOp):
        op = " && " if isinstance(n.op, ast.And) else " || "
        parts = [_test(v, P) for v in n.values]
        out = parts[0]
        for q in parts[1:]:
            out = f"({out}{op}{q})"
        return out
    if isinstance(n, ast.UnaryOp) and isinstance(n.op, ast.Not):
        return f"(!{_test(n.operand, P)})"
    if isinstance(n, ast.Compare):
        if len(n.ops) != 1:
            raise Unavailable(f"test {_txt(n)!r} (line {n.lineno}): chained comparison")
        op, l, r = type(n.ops[0]), n.left, n.comparators[0]
        if op in (ast.Is, ast.IsNot):
            if not (isinstance(r, ast.Constant) and r.value is None):
                raise Unavailable(f"test {_txt(n)!r} (line {n.lineno}): `is` against something other than None")
            return P.get(n, "Bool")
        if (_is_size(l) or _is_natlit(l)) and (_is_size(r) or _is_natlit(r)):
            def nat(e):
                return str(e.value) if _is_natlit(e) else P.get(e, "Nat")
            x, y = nat(l), nat(r)
            f = {ast.Eq: f"({x} == {y})", ast.NotEq: f"({x} != {y})", ast.Lt: f"(decide ({x} < {y}))",
                 ast.LtE: f"(decide ({x} ≤ {y}))", ast.Gt: f"(decide ({y} < {x}))", ast.GtE: f"(decide ({y} ≤ {x}))"}.get(op)
            if f is None:
                raise Unavailable(f"comparison {op.__name__} in {_txt(n)!r}")
            return f
        x, y = _term(l, P), _term(r, P)
        if op is ast.Eq:
            return f"(Sc.le {x} {y} && Sc.le {y} {x})"
        f = {ast.Lt: "Sc.lt", ast.LtE: "Sc.le", ast.Gt: "Sc.gt", ast.GtE: "Sc.ge"}.get(op)
        if f is None:
            raise Unavailable(f"comparison {op.__name__} in {_txt(n)!r}")
        return f"({f} {x} {y})"
    if _is_size(n):
        return f"({P.get(n, 'Nat')} != 0)"
    if isinstance(n, ast.Constant) and isinstance(n.value, bool):
        return "true" if n.value else "false"
    if isinstance(n, (ast.Name, ast.Attribute)):
        return P.get(n, "Bool")
    raise Unavailable(f"test {_txt(n)!r} (line {getattr(n, 'lineno', '?')}) outside the test language")


# ---------------------------------------------------------------------------------------------- one function
def _ident(prefix, path, suffix=""):
    s = f"{prefix}_{path.replace('.', '_')}{suffix}"
    if not _re.fullmatch(r"[A-Za-z][A-Za-z0-9_]*", s):
        raise Unavailable(f"cannot form an identifier from {s!r}")
    return s


def _doc(text):
    return text.replace("-/", "- /").replace("/-", "/ -").replace("`", "'")


class _FnOut:
    def __init__(self):
        self.defs, self.canon, self.leaves, self.gathers = [], [], [], []


def _stored(st):
    return {x.id for x in ast.walk(st) if isinstance(x, ast.Name) and isinstance(x.ctx, ast.Store)}


def _ret_names(stmts):
    """body of a branch that is exactly `return <name | tuple of names>` → the names"""
    if len(stmts) == 1 and isinstance(stmts[0], ast.Return) and stmts[0].value is not None:
        v = stmts[0].value
        elts = v.elts if isinstance(v, ast.Tuple) else [v]
        if all(isinstance(e, ast.Name) for e in elts):
            return [e.id for e in elts]
    return None


def _ret_tree(st, P):
    """an if-tree whose leaves are all `return <names>` → Lean term of type `List String` (None if it is not such a tree)"""
    def branch(stmts):
        names = _ret_names(stmts)
        if names is not None:
            return "[" + ", ".join(_q(x) for x in names) + "]"
        if len(stmts) == 1 and isinstance(stmts[0], ast.If):
            return node(stmts[0])
        return None

    def node(s):
        if not s.orelse:
            return None
        c = _test(s.test, P)                    # a test that is outside the language is reported before its branches
        t = branch(s.body)
        e = branch(s.orelse) if t is not None else None
        if t is None or e is None:
            return None
        return f"(if {c} then {t} else {e})"
    return node(st)


def _compile_fn(fn, prefix):
    cfn, _ren = _canonicalise(fn)
    out = _FnOut()

    def emit_term(name, node, env, comment, leaves_of=None):
        P = _Params()
        binders, body, texts = P.close(_term(node, P, env))
        out.defs.append(f"/-- `{_doc(comment)}` -/\ndef {name}{binders} : α := {body}")
        out.leaves.append((name, texts))
        return texts, body

    def emit_test(name, node, comment):
        P = _Params()
        binders, body, texts = P.close(_test(node, P))
        out.defs.append(f"/-- `{_doc(comment)}` -/\ndef {name}{binders} : Bool := {body}")
        out.leaves.append((name, texts))

    def kill(env, name):
        env.pop(name, None)
        for k in [k for k, v in env.items() if name in _names_in(v)]:
            env.pop(k)

    def arith_stmt(p, target, rhs, env, text):
        name = _ident(prefix, p)
        texts0, body0 = emit_term(name, rhs, None, text)
        if env:
            P1 = _Params()
            binders, body, texts = P1.close(_term(rhs, P1, env))
            if (texts, body) != (texts0, body0):
                out.defs.append(f"/-- `{_doc(text)}` with the arithmetic definitions of its locals substituted -/\n"
                                f"def {name}_full{binders} : α := {body}")
                out.leaves.append((name + "_full", texts))
        if target is not None:
            # the definition that later statements may substitute: itself in substituted form (as an AST)
            full = _subst(rhs, env)
            kill(env, target)
            if target not in _names_in(full):
                env[target] = full

    def block(stmts, path, env):
        k = 0
        for st in stmts:
            if _is_doc(st) or isinstance(st, ast.Pass):
                continue
            p = f"{path}{k}"
            k += 1
            if isinstance(st, ast.If):
                out.canon.append(f"{p}: if {_txt(st.test)}")
                emit_test(_ident(prefix, p, "_test"), st.test, "if " + _txt(st.test))
                P = _Params()
                tree = _ret_tree(st, P)
                if tree is not None:
                    binders, tree, texts = P.close(tree)
                    out.defs.append(f"/-- the names handed out by the `return` tree at `{p}` -/\n"
                                    f"def {_ident(prefix, p, '_ret')}{binders} : List String := {tree}")
                    out.leaves.append((_ident(prefix, p, "_ret"), texts))
                block(st.body, p + "t.", dict(env))
                if st.orelse:
                    block(st.orelse, p + "e.", dict(env))
                for nm in _stored(st):
                    kill(env, nm)
            elif isinstance(st, (ast.For, ast.While)):
                if st.orelse:
                    raise Unavailable(f"{fn.name}: loop with an else block (line {st.lineno})")
                if isinstance(st, ast.For):
                    out.canon.append(f"{p}: for {_txt(st.target)} in {_txt(st.iter)}")
                else:
                    out.canon.append(f"{p}: while {_txt(st.test)}")
                    emit_test(_ident(prefix, p, "_test"), st.test, "while " + _txt(st.test))
                for nm in _stored(st):
                    kill(env, nm)
                block(st.body, p + ".", {})
            elif isinstance(st, ast.Assign):
                out.canon.append(f"{p}: {_txt(st)}")
                tgt = st.targets[0].id if len(st.targets) == 1 and isinstance(st.targets[0], ast.Name) else None
                if isinstance(st.value, ast.Call):          # numeric literals handed to a call: `…compute_logw_and_logz(1.0)`
                    for j, a in enumerate(st.value.args):
                        if isinstance(a, ast.Constant) and isinstance(a.value, (int, float)) and not isinstance(a.value, bool):
                            emit_term(_ident(prefix, p, f"_arg{j}"), a, None, f"argument {j} of {_txt(st.value)}")
                if _is_arith(st.value):
                    arith_stmt(p, tgt, st.value, env, _txt(st))
                    if tgt is None:
                        for nm in _stored(st):
                            kill(env, nm)
                else:
                    for nm in _stored(st):
                        kill(env, nm)
                    v = st.value
                    if (tgt is not None and isinstance(v, ast.Subscript) and isinstance(v.value, ast.Name) and v.value.id == tgt
                            and isinstance(v.slice, ast.Name)):
                        out.gathers.append((p, tgt, v.slice.id))
            elif isinstance(st, ast.AugAssign):
                out.canon.append(f"{p}: {_txt(st)}")
                if not isinstance(st.target, ast.Name):
                    raise Unavailable(f"{fn.name}: augmented assignment to {_txt(st.target)!r} (line {st.lineno})")
                rhs = ast.copy_location(ast.BinOp(left=ast.Name(id=st.target.id, ctx=ast.Load()), op=st.op, right=st.value), st)
                ast.fix_missing_locations(rhs)
                if _is_arith(rhs):
                    arith_stmt(p, st.target.id, rhs, env, _txt(st))
                else:
                    kill(env, st.target.id)
            elif isinstance(st, ast.Return):
                out.canon.append(f"{p}: {_txt(st)}")
                if st.value is not None and _is_arith(st.value):
                    arith_stmt(p, None, st.value, env, _txt(st))
            elif isinstance(st, (ast.Expr, ast.Import, ast.ImportFrom, ast.Raise, ast.Assert, ast.AnnAssign, ast.Delete)):
                out.canon.append(f"{p}: {_txt(st)}")
                for nm in _stored(st):
                    kill(env, nm)
            else:
                raise Unavailable(f"{fn.name}: statement {type(st).__name__} (line {st.lineno}) outside the statement language")
    # defaults of the signature (positional parameters): numeric → scalar term, bool → Bool
    pos = cfn.args.posonlyargs + cfn.args.args
    for k, (a, d) in enumerate(zip(pos[len(pos) - len(cfn.args.defaults):], cfn.args.defaults), start=len(pos) - len(cfn.args.defaults)):
        if isinstance(d, ast.Constant) and isinstance(d.value, bool):
            out.defs.append(f"/-- default of parameter {k} `{_doc(a.arg)}` -/\ndef {prefix}_default_{k} : Bool := {'true' if d.value else 'false'}")
            out.leaves.append((f"{prefix}_default_{k}", [f"{a.arg}={_txt(d)}"]))
        elif isinstance(d, ast.Constant) and isinstance(d.value, (int, float)):
            out.defs.append(f"/-- default of parameter {k} `{_doc(a.arg)}` -/\ndef {prefix}_default_{k} : α := {_lit(d.value)}")
            out.leaves.append((f"{prefix}_default_{k}", [f"{a.arg}={_txt(d)}"]))
    block(cfn.body, "", {})
    return out


def _subst(n, env):
    """AST of an arithmetic expression with the arithmetic definitions of its locals substituted (arithmetic positions only)"""
    if isinstance(n, ast.Name) and n.id in env:
        return copy.deepcopy(env[n.id])
    b = _strip_bcast(n)
    if b is not None and (_is_arith(b) or (isinstance(b, ast.Name) and b.id in env)):
        return _subst(b, env)
    if isinstance(n, ast.UnaryOp) and isinstance(n.op, (ast.USub, ast.UAdd)):
        return ast.copy_location(ast.UnaryOp(op=n.op, operand=_subst(n.operand, env)), n)
    if isinstance(n, ast.BinOp):
        return ast.copy_location(ast.BinOp(left=_subst(n.left, env), op=n.op, right=_subst(n.right, env)), n)
    if isinstance(n, ast.Call) and _dotted(n.func) in _ARITH_CALLS and len(n.args) == 1 and not n.keywords:
        return ast.copy_location(ast.Call(func=n.func, args=[_subst(n.args[0], env)], keywords=[]), n)
    return n


SRC_FUNCS = [("logw", "tempest/state_manager.py", "StateManager", "compute_logw_and_logz"),
             ("res", "tempest/state_manager.py", "StateManager", "compute_results"),
             ("post", "tempest/core.py", "SamplerCore", "compute_posterior"),
             ("evid", "tempest/core.py", "SamplerCore", "compute_evidence")]


def _call_sites():
    """every call `….compute_logw_and_logz(args)` of the package, in (file, line) order: its place, its argument texts, and a
    compiled term for every argument that is a numeric literal (the target temperature `1.0` of the four observation points)"""
    defs, rows = [], []
    root = os.path.join(common.REPO, "tempest")
    k = 0
    for path in sorted(glob.glob(os.path.join(root, "**", "*.py"), recursive=True)):
        rel = os.path.relpath(path, common.REPO)
        with open(path) as fh:
            tree = ast.parse(fh.read(), filename=path)
        owner = {}
        for c in [n for n in tree.body if isinstance(n, ast.ClassDef)]:
            for f in [n for n in c.body if isinstance(n, ast.FunctionDef)]:
                for n in ast.walk(f):
                    owner[id(n)] = f"{c.name}.{f.name}"
        calls = [n for n in ast.walk(tree) if isinstance(n, ast.Call) and isinstance(n.func, ast.Attribute)
                 and n.func.attr == "compute_logw_and_logz"]
        for n in sorted(calls, key=lambda n: (n.lineno, n.col_offset)):
            args = [_txt(a) for a in n.args] + [f"{kw.arg}={_txt(kw.value)}" for kw in n.keywords]
            rows.append((f"site{k}", owner.get(id(n), "<module>"), ", ".join(args)))
            for j, a in enumerate(n.args):
                if isinstance(a, ast.Constant) and isinstance(a.value, (int, float)) and not isinstance(a.value, bool):
                    defs.append(f"/-- argument {j} of call site {k}: `{_doc(rel)}` `{_doc(owner.get(id(n), '<module>'))}` -/\n"
                                f"def site{k}_arg{j} : α := {_lit(a.value)}")
            k += 1
    return defs, rows


def extract_src():
    res = {}
    for prefix, rel, cls, name in SRC_FUNCS:
        fn = _func(_cls(_parse(rel), cls), name)
        res[prefix] = _compile_fn(fn, prefix)
    res["__sites__"] = _call_sites()
    return res


def render_src(res):
    L = ["/- GENERATED by translate/g13_wsites.py (G13b) from /repo's current source — do not edit. -/",
         "import TempestVerif.Sc", "namespace Gen.WeightSrc", "variable {α : Type} [ScT α]", ""]
    for prefix, _rel, cls, name in SRC_FUNCS:
        o = res[prefix]
        L += [f"/-! ### `{cls}.{name}` -/", ""]
        for d in o.defs:
            L += [d, ""]
        L += [f"def {prefix}Canon : List String :=\n  [" + ",\n   ".join(_q(x) for x in o.canon) + "]", ""]
        L += [f"def {prefix}Leaves : List (String × List String) :=\n  [" +
              ",\n   ".join("(" + _q(n) + ", " + _lean_list(t) + ")" for n, t in o.leaves) + "]", ""]
        L += [f"def {prefix}Gathers : List (String × String × String) :=\n  [" +
              ", ".join("(" + ", ".join(_q(x) for x in g) + ")" for g in o.gathers) + "]", ""]
    sdefs, srows = res["__sites__"]
    L += ["/-! ### every call of `compute_logw_and_logz` in the package -/", ""]
    for d in sdefs:
        L += [d, ""]
    L += ["def callSites : List (String × String × String) :=\n  [" +
          ",\n   ".join("(" + ", ".join(_q(x) for x in r) + ")" for r in srows) + "]", ""]
    L += ["end Gen.WeightSrc", ""]
    text = "\n".join(L)
    if "\r" in text or any(ord(c) < 32 and c != "\n" for c in text):
        raise Unavailable("control character in the generated text")
    return text


def generate_src():
    try:
        res = extract_src()
        text = render_src(res)
    except Unavailable as e:
        return ("G13b-weight-source", "unavailable", str(e))
    except (SyntaxError, OSError, RecursionError) as e:
        return ("G13b-weight-source", "unavailable", f"{type(e).__name__}: {e}")
    changed = common.write_if_changed(os.path.join(common.GEN, "WeightSrc.lean"), text)
    n_defs = sum(len(o.defs) for k, o in res.items() if k != "__sites__") + len(res["__sites__"][0])
    n_st = sum(len(o.canon) for k, o in res.items() if k != "__sites__")
    return ("G13b-weight-source", "ok", f"{'re' if changed else ''}generated Gen/WeightSrc.lean ({n_defs} terms, {n_st} statements)")


if __name__ == "__main__":
    import json
    print(json.dumps(extract(), indent=1))
    print(generate())
    print(generate_src())
