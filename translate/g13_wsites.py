"""G13 — the text of `StateManager.compute_logw_and_logz` / `compute_results`, every call site of the weight function in
the package, and the cache discipline of `StateManager`, regenerated from /repo's source (Python `ast` only; C04 second pass).

Emits lean/TempestVerif/Gen/WeightSites.lean:
  * logwSignature        the parameter list of compute_logw_and_logz with defaults (`normalize=True` matters: no caller passes it)
  * logwBody             its statements in `ast.unparse` form, one string per top-level statement (docstring dropped; an `if`
                         is rendered `if <test>: {<stmt>; <stmt>}`).  `Model.Weights` / `Model.WeightsKeys.logwK` mirror THIS text.
  * resultsBody          likewise for compute_results (the cache: `Model.WeightsKeys.computeResults`)
  * logwCallSites        every call `<expr>.compute_logw_and_logz(...)` in tempest/**/*.py:
                         (file, enclosing class.function, unparsed argument list, assignment target)
  * stateWriters         methods of StateManager that write `self._history` / `self._current` (subscript store, `.append`,
                         `.update`, plain assignment) — `__init__` excluded (it creates the cache attribute itself)
  * cacheInvalidators    methods of StateManager that call `self._invalidate_cache()`
  * cacheWriters         methods that assign `self._results_dict`
  * evidenceBody / posteriorHead   `compute_evidence` and the first statements of `compute_posterior` (what is handed out)
The translator never guesses: an unrecognised shape gives status `unavailable` (the dynamic suites then carry the tie alone).
"""
import ast
import glob
import os

from harness import common


class Unavailable(Exception):
    pass


def _parse(rel):
    path = os.path.join(common.REPO, rel)
    with open(path) as fh:
        return ast.parse(fh.read(), filename=path)


def _u(node):
    return ast.unparse(node)


def _cls(tree, name):
    for node in tree.body:
        if isinstance(node, ast.ClassDef) and node.name == name:
            return node
    raise Unavailable(f"class {name} not found")


def _func(cls, name):
    for f in cls.body:
        if isinstance(f, ast.FunctionDef) and f.name == name:
            return f
    raise Unavailable(f"{cls.name}.{name} not found")


def _drop_doc(body):
    if body and isinstance(body[0], ast.Expr) and isinstance(body[0].value, ast.Constant) and isinstance(body[0].value.value, str):
        return body[1:]
    return body


def _flat_stmt(s):
    """one string per top-level statement; compound statements on one line"""
    if isinstance(s, ast.If):
        body = "; ".join(_flat_stmt(x) for x in s.body)
        out = f"if {_u(s.test)}: {{{body}}}"
        if s.orelse:
            out += " else: {" + "; ".join(_flat_stmt(x) for x in s.orelse) + "}"
        return out
    if isinstance(s, ast.For):
        return f"for {_u(s.target)} in {_u(s.iter)}: {{" + "; ".join(_flat_stmt(x) for x in s.body) + "}"
    if isinstance(s, (ast.While, ast.With, ast.Try, ast.FunctionDef, ast.ClassDef)):
        raise Unavailable(f"unexpected compound statement {type(s).__name__}")
    return _u(s)


def _signature(fn):
    a = fn.args
    if a.vararg or a.kwarg or a.kwonlyargs or a.posonlyargs:
        raise Unavailable(f"{fn.name}: unexpected parameter kinds")
    names = [x.arg for x in a.args]
    defaults = [None] * (len(names) - len(a.defaults)) + [_u(d) for d in a.defaults]
    return [n if d is None else f"{n}={d}" for n, d in zip(names, defaults)]


def _is_self_attr(node, attr):
    return isinstance(node, ast.Attribute) and node.attr == attr and isinstance(node.value, ast.Name) and node.value.id == "self"


def _writes_state(fn):
    """does the method write self._history / self._current (or their items)?"""
    for n in ast.walk(fn):
        tgts = []
        if isinstance(n, ast.Assign):
            tgts = n.targets
        elif isinstance(n, (ast.AugAssign, ast.AnnAssign)):
            tgts = [n.target]
        for t in tgts:
            base = t
            while isinstance(base, ast.Subscript):
                base = base.value
            if _is_self_attr(base, "_history") or _is_self_attr(base, "_current"):
                return True
        if isinstance(n, ast.Call) and isinstance(n.func, ast.Attribute) and n.func.attr in ("append", "update", "extend", "pop", "clear",
                                                                                               "insert", "setdefault", "remove"):
            base = n.func.value
            while isinstance(base, ast.Subscript):
                base = base.value
            if _is_self_attr(base, "_history") or _is_self_attr(base, "_current"):
                return True
    return False


def extract():
    t = {}
    sm = _parse("tempest/state_manager.py")
    cls = _cls(sm, "StateManager")
    fn = _func(cls, "compute_logw_and_logz")
    t["logwSignature"] = _signature(fn)
    t["logwBody"] = [_flat_stmt(s) for s in _drop_doc(fn.body)]
    t["resultsBody"] = [_flat_stmt(s) for s in _drop_doc(_func(cls, "compute_results").body)]
    t["invalidateBody"] = [_flat_stmt(s) for s in _drop_doc(_func(cls, "_invalidate_cache").body)]
    writers, invalidators, cache_writers = [], [], []
    for f in cls.body:
        if not isinstance(f, ast.FunctionDef):
            continue
        if f.name != "__init__" and _writes_state(f):
            writers.append(f.name)
        if any(isinstance(n, ast.Call) and _is_self_attr(n.func, "_invalidate_cache") for n in ast.walk(f)):
            invalidators.append(f.name)
        for n in ast.walk(f):
            if isinstance(n, ast.Assign) and any(_is_self_attr(x, "_results_dict") for x in n.targets):
                cache_writers.append(f.name)
                break
    t["stateWriters"] = sorted(writers)
    t["cacheInvalidators"] = sorted(invalidators)
    t["cacheWriters"] = sorted(cache_writers)

    # every call site of the weight function in the package
    sites = []
    root = os.path.join(common.REPO, "tempest")
    for path in sorted(glob.glob(os.path.join(root, "**", "*.py"), recursive=True)):
        rel = os.path.relpath(path, common.REPO)
        with open(path) as fh:
            tree = ast.parse(fh.read(), filename=path)
        for c in [n for n in tree.body if isinstance(n, ast.ClassDef)]:
            for f in [n for n in c.body if isinstance(n, ast.FunctionDef)]:
                for n in ast.walk(f):
                    if isinstance(n, ast.Assign) and isinstance(n.value, ast.Call) and isinstance(n.value.func, ast.Attribute) \
                            and n.value.func.attr == "compute_logw_and_logz":
                        call = n.value
                        args = ", ".join([_u(a) for a in call.args] + [f"{k.arg}={_u(k.value)}" for k in call.keywords])
                        sites.append((n.lineno, rel, f"{c.name}.{f.name}", args, _u(n.targets[0])))
        # a call whose result is not assigned would be invisible above: count all calls and compare
        n_calls = sum(1 for n in ast.walk(tree) if isinstance(n, ast.Call) and isinstance(n.func, ast.Attribute)
                      and n.func.attr == "compute_logw_and_logz")
        n_seen = sum(1 for s in sites if s[1] == rel)
        if n_calls != n_seen:
            raise Unavailable(f"{rel}: {n_calls} calls of compute_logw_and_logz, {n_seen} of them plain assignments inside methods")
    t["logwCallSites"] = [(rel, where, args, tgt) for _, rel, where, args, tgt in sorted(sites, key=lambda s: (s[1], s[0]))]

    core = _cls(_parse("tempest/core.py"), "SamplerCore")
    t["evidenceBody"] = [_flat_stmt(s) for s in _drop_doc(_func(core, "compute_evidence").body)]
    post = _drop_doc(_func(core, "compute_posterior").body)
    if len(post) < 3:
        raise Unavailable("compute_posterior: fewer than three statements")
    t["posteriorHead"] = [_flat_stmt(s) for s in post[:3]]
    return t


def _q(s):
    return '"' + s.replace("\\", "\\\\").replace('"', '\\"') + '"'


def _lean_list(xs):
    return "[" + ", ".join(_q(x) for x in xs) + "]"


def render(t):
    L = ["/- GENERATED by translate/g13_wsites.py from /repo's current source — do not edit. -/",
         "namespace Gen.WeightSites", ""]
    for k in ("logwSignature", "logwBody", "resultsBody", "invalidateBody", "stateWriters", "cacheInvalidators", "cacheWriters",
              "evidenceBody", "posteriorHead"):
        L.append(f"def {k} : List String := {_lean_list(t[k])}")
    L.append("def logwCallSites : List (String × String × String × String) := [" +
             ", ".join("(" + ", ".join(_q(x) for x in s) + ")" for s in t["logwCallSites"]) + "]")
    L += ["", "end Gen.WeightSites", ""]
    return "\n".join(L)


def generate():
    try:
        t = extract()
    except Unavailable as e:
        return ("G13-weight-sites", "unavailable", str(e))
    except (SyntaxError, OSError) as e:
        return ("G13-weight-sites", "unavailable", f"{type(e).__name__}: {e}")
    changed = common.write_if_changed(os.path.join(common.GEN, "WeightSites.lean"), render(t))
    return ("G13-weight-sites", "ok", f"{'re' if changed else ''}generated Gen/WeightSites.lean ({len(t['logwBody'])} statements, "
                                      f"{len(t['logwCallSites'])} call sites)")


if __name__ == "__main__":
    import json
    print(json.dumps(extract(), indent=1))
    print(generate())
