"""G19 — the beta == 0 branch of `tempest/steps/mutate.py: Mutator.run` (prior draws, the redraw loop of /repo 959029e, the
replacement of -inf draws, the evidence correction) read from /repo's current source (Python `ast` only), property C11.

Emits lean/TempestVerif/Gen/WarmupSrc.lean:

  * TERMS (over `Nat` for counters, `List Bool` for the mask `np.isinf(logl)`, `List Nat` for index vectors, `Sc α`/`ScT α`
    for the evidence): `betaTest` (which branch is the warm-up), `firstDrawShape`, `nextDrawShape` (arguments of the two
    `np.random.rand`), `nDrawnInit`, `whileTest`, `capTest`, `nDrawnNext` (the redraw loop: its test, the cap with its
    literal, the counter), `callsAfter` (the value written to `calls`), `logzCond` (path condition of the write of `logz`:
    `np.any(mask) or n_drawn > n_particles`), `choiceCond` (path condition of the `np.random.choice` call: the former and
    `len(infinite_idx) > 0`), `choicePool`, `choiceSize` (what is drawn from and how many), `scatterIdx` (the rows
    overwritten), `logzArg`, `logzSet` (the value `np.log(n_finite / n_total)` and the argument of its logarithm).
  * TABLES (`List String`): `firstBlock` / `nextBlock` (how a block of prior draws is made: draw → prior transform of every
    row → likelihood, before the loop and inside it), `preLoop`, `loopBody`, `postLoop` (every side effect — random draws,
    likelihood calls, `raise`, in-place stores, state writes — in program order, each with its path condition),
    `choiceArgs` (arguments of `np.random.choice` bound to numpy's parameter names), `warmupExit` (how the branch ends).
  `Props/C11Source.lean` proves for EVERY scalar type that `Model.WarmupR.drawLoop/draw`, `Model.Warmup.batchZR` and
  `Model.PipelineR.hasFin/warmupL` unfold to these terms.

HOW the source is read.  Not statement by statement: a small substituting evaluator walks the branch, keeps for every local
name the expression it currently holds written over the INPUTS of the branch (`self.n_particles`, `self.n_dim`, the value of
each `np.random.rand` call, the block the redraw loop has at hand, its counter, the state), inlines calls of methods of the
same class (`self._draw_prior_batch()`, `self._run_warmup()`, …), turns `if c: return` + rest into the conditional it is,
and brings tests to negation normal form (`not (a or b)` = `not a and not b`; a negated comparison of two COUNTERS is the
flipped comparison — exact on integers).  Consequently local names, temporaries (`n_total = n_drawn`,
`all_idx = np.arange(len(x))`), comments, formatting, helper extraction, `for i in range(n): f(u[i])` versus
`for row in u: f(row)` and an early `return` versus a nested `if` do not change the generated file, while a literal, an
operator, an operand order, a comparison, an index vector, the order of effects or a dropped/duplicated statement does.

The translator never guesses: a construct outside its small language makes it return status `unavailable` with the construct
named.  It decides nothing about correctness: a source that is readable but different yields a different generated file and
a failing theorem; a construct the model needs and the source no longer has (no loop, no write of `logz`, …) yields a file
WITHOUT the corresponding term, and the theorem that names it no longer compiles.
"""
import ast
import builtins
import copy
import os
import sys
from fractions import Fraction

from harness import common
from .g5_tables import Unavailable, _parse, _name

NAME = "G19-warmup-source"
AT = "§"                       # prefix of input atoms (cannot occur in a Python identifier)

# atoms: the block the loop has at hand / has kept, by ROLE (never by the local name the source happens to use)
ROLE_ATOM = {"u": "u", "x": "x", "logl": "logl", "blobs": "blobs", "nd": "n_drawn"}
CHOICE_SIG = (["a", "size", "replace", "p"], {"size": ast.Constant(value=None), "replace": ast.Constant(value=True),
                                              "p": ast.Constant(value=None)})


def _atom(s):
    return ast.Name(id=AT + s, ctx=ast.Load())


def _is_atom(n, s=None):
    return isinstance(n, ast.Name) and n.id.startswith(AT) and (s is None or n.id == AT + s)


def _dump(n):
    return ast.dump(n, annotate_fields=False)


def _is_doc(st):
    return isinstance(st, ast.Expr) and isinstance(st.value, ast.Constant) and isinstance(st.value.value, str)


def _call_of(n, *names):
    return isinstance(n, ast.Call) and _name(n.func) in names


def _replace(node, table):
    """copy of `node` with every subtree whose dump is a key of `table` replaced by (a copy of) the value"""
    class R(ast.NodeTransformer):
        def visit(self, n):
            d = _dump(n)
            if d in table:
                return copy.deepcopy(table[d])
            return super().visit(n)
    return R().visit(copy.deepcopy(node))


_FORBIDDEN = (ast.Lambda, ast.SetComp, ast.DictComp, ast.GeneratorExp, ast.NamedExpr, ast.Await, ast.Yield, ast.YieldFrom,
              ast.Starred)
_FLIP = {ast.Lt: ast.GtE, ast.GtE: ast.Lt, ast.Gt: ast.LtE, ast.LtE: ast.Gt, ast.Eq: ast.NotEq, ast.NotEq: ast.Eq}


# ------------------------------------------------------------------------------------------------- typed compilers → Lean
def _lit(v):
    """a Python numeric literal as an exact term of `Sc α`"""
    if isinstance(v, bool) or not isinstance(v, (int, float)):
        raise Unavailable(f"literal {v!r} is not numeric")
    f = float(v)
    if f != f or f in (float("inf"), float("-inf")) or f < 0:
        raise Unavailable(f"literal {v!r} outside the literal language")
    if f == int(f) and f < 2 ** 53:
        return f"(Sc.ofNat {int(f)})"
    r = repr(f)
    if "e" in r or "E" in r:
        raise Unavailable(f"literal {v!r}: exponent form of a non-integer")
    whole, frac = r.split(".")
    m, e = int(whole + frac), len(frac)
    if Fraction(m, 10 ** e) != Fraction(r):
        raise Unavailable(f"literal {v!r}: decimal expansion not exact")
    return f"(Sc.lit {m} {e})"


def _is_state_read(n, key):
    return (isinstance(n, ast.Call) and (_name(n.func) or "").endswith("state.get_current") and len(n.args) == 1
            and not n.keywords and isinstance(n.args[0], ast.Constant) and n.args[0].value == key)


class Comp:
    """compiles closed expressions over the atoms to Lean terms.  Counters are `Nat`, `np.isinf(<logl of the block>)` is the
       mask `inf : List Bool`, `np.arange(N)[mask]` an index vector `List Nat`."""
    NATS = {AT + "n": "n", AT + "d": "d", AT + "n_drawn": "nd", AT + "rows": "rows"}

    def show(self, n):
        return _show(n)

    def nat(self, n):
        if isinstance(n, ast.Name) and n.id in self.NATS:
            return self.NATS[n.id]
        if _is_state_read(n, "calls"):
            return "calls"
        if isinstance(n, ast.Constant) and isinstance(n.value, int) and not isinstance(n.value, bool) and n.value >= 0:
            return str(n.value)
        if isinstance(n, ast.BinOp) and isinstance(n.op, (ast.Add, ast.Sub, ast.Mult)):
            op = {ast.Add: "+", ast.Sub: "-", ast.Mult: "*"}[type(n.op)]
            return f"({self.nat(n.left)} {op} {self.nat(n.right)})"
        if _call_of(n, "len") and len(n.args) == 1 and not n.keywords:
            for f in (self.idx, self.mask):
                try:
                    return f"{f(n.args[0])}.length"
                except Unavailable:
                    pass
        if _call_of(n, "np.sum", "np.count_nonzero") and len(n.args) == 1 and not n.keywords:
            return f"(maskCount {self.mask(n.args[0])})"
        raise Unavailable(f"`{_show(n)}` is not a counter expression")

    def is_nat(self, n):
        try:
            self.nat(n)
            return True
        except Unavailable:
            return False

    def mask(self, n):
        if _call_of(n, "np.isinf") and len(n.args) == 1 and not n.keywords and _is_atom(n.args[0], "logl"):
            return "inf"
        if isinstance(n, ast.UnaryOp) and isinstance(n.op, ast.Invert):
            return f"(maskNot {self.mask(n.operand)})"
        if _call_of(n, "np.logical_not", "np.invert") and len(n.args) == 1 and not n.keywords:
            return f"(maskNot {self.mask(n.args[0])})"
        raise Unavailable(f"`{_show(n)}` is not a mask over the block's log-likelihoods")

    def idx(self, n):
        if isinstance(n, ast.Subscript) and _call_of(n.value, "np.arange") and len(n.value.args) == 1 and not n.value.keywords:
            return f"(whereIdx {self.nat(n.value.args[0])} {self.mask(n.slice)})"
        if _call_of(n, "np.arange") and len(n.args) == 1 and not n.keywords:
            return f"(List.range {self.nat(n.args[0])})"
        raise Unavailable(f"`{_show(n)}` is not an index vector np.arange(N)[mask]")

    def scal(self, n):
        if _is_atom(n, "beta"):
            return "beta"
        if _is_state_read(n, "logz"):
            return "logzRw"
        if self.is_nat(n):
            return f"(Sc.ofNat {self.nat(n)})"
        if isinstance(n, ast.Constant):
            return _lit(n.value)
        if isinstance(n, ast.UnaryOp) and isinstance(n.op, ast.USub):
            return f"(Sc.neg {self.scal(n.operand)})"
        if isinstance(n, ast.BinOp):
            op = {ast.Add: "Sc.add", ast.Sub: "Sc.sub", ast.Mult: "Sc.mul", ast.Div: "Sc.div"}.get(type(n.op))
            if op is None:
                raise Unavailable(f"operator {type(n.op).__name__} in `{_show(n)}`")
            a = self.scal(n.left)
            b = self.scal(n.right)
            return f"({op} {a} {b})"
        if isinstance(n, ast.Call) and len(n.args) == 1 and not n.keywords:
            f = _name(n.func)
            if f in ("np.log", "math.log"):
                return f"(ScT.log {self.scal(n.args[0])})"
            if f in ("np.exp", "math.exp"):
                return f"(ScT.exp {self.scal(n.args[0])})"
            if f in ("float", "np.float64"):
                return self.scal(n.args[0])
        raise Unavailable(f"`{_show(n)}` is outside the scalar expression language")

    def test(self, n):
        if isinstance(n, ast.Constant) and isinstance(n.value, bool):
            return "true" if n.value else "false"
        if isinstance(n, ast.BoolOp):
            op = "&&" if isinstance(n.op, ast.And) else "||"
            out = self.test(n.values[0])
            for v in n.values[1:]:
                out = f"({out} {op} {self.test(v)})"
            return out
        if isinstance(n, ast.UnaryOp) and isinstance(n.op, ast.Not):
            return f"(!{self.test(n.operand)})"
        if _call_of(n, "np.all", "np.any") and len(n.args) == 1 and not n.keywords:
            return f"({'npAll' if _name(n.func) == 'np.all' else 'npAny'} {self.mask(n.args[0])})"
        if isinstance(n, ast.Call) and isinstance(n.func, ast.Attribute) and n.func.attr in ("all", "any") \
                and not n.args and not n.keywords:
            return f"({'npAll' if n.func.attr == 'all' else 'npAny'} {self.mask(n.func.value)})"
        if not (isinstance(n, ast.Compare) and len(n.ops) == 1):
            raise Unavailable(f"test `{_show(n)}` is outside the test language")
        l, r, op = n.left, n.comparators[0], type(n.ops[0])
        if self.is_nat(l) and self.is_nat(r):
            rel = {ast.Lt: "<", ast.LtE: "≤", ast.Gt: ">", ast.GtE: "≥", ast.Eq: "=", ast.NotEq: "≠"}.get(op)
            if rel is None:
                raise Unavailable(f"comparison {op.__name__} in `{_show(n)}`")
            return f"decide ({self.nat(l)} {rel} {self.nat(r)})"
        a = self.scal(l)
        b = self.scal(r)
        if op is ast.Eq:
            return f"(Sc.le {a} {b} && Sc.le {b} {a})"
        if op is ast.NotEq:
            return f"(!(Sc.le {a} {b} && Sc.le {b} {a}))"
        f = {ast.Lt: "Sc.lt", ast.LtE: "Sc.le", ast.Gt: "Sc.gt", ast.GtE: "Sc.ge"}.get(op)
        if f is None:
            raise Unavailable(f"comparison {op.__name__} in `{_show(n)}`")
        return f"({f} {a} {b})"


COMP = Comp()


def nnf(e, neg=False):
    """negation normal form of a test; a negated comparison is flipped only between two COUNTERS (exact on integers)"""
    if isinstance(e, ast.UnaryOp) and isinstance(e.op, ast.Not):
        return nnf(e.operand, not neg)
    if isinstance(e, ast.BoolOp):
        op = e.op
        if neg:
            op = ast.Or() if isinstance(e.op, ast.And) else ast.And()
        return ast.BoolOp(op=op, values=[nnf(v, neg) for v in e.values])
    if neg and isinstance(e, ast.Compare) and len(e.ops) == 1 and type(e.ops[0]) in _FLIP \
            and COMP.is_nat(e.left) and COMP.is_nat(e.comparators[0]):
        return ast.Compare(left=e.left, ops=[_FLIP[type(e.ops[0])]()], comparators=e.comparators)
    if neg and isinstance(e, ast.Constant) and isinstance(e.value, bool):
        return ast.Constant(value=not e.value)
    return ast.UnaryOp(op=ast.Not(), operand=e) if neg else e


def _negativity(e):
    return sum(isinstance(x, ast.Not) for x in ast.walk(e))


def canon_test(test):
    """→ (representative, polarity of the `then` branch): of the two normal forms `test` / `not test` the representative is
       the one with fewer negations (`test` itself on a tie)"""
    p, q = nnf(test, False), nnf(test, True)
    if _negativity(q) < _negativity(p):
        return q, False
    return p, True


# ------------------------------------------------------------------------------------------------- canonical text
class _Namer:
    """expressions that get a name in the printed tables (by structural equality)"""

    def __init__(self):
        self.table = {}

    def add(self, node, name):
        self.table.setdefault(_dump(node), ast.Name(id=name, ctx=ast.Load()))


NAMER = _Namer()


def _show(n, namer=True):
    """canonical one-line text of a closed expression: named subexpressions by their names, atoms by their roles, no `self.`"""
    if namer and NAMER.table:
        n = _replace(n, NAMER.table)
    s = " ".join(ast.unparse(n).split())
    return s.replace(AT, "").replace("self.", "")


# ------------------------------------------------------------------------------------------------- substituting evaluator
class Evaluator:
    MAX_INLINE = 4

    def __init__(self, methods, known):
        self.known = set(known) | set(dir(builtins)) | {"self"}
        self.methods = methods                  # name → FunctionDef (plain methods of the class: may be inlined)
        self.effects = []                       # [(guards, kind, payload)]  guards: tuple of (dump(rep), positive)
        self.guard_nodes = {}                   # dump(rep) → rep
        self.draw_shape = {}                    # k → [arg nodes] of the k-th np.random.rand
        self.choice = None                      # (guards, bound args) of the single np.random.choice
        self.loop = None
        self.pre = None
        self.calldepth = 0
        self.in_comp = 0                        # > 0 while the element expression of a comprehension is being read
        self._guards = ()

    # ---- effects
    def effect(self, kind, payload, guards=None):
        self.effects.append((tuple(self._guards if guards is None else guards), kind, payload))

    def guard(self, test, then_branch):
        rep, pol = canon_test(test)
        self.guard_nodes.setdefault(_dump(rep), rep)
        return (_dump(rep), pol if then_branch else not pol), rep, pol

    # ---- expressions
    def subst(self, node, env):
        for n in ast.walk(node):
            if isinstance(n, _FORBIDDEN):
                raise Unavailable(f"line {getattr(n, 'lineno', '?')}: {type(n).__name__} is outside the expression language")
        return self._sub(copy.deepcopy(node), env)

    def _len(self, e):
        """`len(e)` simplified where the length is known from how `e` was made"""
        if isinstance(e, ast.Name) and e.id.startswith(AT + "draw"):
            shape = self.draw_shape.get(int(e.id[len(AT) + 4:]), [])
            if shape:
                return copy.deepcopy(shape[0])
        if isinstance(e, ast.Name) and e.id in (AT + "u", AT + "x", AT + "logl", AT + "blobs"):
            return _atom("rows")
        if _call_of(e, "np.array", "np.asarray") and len(e.args) == 1 and not e.keywords:
            return self._len(e.args[0])
        if _call_of(e, AT + "rowmap"):
            return copy.deepcopy(e.args[2])
        if _call_of(e, "np.arange") and len(e.args) == 1 and not e.keywords:
            return copy.deepcopy(e.args[0])
        return ast.Call(func=ast.Name(id="len", ctx=ast.Load()), args=[e], keywords=[])

    def _listcomp(self, n, env):
        if len(n.generators) != 1:
            raise Unavailable(f"line {n.lineno}: comprehension with {len(n.generators)} generators")
        g = n.generators[0]
        if g.ifs or g.is_async or not isinstance(g.target, ast.Name):
            raise Unavailable(f"line {n.lineno}: comprehension `{ast.unparse(n)}` is not a plain map")
        it = self._sub(g.iter, env)
        env2 = dict(env)
        self.in_comp += 1
        try:
            return self._listcomp_body(n, g, it, env2)
        finally:
            self.in_comp -= 1

    def _listcomp_body(self, n, g, it, env2):
        if _call_of(it, "range") and len(it.args) == 1 and not it.keywords:
            env2[g.target.id] = _atom("it")
            elt = self._sub(n.elt, env2)
            subs = [x for x in ast.walk(elt) if isinstance(x, ast.Subscript) and _is_atom(x.slice, "it")]
            uses = sum(1 for x in ast.walk(elt) if _is_atom(x, "it"))
            if not subs or len({_dump(x.value) for x in subs}) != 1 or uses != len(subs):
                raise Unavailable(f"line {n.lineno}: comprehension over range() `{ast.unparse(n)}` is not a map over the rows of one array")
            src, count = subs[0].value, it.args[0]
            elt = _replace(elt, {_dump(subs[0]): _atom("row")})
        else:
            env2[g.target.id] = _atom("row")
            elt = self._sub(n.elt, env2)
            src, count = it, self._len(it)
        return ast.Call(func=_atom("rowmap"), args=[elt, src, count], keywords=[])

    def _sub(self, n, env):
        if isinstance(n, ast.Name):
            if isinstance(n.ctx, ast.Load) and n.id in env:
                return copy.deepcopy(env[n.id])
            if isinstance(n.ctx, ast.Load) and not n.id.startswith(AT) and n.id not in self.known:
                raise Unavailable(f"line {getattr(n, 'lineno', '?')}: `{n.id}` is read where it has no value")
            return n
        if isinstance(n, ast.Attribute):
            nm = _name(n)
            if nm == "self.n_particles":
                return _atom("n")
            if nm == "self.n_dim":
                return _atom("d")
        if isinstance(n, ast.ListComp):
            return self._listcomp(n, env)
        if isinstance(n, ast.JoinedStr):
            return ast.Constant(value="<f-string>")
        if isinstance(n, ast.Call):
            if not isinstance(n.func, ast.Name):
                n.func = self._sub(n.func, env)
            n.args = [self._sub(a, env) for a in n.args]
            for k in n.keywords:
                if k.arg is None:
                    raise Unavailable("`**kwargs` in a call")
                k.value = self._sub(k.value, env)
            return self._call(n)
        for field, old in ast.iter_fields(n):
            if isinstance(old, list):
                setattr(n, field, [self._sub(x, env) if isinstance(x, ast.AST) else x for x in old])
            elif isinstance(old, ast.AST):
                setattr(n, field, self._sub(old, env))
        return n

    def _call(self, n):
        fn = _name(n.func)
        if fn in ("np.random.rand", "numpy.random.rand"):
            if n.keywords:
                raise Unavailable("np.random.rand with keywords")
            k = len(self.draw_shape)
            self.draw_shape[k] = n.args
            a = _atom(f"draw{k}")
            self.effect("draw", (k, n))
            return a
        if fn is not None and fn.startswith(("np.random.", "numpy.random.")):
            if fn.split(".")[-1] != "choice":
                raise Unavailable(f"random call `{fn}` the model has no counterpart for")
            if self.choice is not None:
                raise Unavailable("np.random.choice is called at more than one place of the warm-up branch")
            bound = _bind_args(n, CHOICE_SIG, "np.random.choice")
            self.choice = (tuple(self._guards), bound)
            self.effect("choice", bound)
            return _atom("picks")
        if fn == "len" and len(n.args) == 1 and not n.keywords:
            return self._len(n.args[0])
        if fn is not None and fn.startswith("self.") and fn.count(".") == 1 and fn[5:] in self.methods:
            return self._inline(self.methods[fn[5:]], n)
        if fn in ("self.log_likelihood", "self.prior_transform") and self.in_comp == 0:
            self.effect("call", n)
        return n

    def _inline(self, fdef, call):
        if self.calldepth >= self.MAX_INLINE:
            raise Unavailable(f"helper calls nested deeper than {self.MAX_INLINE} at `{fdef.name}`")
        a = fdef.args
        if a.vararg or a.kwarg or a.posonlyargs or a.kwonlyargs:
            raise Unavailable(f"helper `{fdef.name}`: signature outside the language")
        params = [x.arg for x in a.args][1:]
        defaults = dict(zip(params[len(params) - len(a.defaults):], a.defaults)) if a.defaults else {}
        env = {}
        if len(call.args) > len(params):
            raise Unavailable(f"helper `{fdef.name}`: too many arguments")
        for p, v in zip(params, call.args):
            env[p] = v
        for k in call.keywords:
            if k.arg not in params or k.arg in env:
                raise Unavailable(f"helper `{fdef.name}`: keyword {k.arg!r}")
            env[k.arg] = k.value
        for p in params:
            if p not in env:
                if p not in defaults:
                    raise Unavailable(f"helper `{fdef.name}`: parameter {p!r} unbound")
                env[p] = copy.deepcopy(defaults[p])
        self.calldepth += 1
        try:
            st, val = self.block(fdef.body, env, self._guards, toplevel=True)
        finally:
            self.calldepth -= 1
        if st == "raise":
            raise Unavailable(f"helper `{fdef.name}` always raises")
        return val if st == "ret" else ast.Constant(value=None)

    # ---- statements
    def _assign(self, tgt, value, env, st):
        if isinstance(tgt, ast.Name):
            env[tgt.id] = value
        elif isinstance(tgt, (ast.Tuple, ast.List)):
            if isinstance(value, (ast.Tuple, ast.List)) and len(tgt.elts) == len(value.elts):
                for t, v in zip(tgt.elts, value.elts):
                    self._assign(t, v, env, st)
            elif isinstance(value, ast.Call):
                for k, t in enumerate(tgt.elts):
                    self._assign(t, ast.Subscript(value=value, slice=ast.Constant(value=k), ctx=ast.Load()), env, st)
            else:
                raise Unavailable(f"line {st.lineno}: cannot unpack `{_show(value)}`")
        elif isinstance(tgt, ast.Subscript) and isinstance(tgt.value, ast.Name) and isinstance(env.get(tgt.value.id), ast.Dict) \
                and isinstance(tgt.slice, ast.Constant):
            d = copy.deepcopy(env[tgt.value.id])
            keys = [k.value if isinstance(k, ast.Constant) else None for k in d.keys]
            if tgt.slice.value in keys:
                d.values[keys.index(tgt.slice.value)] = value
            else:
                d.keys.append(ast.Constant(value=tgt.slice.value))
                d.values.append(value)
            env[tgt.value.id] = d
        elif isinstance(tgt, ast.Subscript):
            self.effect("store", (self.subst(tgt.value, env), self.subst(tgt.slice, env), value))
        else:
            raise Unavailable(f"line {st.lineno}: assignment target `{ast.unparse(tgt)}` outside the language")

    def _write_rows(self, d, guards):
        """state writes of `update_current(d)`: a dict literal, or a conditional between dict literals"""
        if isinstance(d, ast.Dict):
            if not all(isinstance(k, ast.Constant) and isinstance(k.value, str) for k in d.keys):
                raise Unavailable(f"update_current with a non-literal key: `{_show(d)}`")
            for k, v in zip(d.keys, d.values):
                self.effect("write", (k.value, v), guards)
            return
        if isinstance(d, ast.IfExp) and isinstance(d.body, ast.Dict) and isinstance(d.orelse, ast.Dict):
            g = (_dump(d.test), True)
            self.guard_nodes.setdefault(_dump(d.test), d.test)
            kb = {k.value: v for k, v in zip(d.body.keys, d.body.values) if isinstance(k, ast.Constant)}
            ko = {k.value: v for k, v in zip(d.orelse.keys, d.orelse.values) if isinstance(k, ast.Constant)}
            if len(kb) != len(d.body.keys) or len(ko) != len(d.orelse.keys):
                raise Unavailable(f"update_current with a non-literal key: `{_show(d)}`")
            for k in list(dict.fromkeys(list(kb) + list(ko))):
                if k in kb and k in ko and _dump(kb[k]) == _dump(ko[k]):
                    self.effect("write", (k, kb[k]), guards)
                else:
                    if k in kb:
                        self.effect("write", (k, kb[k]), tuple(guards) + (g,))
                    if k in ko:
                        self.effect("write", (k, ko[k]), tuple(guards) + ((g[0], False),))
            return
        raise Unavailable(f"update_current(`{_show(d)}`): the argument is not a dict literal")

    def _stmt_call(self, v, guards):
        fn = _name(v.func) or ""
        if fn.endswith("state.update_current") and len(v.args) == 1 and not v.keywords:
            self._write_rows(v.args[0], guards)
        elif fn.endswith("state.set_current") and len(v.args) == 2 and isinstance(v.args[0], ast.Constant) and not v.keywords:
            self.effect("write", (v.args[0].value, v.args[1]), guards)
        elif ".state." in fn or fn.startswith("self.state"):
            raise Unavailable(f"state-changing call `{_show(v)}` the translator cannot attribute to a key")
        elif fn in ("self.log_likelihood", "self.prior_transform"):
            pass                                 # already recorded by _call
        elif fn == "print" or fn.startswith(("warnings.", "logging.", "logger.")):
            pass
        else:
            self.effect("other", v, guards)

    def block(self, stmts, env, guards, toplevel=False):
        """→ ('fall', None) | ('ret', value) | ('raise', exception name).  `env` is updated in place."""
        stmts = [s for s in stmts if not _is_doc(s) and not isinstance(s, ast.Pass)]
        for pos, st in enumerate(stmts):
            self._guards = tuple(guards)
            if isinstance(st, ast.Assign):
                v = self.subst(st.value, env)
                for t in st.targets:
                    self._assign(t, v, env, st)
            elif isinstance(st, ast.AnnAssign):
                if st.value is not None:
                    self._assign(st.target, self.subst(st.value, env), env, st)
            elif isinstance(st, ast.AugAssign):
                if not isinstance(st.target, ast.Name):
                    raise Unavailable(f"line {st.lineno}: augmented assignment to `{ast.unparse(st.target)}`")
                if st.target.id not in env:
                    raise Unavailable(f"line {st.lineno}: `{st.target.id}` updated before it is bound")
                env[st.target.id] = ast.BinOp(left=copy.deepcopy(env[st.target.id]), op=st.op, right=self.subst(st.value, env))
            elif isinstance(st, ast.Expr):
                v = self.subst(st.value, env)
                if isinstance(v, ast.Call):
                    self._stmt_call(v, guards)
                elif not isinstance(v, (ast.Constant, ast.Name, ast.Tuple)):
                    raise Unavailable(f"line {st.lineno}: expression statement `{ast.unparse(st)}`")
            elif isinstance(st, ast.Return):
                return "ret", (self.subst(st.value, env) if st.value is not None else ast.Constant(value=None))
            elif isinstance(st, ast.Raise):
                exc = st.exc.func if isinstance(st.exc, ast.Call) else st.exc
                nm = (_name(exc) if exc is not None else None) or "?"
                self.effect("raise", nm, guards)
                return "raise", nm
            elif isinstance(st, ast.If):
                test = self.subst(st.test, env)
                g1, rep, pol = self.guard(test, True)
                g2 = (g1[0], not g1[1])
                e1, e2 = dict(env), dict(env)
                s1, v1 = self.block(st.body, e1, list(guards) + [g1])
                s2, v2 = self.block(st.orelse, e2, list(guards) + [g2])
                self._guards = tuple(guards)
                if s1 == "fall" and s2 == "fall":
                    for k in list(dict.fromkeys(list(e1) + list(e2))):
                        a, b = e1.get(k), e2.get(k)
                        if a is not None and b is not None and _dump(a) == _dump(b):
                            env[k] = a
                        else:
                            a = a if a is not None else _atom(f"unbound_{k}")
                            b = b if b is not None else _atom(f"unbound_{k}")
                            env[k] = ast.IfExp(test=copy.deepcopy(rep), body=a if pol else b, orelse=b if pol else a)
                    continue
                if s1 != "fall" and s2 != "fall":
                    if s1 == "ret" and s2 == "ret":
                        return "ret", ast.IfExp(test=copy.deepcopy(rep), body=v1 if pol else v2, orelse=v2 if pol else v1)
                    return s1, v1
                if not toplevel:
                    raise Unavailable(f"line {st.lineno}: conditional `return`/`raise` inside a nested block")
                # one branch ends the function: the rest runs under the other branch's condition
                if s1 != "fall":
                    env.clear(); env.update(e2)
                    sr, vr = self.block(stmts[pos + 1:], env, list(guards) + [g2], toplevel=True)
                    ended, val = s1, v1
                else:
                    env.clear(); env.update(e1)
                    sr, vr = self.block(stmts[pos + 1:], env, list(guards) + [g1], toplevel=True)
                    ended, val = s2, v2
                if sr == "fall":
                    if ended == "ret" and not (isinstance(val, ast.Constant) and val.value is None):
                        raise Unavailable(f"line {st.lineno}: a value is returned on one path only")
                    return ("fall", None) if ended == "raise" else ("ret?", None)
                return sr, vr
            elif isinstance(st, ast.While):
                if guards:
                    raise Unavailable(f"line {st.lineno}: `while` under a condition")
                self._while(st, env)
            elif isinstance(st, (ast.Import, ast.ImportFrom)):
                self.known |= {(al.asname or al.name).split(".")[0] for al in st.names}
            else:
                raise Unavailable(f"line {st.lineno}: statement {type(st).__name__} outside the statement language")
        return "fall", None

    # ---- the redraw loop
    def _role(self, v):
        if isinstance(v, ast.Name) and v.id.startswith(AT + "draw"):
            return "u"
        if isinstance(v, ast.Subscript) and _call_of(v.value, "self.log_likelihood") and isinstance(v.slice, ast.Constant):
            return {0: "logl", 1: "blobs"}.get(v.slice.value)
        if any(_call_of(x, AT + "rowmap") or _name(x) == "self.prior_transform" for x in ast.walk(v)):
            return "x"
        if COMP.is_nat(v):
            return "nd"
        return None

    def _while(self, st, env):
        if self.loop is not None:
            raise Unavailable(f"line {st.lineno}: more than one `while` loop in the warm-up branch")
        if st.orelse:
            raise Unavailable("while … else")
        carried = []
        for n in ast.walk(st):
            tg = []
            if isinstance(n, ast.Assign):
                tg = n.targets
            elif isinstance(n, (ast.AugAssign, ast.AnnAssign)):
                tg = [n.target]
            for t in tg:
                for x in ([t] if isinstance(t, ast.Name) else t.elts if isinstance(t, (ast.Tuple, ast.List)) else []):
                    if isinstance(x, ast.Name) and x.id not in carried:
                        carried.append(x.id)
        roles, init = {}, {}
        for nm in carried:
            if nm not in env:
                continue                              # a local of the loop body
            r = self._role(env[nm])
            if r is None:
                raise Unavailable(f"line {st.lineno}: the loop re-assigns `{nm}` (= {_show(env[nm])}): no role in a block of prior draws")
            if r in roles:
                raise Unavailable(f"line {st.lineno}: `{roles[r]}` and `{nm}` both carry the role {r!r} through the loop")
            roles[r], init[r] = nm, env[nm]
        if "nd" not in roles or "logl" not in roles:
            raise Unavailable(f"line {st.lineno}: the loop does not carry both a draw counter and the log-likelihoods of a block")
        lenv = dict(env)
        for r, nm in roles.items():
            lenv[nm] = _atom(ROLE_ATOM[r])
        test = self.subst(st.test, lenv)
        self.pre, self.effects = self.effects, []
        benv = dict(lenv)
        status, _ = self.block(st.body, benv, (), toplevel=True)
        loop_effects, self.effects = self.effects, []
        if status in ("ret", "ret?"):
            raise Unavailable(f"line {st.lineno}: `return` inside the redraw loop")
        self.loop = dict(init=init, test=test, new={r: benv[nm] for r, nm in roles.items()}, effects=loop_effects,
                         status=status, roles=roles)
        for r, nm in roles.items():
            env[nm] = _atom(ROLE_ATOM[r])


def _bind_args(call, sig, what):
    names, dfl = sig
    out = {}
    if len(call.args) > len(names):
        raise Unavailable(f"{what}: too many positional arguments")
    for nm, v in zip(names, call.args):
        out[nm] = v
    for k in call.keywords:
        if k.arg not in names or k.arg in out:
            raise Unavailable(f"{what}: keyword {k.arg!r}")
        out[k.arg] = k.value
    for nm in names:
        if nm not in out:
            if nm not in dfl:
                raise Unavailable(f"{what}: parameter {nm!r} not supplied")
            out[nm] = copy.deepcopy(dfl[nm])
    return out


# ------------------------------------------------------------------------------------------------- extraction
def _module_names(tree):
    out = set()
    for node in tree.body:
        if isinstance(node, (ast.Import, ast.ImportFrom)):
            out |= {(al.asname or al.name).split(".")[0] for al in node.names}
        elif isinstance(node, (ast.FunctionDef, ast.ClassDef)):
            out.add(node.name)
        elif isinstance(node, (ast.Assign, ast.AnnAssign)):
            for t in (node.targets if isinstance(node, ast.Assign) else [node.target]):
                out |= {x.id for x in ast.walk(t) if isinstance(x, ast.Name)}
    return out


def _defn(name, params, ty, body, comment):
    comment = " ".join(str(comment).split()).replace("-/", "- /").replace("/-", "/ -").replace("\\", "/")[:220]
    return f"/-- {comment} -/\ndef {name}{(' ' + params) if params else ''} : {ty} := {body}"


def _block_rows(ev, vals):
    """how a block is made, as text: role = expression, with the draw written `u` and the transformed rows `x` downstream"""
    rows, local = [], {}
    u = vals.get("u")
    if u is not None:
        if isinstance(u, ast.Name) and u.id.startswith(AT + "draw"):
            k = int(u.id[len(AT) + 4:])
            call = ast.Call(func=ast.Name(id="np.random.rand", ctx=ast.Load()), args=ev.draw_shape[k], keywords=[])
            rows.append("u = " + _show(call))
        else:
            rows.append("u = " + _show(u))
        local[_dump(u)] = ast.Name(id="u", ctx=ast.Load())
    for r in ("x", "logl", "blobs"):
        v = vals.get(r)
        if v is None:
            continue
        rows.append(f"{r} = " + _show(_replace(v, local)))
        if r == "x":
            local[_dump(v)] = ast.Name(id="x", ctx=ast.Load())
            NAMER.add(v, "x")
    if u is not None and not _is_atom(u, "u"):
        NAMER.add(u, "u")
    return rows


def _effect_rows(ev, effects):
    """effects in program order, each with its path condition; the conditions that guard some effect first, numbered by first use"""
    order = []
    for guards, _k, _p in effects:
        for d, _pol in guards:
            if d not in order:
                order.append(d)
    ren = {d: f"C{k}" for k, d in enumerate(order)}
    rows = [f"{ren[d]} := {_show(ev.guard_nodes[d])}" for d in order]
    for guards, kind, p in effects:
        if kind == "draw":
            text = "u = " + _show(ast.Call(func=ast.Name(id="np.random.rand", ctx=ast.Load()), args=p[1].args, keywords=[]))
        elif kind == "call":
            text = "call " + _show(p)
        elif kind == "choice":
            text = "picks = np.random.choice(" + ", ".join(f"{k}={_show(v)}" for k, v in p.items()) + ")"
        elif kind == "store":
            text = f"{_show(p[0])}[{_show(p[1])}] := {_show(p[2])}"
        elif kind == "write":
            text = f"current[{p[0]!r}] := {_show(p[1])}"
        elif kind == "raise":
            text = f"raise {p}"
        else:
            text = _show(p)
        gs = [("" if pol else "!") + ren[d] for d, pol in guards]
        rows.append((f"[{' '.join(gs)}] " if gs else "") + text)
    return rows


def _cond(ev, guards):
    """a path condition as one Lean Bool term"""
    if not guards:
        return "true", "True"
    terms, texts = [], []
    for d, pol in guards:
        t = COMP.test(ev.guard_nodes[d])
        terms.append(t if pol else f"(!{t})")
        texts.append(("" if pol else "not ") + "(" + _show(ev.guard_nodes[d]) + ")")
    out = terms[0]
    for t in terms[1:]:
        out = f"({out} && {t})"
    return out, " and ".join(texts)


LOOPCTX = "(n d nd : Nat) (inf : List Bool)"
POSTCTX = "(n d nd rows calls : Nat) (inf : List Bool)"


def extract():
    NAMER.table.clear()
    tree = _parse("tempest/steps/mutate.py")
    cls = next((c for c in tree.body if isinstance(c, ast.ClassDef) and c.name == "Mutator"), None)
    if cls is None:
        raise Unavailable("class Mutator not found")
    methods, run = {}, None
    for f in cls.body:
        if isinstance(f, ast.FunctionDef):
            if f.name == "run":
                run = f
            elif not f.decorator_list and f.name != "__init__":
                methods[f.name] = f
    if run is None:
        raise Unavailable("Mutator.run not found")
    ev = Evaluator(methods, _module_names(tree))
    env = {}
    body = [s for s in run.body if not _is_doc(s) and not isinstance(s, ast.Pass)]
    branch = None
    for pos, st in enumerate(body):
        if isinstance(st, ast.If):
            test = ev.subst(st.test, env)
            if any(_is_state_read(x, "beta") for x in ast.walk(test)):
                branch = (pos, st, test)
                break
            raise Unavailable(f"line {st.lineno}: a conditional precedes the test of the current beta")
        if isinstance(st, (ast.Assign, ast.AnnAssign)) and st.value is not None:
            ev.block([st], env, ())
        else:
            raise Unavailable(f"line {st.lineno}: statement {type(st).__name__} precedes the test of the current beta")
    if branch is None:
        raise Unavailable("Mutator.run: no conditional on self.state.get_current('beta')")
    pos, ifst, test = branch
    beta_read = next(x for x in ast.walk(test) if _is_state_read(x, "beta"))
    test_b = _replace(test, {_dump(beta_read): _atom("beta")})
    defs, tabs = [], {}
    defs.append(_defn("betaTest", "[Sc α] (beta : α)", "Bool", COMP.test(test_b),
                      "if " + _show(test_b) + ": <the warm-up branch>   (beta = state.get_current('beta'))"))

    status, _ = ev.block(ifst.body, env, (), toplevel=True)
    if status == "raise":
        raise Unavailable("the warm-up branch always raises")
    rest = body[pos + 1:]
    if status in ("ret", "ret?") or (not rest):
        tabs["warmupExit"] = ["return"]
    else:
        tabs["warmupExit"] = ["falls through to: " + " ".join(ast.unparse(rest[0]).split())[:80]]

    # ---- the loop
    L = ev.loop
    pre = ev.pre if L is not None else ev.effects
    post = ev.effects if L is not None else []
    if L is not None:
        first = _block_rows(ev, L["init"])
        nxt = _block_rows(ev, L["new"])
        tabs["firstBlock"], tabs["nextBlock"] = first, nxt
        for nm, role_vals in (("firstDrawShape", L["init"]), ("nextDrawShape", L["new"])):
            u = role_vals.get("u")
            if u is not None and isinstance(u, ast.Name) and u.id.startswith(AT + "draw"):
                k = int(u.id[len(AT) + 4:])
                shape = ev.draw_shape[k]
                defs.append(_defn(nm, "(n d : Nat)", "List Nat", "[" + ", ".join(COMP.nat(a) for a in shape) + "]",
                                  "np.random.rand(" + ", ".join(_show(a) for a in shape) + ")"))
        defs.append(_defn("nDrawnInit", "(n d : Nat)", "Nat", COMP.nat(L["init"]["nd"]),
                          "n_drawn = " + _show(L["init"]["nd"]) + "   (before the loop)"))
        defs.append(_defn("whileTest", LOOPCTX, "Bool", COMP.test(L["test"]), "while " + _show(L["test"])))
        raises = [(g, p) for g, k, p in L["effects"] if k == "raise"]
        if len(raises) > 1:
            raise Unavailable("the redraw loop raises at more than one place")
        if raises:
            term, text = _cond(ev, raises[0][0])
            defs.append(_defn("capTest", LOOPCTX, "Bool", term, f"if {text}: raise {raises[0][1]}"))
            tabs["capRaises"] = [str(raises[0][1])]
        defs.append(_defn("nDrawnNext", LOOPCTX, "Nat", COMP.nat(L["new"]["nd"]), "n_drawn ← " + _show(L["new"]["nd"])))
    tabs["preLoop"] = _effect_rows(ev, pre)
    tabs["loopBody"] = _effect_rows(ev, L["effects"]) if L is not None else []

    # ---- after the loop: names for the printed tables
    inf_mask = ast.Call(func=ast.Attribute(value=ast.Name(id="np", ctx=ast.Load()), attr="isinf", ctx=ast.Load()),
                        args=[_atom("logl")], keywords=[])
    for rows_expr in (_atom("rows"), _atom("n")):
        ar = ast.Call(func=ast.Attribute(value=ast.Name(id="np", ctx=ast.Load()), attr="arange", ctx=ast.Load()),
                      args=[rows_expr], keywords=[])
        NAMER.add(ast.Subscript(value=ar, slice=inf_mask, ctx=ast.Load()), "infinite_idx")
        NAMER.add(ast.Subscript(value=ar, slice=ast.UnaryOp(op=ast.Invert(), operand=inf_mask), ctx=ast.Load()), "finite_idx")

    writes = [(g, p) for g, k, p in post if k == "write"]
    calls_w = [(g, p) for g, p in writes if p[0] == "calls"]
    if len(calls_w) > 1:
        raise Unavailable("`calls` is written more than once in the warm-up branch")
    if calls_w:
        if calls_w[0][0]:
            raise Unavailable("`calls` is written under a condition")
        defs.append(_defn("callsAfter", POSTCTX, "Nat", COMP.nat(calls_w[0][1][1]), "calls = " + _show(calls_w[0][1][1])))
    logz_w = [(g, p) for g, p in writes if p[0] == "logz"]
    if len(logz_w) > 1:
        raise Unavailable("`logz` is written more than once in the warm-up branch")
    if logz_w:
        g, (_k, val) = logz_w[0]
        term, text = _cond(ev, g)
        defs.append(_defn("logzCond", POSTCTX, "Bool", term, "the write of logz happens under: " + text))
        if _call_of(val, "np.log", "math.log") and len(val.args) == 1 and not val.keywords:
            defs.append(_defn("logzArg", "[Sc α] " + POSTCTX, "α", COMP.scal(val.args[0]),
                              "the argument of the logarithm in logz = " + _show(val)))
        defs.append(_defn("logzSet", "[ScT α] " + POSTCTX + " (logzRw : α)", "α", COMP.scal(val),
                          "logz = " + _show(val) + "   (logzRw = state.get_current('logz'), the reweighting step's value)"))
    if ev.choice is not None:
        g, bound = ev.choice
        term, text = _cond(ev, g)
        defs.append(_defn("choiceCond", POSTCTX, "Bool", term, "np.random.choice is called under: " + text))
        defs.append(_defn("choicePool", POSTCTX, "List Nat", COMP.idx(bound["a"]), "a = " + _show(bound["a"], namer=False)))
        defs.append(_defn("choiceSize", POSTCTX, "Nat", COMP.nat(bound["size"]), "size = " + _show(bound["size"], namer=False)))
        tabs["choiceArgs"] = [f"{k}={_show(v)}" for k, v in bound.items()]
    stores = [(g, p) for g, k, p in post if k == "store" and _is_atom(p[0], "logl")]
    if len(stores) == 1:
        g, (_b, tgt, src) = stores[0]
        term, text = _cond(ev, g)
        defs.append(_defn("scatterCond", POSTCTX, "Bool", term, "logl[…] = … happens under: " + text))
        defs.append(_defn("scatterIdx", POSTCTX, "List Nat", COMP.idx(tgt), "the rows overwritten: " + _show(tgt, namer=False)))
        tabs["scatterSource"] = [_show(src)]
    elif len(stores) > 1:
        raise Unavailable("the log-likelihoods of the kept block are overwritten at more than one place")
    tabs["postLoop"] = _effect_rows(ev, post)
    return defs, tabs


# ------------------------------------------------------------------------------------------------- rendering
PRELUDE = '''/-- `np.all(mask)` (True on the empty mask) -/
def npAll (m : List Bool) : Bool := m.all id
/-- `np.any(mask)` -/
def npAny (m : List Bool) : Bool := m.any id
/-- `~mask` -/
def maskNot (m : List Bool) : List Bool := m.map (!·)
/-- `np.sum(mask)` -/
def maskCount (m : List Bool) : Nat := m.count true
/-- numpy idiom `np.arange(len)[mask]`: the positions below `len` at which the mask is set -/
def whereIdx (len : Nat) (m : List Bool) : List Nat := (List.range len).filter fun i => (m[i]?).getD false
'''


def _lean_string(s):
    s = " ".join(str(s).split())
    return '"' + s.replace("\\", "\\\\").replace('"', "'") + '"'


def _lean_str_list(xs):
    if not xs:
        return "[]"
    return "[" + ",\n   ".join(_lean_string(x) for x in xs) + "]"


def render(defs, tabs):
    L = ["/- GENERATED by translate/g19_warmup.py from /repo's current source — do not edit. -/",
         "import TempestVerif.Sc", "set_option linter.unusedVariables false", "namespace Gen.WarmupSrc", "variable {α : Type}", "",
         PRELUDE]
    for d in defs:
        L += [d, ""]
    for k, v in tabs.items():
        L += [f"def {k} : List String :=\n  {_lean_str_list(v)}", ""]
    L += ["end Gen.WarmupSrc", ""]
    return "\n".join(L)


def generate():
    try:
        defs, tabs = extract()
    except Unavailable as e:
        return (NAME, "unavailable", str(e))
    except (SyntaxError, OSError, RecursionError) as e:
        return (NAME, "unavailable", f"{type(e).__name__}: {e}")
    changed = common.write_if_changed(os.path.join(common.GEN, "WarmupSrc.lean"), render(defs, tabs))
    return (NAME, "ok", f"{'re' if changed else ''}generated Gen/WarmupSrc.lean ({len(defs)} terms, "
                        f"{sum(len(v) for v in tabs.values())} table rows)")


if __name__ == "__main__":
    if "--print" in sys.argv:
        print(render(*extract()))
    else:
        print(generate())
