"""G5-smsites — the copy discipline of `tempest/state_manager.py` and every use of the manager elsewhere, regenerated from
/repo's current source (Python `ast` only).  Emits lean/TempestVerif/Gen/SMSites.lean:

  publicMethods     every method of `StateManager` whose name does not start with `_`
  ensureCopyRules   `_ensure_copy`, statement by statement: (condition, what is returned), as normalised source text
  accessorReturns   for every public method: (method, classification of each `return` expression)
                        copy        self._ensure_copy(<anything>)
                        dictcopy    {k: self._ensure_copy(v) for k, v in <dict>.items()}
                        stack       a local bound only by np.array(..) / np.concatenate(..), returned as
                                    `copy.deepcopy(out) if out.dtype.hasobject else out`
                        export      the `to_dict` literal: dictcopy of _current, {k: [self._ensure_copy(item) for item in v] …}
                                    of _history, self.n_dim
                        param       a parameter of the method (the caller's own object)
                        computed    a tuple of locals bound by arithmetic / numpy calls, or literals
                        int | new | none
                        raw:<src>   anything else — an internal object may be handed out
  stores            every statement of the class that writes `_current`, `_history` or `_results_dict`: (method, classification)
  pipelineCalls     every call `<…>.state.<method>(…)` outside state_manager.py: (file, function, method, copy argument)
  privateAccess     every use of `._current / ._history / ._results_dict` outside state_manager.py
  stepMethods       the manager methods called from tempest/steps/*.py (the four pipeline steps)
The translator never guesses: an unrecognised construct is emitted as `raw:<source>` (and the Lean theorem about the table
then fails), a file it cannot parse makes it return `unavailable`.
"""
import ast
import os

from harness import common


class Unavailable(Exception):
    pass


SM_FILE = "tempest/state_manager.py"
INTERNAL = ("_current", "_history", "_results_dict")
SM_METHODS = {"set_current", "update_current", "get_current", "get_history", "get_last_history", "get_history_length",
              "commit_current_to_history", "compute_results", "compute_logw_and_logz", "to_dict", "from_dict",
              "update_from_dict", "save_state", "load_state"}


def _parse(rel):
    path = os.path.join(common.REPO, rel)
    with open(path) as fh:
        return ast.parse(fh.read(), filename=path)


def _u(node):
    return ast.unparse(node).replace("\n", " ")


def _is_ensure_copy(node):
    return (isinstance(node, ast.Call) and _u(node.func) == "self._ensure_copy" and len(node.args) == 1 and not node.keywords)


def _is_dictcopy(node):
    """{k: self._ensure_copy(v) for k, v in X.items()}"""
    if not (isinstance(node, ast.DictComp) and len(node.generators) == 1):
        return False
    g = node.generators[0]
    if g.ifs or not (isinstance(g.iter, ast.Call) and isinstance(g.iter.func, ast.Attribute) and g.iter.func.attr == "items"):
        return False
    if not (isinstance(g.target, ast.Tuple) and len(g.target.elts) == 2):
        return False
    k, v = (_u(e) for e in g.target.elts)
    return _u(node.key) == k and _is_ensure_copy(node.value) and _u(node.value.args[0]) == v


def _is_histcopy(node):
    """{k: [self._ensure_copy(item) for item in v] for k, v in X.items()}"""
    if not (isinstance(node, ast.DictComp) and len(node.generators) == 1):
        return False
    g = node.generators[0]
    if g.ifs or not (isinstance(g.iter, ast.Call) and isinstance(g.iter.func, ast.Attribute) and g.iter.func.attr == "items"):
        return False
    if not (isinstance(g.target, ast.Tuple) and len(g.target.elts) == 2):
        return False
    k, v = (_u(e) for e in g.target.elts)
    lc = node.value
    if not (isinstance(lc, ast.ListComp) and len(lc.generators) == 1 and not lc.generators[0].ifs):
        return False
    return (_u(node.key) == k and _u(lc.generators[0].iter) == v and _is_ensure_copy(lc.elt)
            and _u(lc.elt.args[0]) == _u(lc.generators[0].target))


def _mentions_internal(node):
    for n in ast.walk(node):
        if isinstance(n, ast.Attribute) and n.attr in INTERNAL:
            return True
    return False


def _local_bindings(fn):
    out = {}
    for n in ast.walk(fn):
        if isinstance(n, ast.Assign):
            for t in n.targets:
                for e in (t.elts if isinstance(t, ast.Tuple) else [t]):
                    if isinstance(e, ast.Name):
                        out.setdefault(e.id, []).append(n.value)
        elif isinstance(n, ast.AugAssign) and isinstance(n.target, ast.Name):
            out.setdefault(n.target.id, []).append(n.value)
    return out


def _is_np_new(node):
    """an expression that builds a new array / number: arithmetic, comparison, or a call of np.* / len / float / int"""
    if isinstance(node, ast.Constant):
        return True
    if isinstance(node, ast.Attribute):
        return _u(node).startswith("np.")
    if isinstance(node, ast.UnaryOp):
        return _is_np_new(node.operand)
    if isinstance(node, ast.BinOp):
        return True
    if isinstance(node, ast.Call):
        f = _u(node.func)
        return f.startswith("np.") or f in ("len", "float", "int", "dict")
    return False


def _classify_return(fn, v, params):
    if v is None or (isinstance(v, ast.Constant) and v.value is None):
        return "none"
    if _is_ensure_copy(v):
        return "copy"
    if _is_dictcopy(v):
        return "dictcopy"
    binds = _local_bindings(fn)
    if isinstance(v, ast.IfExp) and isinstance(v.orelse, ast.Name):
        name = v.orelse.id
        if (_u(v.test) == f"{name}.dtype.hasobject" and _u(v.body) in (f"copy.deepcopy({name})", f"_deepcopy_array({name})")
                and name in binds and all(isinstance(b, ast.Call) and _u(b.func) in ("np.array", "np.concatenate") for b in binds[name])):
            return "stack"
    if isinstance(v, ast.Name) and v.id in params:
        return "param"
    if isinstance(v, ast.Dict):
        kinds = []
        for val in v.values:
            kinds.append("dictcopy" if _is_dictcopy(val) else "histcopy" if _is_histcopy(val) else
                         "n_dim" if _u(val) == "self.n_dim" else "raw")
        if kinds == ["dictcopy", "histcopy", "n_dim"] and [_u(k) for k in v.keys] == ["'_current'", "'_history'", "'n_dim'"]:
            return "export"
    if isinstance(v, ast.Call) and _u(v.func) == "len":
        return "int"
    if isinstance(v, ast.Name) and v.id in binds and all(isinstance(b, ast.Call) and _u(b.func) == "cls" for b in binds[v.id]):
        return "new"
    elts = v.elts if isinstance(v, ast.Tuple) else None
    if elts is not None:
        ok = True
        for e in elts:
            if isinstance(e, ast.Name):
                # one of the bindings may be a tuple-unpacking of a call on self (logw, _ = self.compute…): not here
                ok = ok and e.id in binds and all(_is_np_new(b) for b in binds[e.id])
            else:
                ok = ok and _is_np_new(e) and not _mentions_internal(e)
        if ok:
            return "computed"
    return "raw:" + _u(v)


def _classify_store(fn, stmt):
    src = _u(stmt)
    if isinstance(stmt, ast.Assign) and len(stmt.targets) == 1:
        t, v = stmt.targets[0], stmt.value
        ts = _u(t)
        if isinstance(t, ast.Subscript) and _u(t.value) == "self._current":
            if (isinstance(v, ast.IfExp) and _u(v.test) == "copy" and _is_ensure_copy(v.body)
                    and _u(v.body.args[0]) == _u(v.orelse) and isinstance(v.orelse, ast.Name)):
                return "copy_unless_copy_false"
            if _is_ensure_copy(v):
                return "copy"
        if isinstance(t, ast.Subscript) and _u(t.value) == "self._results_dict":
            if isinstance(v, ast.Call) and _u(v.func) == "self.get_history":
                return "cache_get_history"
            if isinstance(v, ast.Name):
                binds = _local_bindings(fn)
                if v.id in binds and all(isinstance(b, ast.Call) and _u(b.func) == "self.compute_logw_and_logz" for b in binds[v.id]):
                    return "cache_logw"
        if ts == "self._results_dict" and src in ("self._results_dict = None", "self._results_dict = dict()"):
            return "reset"
        if ts == "self._current" and src == "self._current = dict.fromkeys(CURRENT_STATE_KEYS, None)":
            return "init"
        if ts == "self._history" and src == "self._history = {key: [] for key in HISTORY_STATE_KEYS}":
            return "init"
    if isinstance(stmt, ast.Expr) and isinstance(stmt.value, ast.Call):
        c = stmt.value
        f = _u(c.func)
        if f.startswith("self._history[") and f.endswith("].append") and len(c.args) == 1 and _is_ensure_copy(c.args[0]):
            return "append_copy"
        if f == "self._current.update" and len(c.args) == 1 and _is_dictcopy(c.args[0]):
            return "update_dictcopy"
        if f == "self._history.update" and len(c.args) == 1 and _is_histcopy(c.args[0]):
            return "update_histcopy"
    return "raw:" + src


def _writes_internal(stmt):
    """does this simple statement write one of the three dictionaries (assignment target, or a mutating method call)?"""
    if isinstance(stmt, (ast.Assign, ast.AugAssign, ast.AnnAssign)):
        targets = stmt.targets if isinstance(stmt, ast.Assign) else [stmt.target]
        for t in targets:
            for n in ast.walk(t):
                if isinstance(n, ast.Attribute) and n.attr in INTERNAL:
                    return True
    if isinstance(stmt, ast.Expr) and isinstance(stmt.value, ast.Call) and isinstance(stmt.value.func, ast.Attribute):
        if stmt.value.func.attr in ("append", "update", "extend", "insert", "pop", "clear", "setdefault", "remove", "popitem",
                                    "__setitem__", "sort", "reverse"):
            return _mentions_internal(stmt.value.func.value)
    if isinstance(stmt, ast.Delete):
        return any(_mentions_internal(t) for t in stmt.targets)
    return False


def _simple_statements(fn):
    for n in ast.walk(fn):
        if isinstance(n, (ast.Assign, ast.AugAssign, ast.AnnAssign, ast.Expr, ast.Delete)):
            yield n


def _enclosing_functions(tree):
    """yield (qualified function name, function node); nested functions are reported under the outer one"""
    for node in tree.body:
        if isinstance(node, ast.FunctionDef):
            yield node.name, node
        elif isinstance(node, ast.ClassDef):
            for f in node.body:
                if isinstance(f, ast.FunctionDef):
                    yield f"{node.name}.{f.name}", f


def extract():
    t = {}
    sm = _parse(SM_FILE)
    cls = next((n for n in sm.body if isinstance(n, ast.ClassDef) and n.name == "StateManager"), None)
    if cls is None:
        raise Unavailable("class StateManager not found")
    methods = [f for f in cls.body if isinstance(f, ast.FunctionDef)]
    t["publicMethods"] = sorted(f.name for f in methods if not f.name.startswith("_"))
    # _ensure_copy
    ec = next((f for f in methods if f.name == "_ensure_copy"), None)
    if ec is None:
        raise Unavailable("_ensure_copy not found")
    rules = []
    for st in ec.body:
        if isinstance(st, ast.Expr) and isinstance(st.value, ast.Constant):
            continue
        if isinstance(st, ast.If) and not st.orelse and len(st.body) == 1 and isinstance(st.body[0], ast.Return):
            rules.append((_u(st.test), _u(st.body[0].value) if st.body[0].value is not None else "None"))
        elif isinstance(st, ast.Return):
            rules.append(("otherwise", _u(st.value) if st.value is not None else "None"))
        else:
            rules.append(("raw", _u(st)))
    t["ensureCopyRules"] = rules
    # the module-level deep-copy walker, statement by statement (docstring dropped); [] when the module has none
    dca = next((n for n in sm.body if isinstance(n, ast.FunctionDef) and n.name == "_deepcopy_array"), None)
    t["deepcopyArrayDef"] = ([] if dca is None else
                             ["(" + ", ".join(a.arg for a in dca.args.args) + ")"] +
                             [_u(st) for st in dca.body if not (isinstance(st, ast.Expr) and isinstance(st.value, ast.Constant))])
    # returns and stores
    rets, stores = [], []
    for f in methods:
        params = {a.arg for a in f.args.args + f.args.kwonlyargs}
        if not f.name.startswith("_"):
            found = [n for n in ast.walk(f) if isinstance(n, ast.Return)]
            for r in sorted(found, key=lambda n: (n.lineno, n.col_offset)):
                rets.append((f.name, _classify_return(f, r.value, params)))
            if not found:
                rets.append((f.name, "none"))
        for st in sorted(_simple_statements(f), key=lambda n: (n.lineno, n.col_offset)):
            if _writes_internal(st):
                stores.append((f.name, _classify_store(f, st)))
    t["accessorReturns"] = rets
    t["stores"] = stores
    # uses elsewhere
    calls, private = [], []
    root = os.path.join(common.REPO, "tempest")
    files = []
    for d, _, fs in os.walk(root):
        for fn in fs:
            if fn.endswith(".py"):
                rel = os.path.relpath(os.path.join(d, fn), common.REPO)
                if rel != SM_FILE:
                    files.append(rel)
    for rel in sorted(files):
        tree = _parse(rel)
        for qual, fnode in _enclosing_functions(tree):
            for n in ast.walk(fnode):
                if isinstance(n, ast.Call) and isinstance(n.func, ast.Attribute) and n.func.attr in SM_METHODS:
                    recv = _u(n.func.value)
                    if not (recv == "state" or recv.endswith(".state") or recv == "StateManager"):
                        continue
                    cp = "default"
                    pos = {"set_current": 2, "update_current": 1}.get(n.func.attr)
                    for kw in n.keywords:
                        if kw.arg == "copy":
                            cp = _u(kw.value)
                        elif kw.arg is None:
                            cp = "**" + _u(kw.value)
                    if pos is not None and len(n.args) > pos:
                        cp = _u(n.args[pos])
                    calls.append((n.lineno, rel, qual, n.func.attr, cp))
                if isinstance(n, ast.Attribute) and n.attr in INTERNAL:
                    private.append((n.lineno, rel, qual, n.attr))
        # module level code is not expected to use a manager; report it if it does
        for n in ast.walk(tree):
            if isinstance(n, ast.Attribute) and n.attr in INTERNAL:
                if not any(isinstance(p, ast.FunctionDef) and p.lineno <= n.lineno <= max(getattr(p, "end_lineno", p.lineno), p.lineno)
                           for p in ast.walk(tree) if isinstance(p, ast.FunctionDef)):
                    private.append((n.lineno, rel, "<module>", n.attr))
    t["pipelineCalls"] = [(r, q, m, c) for _, r, q, m, c in sorted(calls, key=lambda x: (x[1], x[0]))]
    t["privateAccess"] = [(r, q, a) for _, r, q, a in sorted(set(private), key=lambda x: (x[1], x[0]))]
    t["stepMethods"] = sorted({m for r, _, m, _ in t["pipelineCalls"] if r.startswith("tempest/steps/")})
    return t


def _s(x):
    return '"' + x.replace("\\", "\\\\").replace('"', '\\"').replace("\n", "\\n") + '"'


def render(t):
    L = ["/- GENERATED by translate/g5_smsites.py from /repo's current source — do not edit. -/",
         "namespace Gen.SMSites", ""]
    L.append("def publicMethods : List String := [" + ", ".join(_s(x) for x in t["publicMethods"]) + "]")
    L.append("def ensureCopyRules : List (String × String) := [" + ", ".join(f"({_s(a)}, {_s(b)})" for a, b in t["ensureCopyRules"]) + "]")
    L.append("def deepcopyArrayDef : List String := [" + ", ".join(_s(x) for x in t["deepcopyArrayDef"]) + "]")
    L.append("def accessorReturns : List (String × String) := [" + ", ".join(f"({_s(a)}, {_s(b)})" for a, b in t["accessorReturns"]) + "]")
    L.append("def stores : List (String × String) := [" + ", ".join(f"({_s(a)}, {_s(b)})" for a, b in t["stores"]) + "]")
    L.append("def pipelineCalls : List (String × String × String × String) := ["
             + ", ".join(f"({_s(a)}, {_s(b)}, {_s(c)}, {_s(d)})" for a, b, c, d in t["pipelineCalls"]) + "]")
    L.append("def privateAccess : List (String × String × String) := ["
             + ", ".join(f"({_s(a)}, {_s(b)}, {_s(c)})" for a, b, c in t["privateAccess"]) + "]")
    L.append("def stepMethods : List String := [" + ", ".join(_s(x) for x in t["stepMethods"]) + "]")
    L += ["", "end Gen.SMSites", ""]
    return "\n".join(L)


def generate():
    try:
        t = extract()
    except Unavailable as e:
        return ("G5-smsites", "unavailable", str(e))
    except (SyntaxError, OSError) as e:
        return ("G5-smsites", "unavailable", f"{type(e).__name__}: {e}")
    changed = common.write_if_changed(os.path.join(common.GEN, "SMSites.lean"), render(t))
    return ("G5-smsites", "ok", f"{'re' if changed else ''}generated Gen/SMSites.lean ({len(t['accessorReturns'])} returns, "
                                f"{len(t['stores'])} stores, {len(t['pipelineCalls'])} call sites, {len(t['privateAccess'])} private accesses)")


if __name__ == "__main__":
    import json
    print(json.dumps(extract(), indent=1))
