"""G22 — the accessors and mutators of `tempest/state_manager.py: StateManager` COMPILED from /repo's current source
(Python `ast` only) into Lean terms over the heap operations of the StateManager reference models, property C17.

Emits lean/TempestVerif/Gen/StateMgrSrc.lean.  For `_ensure_copy`, `get_current`, `set_current`, `update_current`,
`get_history`, `get_last_history`, `commit_current_to_history`, `compute_results`, `to_dict`, `update_from_dict` the method
body is evaluated symbolically, statement by statement (private helpers `self._x(...)` are inlined, local variables are
substituted or bound to canonical names, so pure renamings / extracted helpers / guard clauses regenerate terms the same
theorems accept), and every Python construct becomes one primitive of `Model/StateMgrPy.lean`:

    self._ensure_copy(e)                         ensureCopy <owner> heap e        (the compiled `_ensure_copy`)
    value.copy() / copy.deepcopy(value) / value  bufCopy / deepCopy / the value itself (alias)
    {k: f(v) for k, v in d.items()} / [f(x) …]   mapAssoc / mapList
    np.array(l) / np.concatenate(l) [+ deepcopy if hasobject]      npArray / npConcat <deep>
    d[k] / l[i] / d.get(k)                       withItem (lookup …) / withItem (pyGet? …) / lookup
    self._current[k] = e                         storeCur (e owned by the manager) | storeCurAlias (e is the caller's object)
    self._history[k].append(e)                   appendHist;   d.update(e)  updateCur / updateHist
    self._results_dict = None | dict(); self._results_dict[k] = e          setCache / cachePut
    return e / raise X / for / if                ret* <owner> / raise / forEach / if-then-else (or `match` on an Optional)

WHO RECEIVES a copy is derived from the data flow: an `_ensure_copy` whose result reaches a `return` is allocated for the
receiver of the method (`o`: the caller, or the manager itself when the method is called from `compute_results`), one whose
result reaches `_current / _history / _results_dict` is allocated for the manager (`Owner.lib`); a parameter stored without
a copy is an alias of the caller's object (`storeCurAlias`).  The same text is emitted twice, elaborated against the flat
(`F`) and the nested (`N`) model.  `Props/C17Source.lean` proves that `Model.StateMgr.step` / `Model.StateMgrN.step true`
compute exactly these terms.

The translator never guesses: a construct outside this language ⇒ status `unavailable` with the offending source.
"""
import ast
import os

from harness import common


# calls compiled to `deepCopy`: the library routine, and the module-level walker `_deepcopy_array` of state_manager.py (a deep copy that
# also descends into sub-array fields of record dtypes; its TEXT is pinned by C17_deepcopy_array_def via G5-smsites and its depth is
# checked dynamically on every blob kind, every run)
DEEP_COPY_FUNCS = ("copy.deepcopy", "_deepcopy_array")


class Unavailable(Exception):
    pass


SM_FILE = "tempest/state_manager.py"
KEYSETS = ("CURRENT_STATE_KEYS", "HISTORY_STATE_KEYS", "REQUIRED_COMMIT_KEYS")
ERRS = {"ValueError": "Err.valueError", "IndexError": "Err.indexError", "KeyError": "Err.keyError"}
# public methods compiled, with the kind of every parameter (by position after self)
METHODS = {
    "get_current": ("getCurrent", ["optkey"]),
    "set_current": ("setCurrent", ["key", "cval", "bool"]),
    "update_current": ("updateCurrent", ["cdict", "bool"]),
    "get_history": ("getHistory", ["key", "optint", "bool"]),
    "get_last_history": ("getLastHistory", ["key", "param"]),
    "commit_current_to_history": ("commit", ["bool"]),
    "compute_results": ("computeResults", []),
    "to_dict": ("toDict", []),
    "update_from_dict": ("updateFromDict", ["sdict"]),
}
LEAN_TY = {"optkey": "Option Key", "key": "Key", "cval": "Val", "bool": "Bool", "cdict": "List (Key × Val)",
           "optint": "Option Int", "param": "Val"}


def _u(node):
    s = " ".join(ast.unparse(node).split())
    return s if len(s) < 160 else s[:157] + "..."


def _lstr(x):
    """a Lean string literal (sanitised: printable ASCII only)"""
    x = "".join(ch if 32 <= ord(ch) < 127 else "?" for ch in str(x))
    return '"' + x.replace("\\", "\\\\").replace('"', '\\"') + '"'


class V:
    """a symbolic value: kind + Lean term (+ provenance / parts)"""

    def __init__(self, kind, term=None, **kw):
        self.kind, self.term = kind, term
        self.__dict__.update(kw)


NONE = V("val", "Val.none", prov="const", isnone=True)


class Comp:
    def __init__(self, cls):
        self.methods = {f.name: f for f in cls.body if isinstance(f, ast.FunctionDef)}
        self.n = 0
        self.depth = 0
        self.notes = []

    def fresh(self, p):
        self.n += 1
        return f"{p}{self.n}"

    # ------------------------------------------------------------------ expressions (CPS: k(value, state var) -> term)
    def expr(self, node, env, s, k):
        if isinstance(node, ast.Constant):
            if node.value is None:
                return k(NONE, s)
            if isinstance(node.value, bool):
                return k(V("bool", "true" if node.value else "false"), s)
            if isinstance(node.value, int):
                return k(V("int", f"({node.value} : Int)"), s)
            if isinstance(node.value, str):
                return k(V("key", _lstr(node.value)), s)
            raise Unavailable(f"literal {_u(node)}")
        if isinstance(node, ast.UnaryOp) and isinstance(node.op, ast.USub) and isinstance(node.operand, ast.Constant) \
                and isinstance(node.operand.value, int):
            return k(V("int", f"(-{node.operand.value} : Int)"), s)
        if isinstance(node, ast.UnaryOp) and isinstance(node.op, ast.Not):
            return self.expr(node.operand, env, s, lambda v, s1: k(V("bool", f"(!{self.truth(v)})"), s1))
        if isinstance(node, ast.Name):
            if node.id in env:
                return k(env[node.id], s)
            if node.id in KEYSETS:
                return k(V("keylist", f"(keySet {_lstr(node.id)})", setname=node.id), s)
            raise Unavailable(f"unbound name {node.id!r}")
        if isinstance(node, ast.Attribute) and isinstance(node.value, ast.Name) and node.value.id == "self":
            if node.attr == "_current":
                return k(V("dict", f"(curOf {s})", which="cur"), s)
            if node.attr == "_history":
                return k(V("hist", f"(histOf {s})", which="hist"), s)
            if node.attr == "_results_dict":
                return k(V("optdict", f"(cacheOf {s})", which="cache"), s)
            if node.attr == "n_dim":
                return k(V("ndim", "n_dim"), s)
            raise Unavailable(f"attribute {_u(node)}")
        if isinstance(node, ast.Attribute) and node.attr == "hasobject" and isinstance(node.value, ast.Attribute) \
                and node.value.attr == "dtype":
            return self.expr(node.value.value, env, s, lambda v, s1: k(V("hasobject", None, of=v), s1))
        if isinstance(node, ast.Subscript):
            return self.expr(node.value, env, s, lambda d, s1: self.expr(node.slice, env, s1, lambda i, s2: self.subscript(d, i, s2, k, node)))
        if isinstance(node, ast.Compare) and len(node.ops) == 1:
            return self.compare(node, env, s, k)
        if isinstance(node, ast.BoolOp):
            op = "&&" if isinstance(node.op, ast.And) else "||"

            def go(i, acc, s1):
                if i == len(node.values):
                    return k(V("bool", "(" + f" {op} ".join(acc) + ")"), s1)
                return self.expr(node.values[i], env, s1, lambda v, s2: go(i + 1, acc + [self.truth(v)], s2))
            return go(0, [], s)
        if isinstance(node, ast.IfExp):
            return self.expr(node.test, env, s, lambda c, s1: self.expr(node.body, env, s1, lambda a, s2: self.expr(
                node.orelse, env, s2, lambda b, s3: self.ifexp(c, a, b, s3, k, node))))
        if isinstance(node, ast.DictComp):
            return self.dictcomp(node, env, s, k)
        if isinstance(node, ast.Dict):
            return self.dictlit(node, env, s, k)
        if (isinstance(node, ast.ListComp) and len(node.generators) == 1 and len(node.generators[0].ifs) == 1
                and isinstance(node.generators[0].target, ast.Name) and isinstance(node.elt, ast.Name)
                and node.elt.id == node.generators[0].target.id):
            # [x for x in S if c]  →  S.filter c     (c must be pure)
            g = node.generators[0]
            x = self.fresh("x")

            def fin_lc(it, s1):
                if it.kind != "keylist":
                    raise Unavailable(f"comprehension over {_u(g.iter)}")
                e2 = dict(env)
                e2[g.target.id] = V("key", x)
                box = {}

                def got(c, s2):
                    if s2 != s1:
                        raise Unavailable("effect in a filter condition")
                    box["c"] = self.truth(c)
                    return ""
                if self.expr(g.ifs[0], e2, s1, got) or "c" not in box:
                    raise Unavailable(f"filter condition {_u(g.ifs[0])} is not pure")
                return k(V("keylist", f"(({it.term}).filter fun {x} => {box['c']})"), s1)
            return self.expr(g.iter, env, s, fin_lc)
        if isinstance(node, ast.List) and not node.elts:
            return k(V("keylist", "[]", empty=True), s)
        if isinstance(node, ast.Call):
            return self.call(node, env, s, k)
        raise Unavailable(f"expression {_u(node)}")

    def truth(self, v):
        if v.kind == "bool":
            return v.term
        if v.kind == "keylist":
            return f"(!({v.term}).isEmpty)"
        if v.kind == "hasobject" and v.of.kind == "val":
            return f"(hasObject hp {v.of.term})"
        raise Unavailable(f"truth value of a {v.kind}")

    def subscript(self, d, i, s, k, node):
        x = self.fresh("v")
        if d.kind == "dict" and i.kind == "key":
            return f"withItem (lookup {i.term} {d.term}) {s} keyErr fun {x} => " + k(V("val", x, prov="own"), s)
        if d.kind == "cdict" and i.kind == "key":
            return f"withItem (lookup {i.term} {d.term}) {s} keyErr fun {x} => " + k(V("val", x, prov="caller"), s)
        if d.kind == "hist" and i.kind == "key":
            return f"withItem (lookup {i.term} {d.term}) {s} keyErr fun {x} => " + k(V("vlist", x, histkey=i.term), s)
        if d.kind == "vlist" and i.kind == "int":
            return f"withItem (pyGet? {d.term} {i.term}) {s} (Res.err Err.indexError) fun {x} => " + k(V("val", x, prov="own"), s)
        if d.kind == "sdict" and i.kind == "key" and i.term in ('"_current"', '"_history"'):
            part = d.cur if i.term == '"_current"' else d.hist
            kind = "cdict" if i.term == '"_current"' else "chist"
            return f"withItem {part} {s} keyErr fun {x} => " + k(V(kind, x), s)
        if d.kind == "sdict" and i.kind == "key" and i.term == '"n_dim"':
            return k(V("ndim", "n_dim"), s)
        raise Unavailable(f"subscript {_u(node)} ({d.kind}[{i.kind}])")

    def compare(self, node, env, s, k):
        op, l, r = node.ops[0], node.left, node.comparators[0]
        if isinstance(op, (ast.Is, ast.IsNot)) and isinstance(r, ast.Constant) and r.value is None:
            neg = isinstance(op, ast.IsNot)

            def fin(v, s1):
                if getattr(v, "isnone", False):
                    t = "true"
                elif v.kind == "val":
                    t = f"(isNoneV {v.term})"
                elif v.kind == "optval":
                    t = f"(isNoneO {v.term})"
                elif v.kind == "optdict":
                    t = f"({v.term}).isNone"
                elif v.kind in ("key", "int"):
                    t = "false"
                elif v.kind in ("optkey", "optint"):
                    t = f"({v.term}).isNone"
                else:
                    raise Unavailable(f"`is None` of a {v.kind}: {_u(node)}")
                if neg:
                    t = {"true": "false", "false": "true"}.get(t, f"(!{t})")
                return k(V("bool", t), s1)
            return self.expr(l, env, s, fin)
        if isinstance(op, (ast.In, ast.NotIn)):
            neg = isinstance(op, ast.NotIn)

            def fin2(a, s1):
                def fin3(b, s2):
                    if a.kind == "key" and b.kind == "keylist" and getattr(b, "setname", None):
                        t = f"(inKeys {_lstr(b.setname)} {a.term})"
                    elif a.kind == "key" and b.kind == "sdict" and a.term in ('"_current"', '"_history"'):
                        t = f"({b.cur if a.term == chr(34) + '_current' + chr(34) else b.hist}).isSome"
                    elif a.kind == "key" and b.kind == "sdict" and a.term == '"n_dim"':
                        t = "ndimPresent"
                    else:
                        raise Unavailable(f"membership {_u(node)}")
                    return k(V("bool", f"(!{t})" if neg else t), s2)
                return self.expr(r, env, s1, fin3)
            return self.expr(l, env, s, fin2)
        ops = {ast.GtE: "≥", ast.Gt: ">", ast.LtE: "≤", ast.Lt: "<", ast.Eq: "=", ast.NotEq: "≠"}
        if type(op) in ops:
            def fin4(a, s1):
                def fin5(b, s2):
                    if a.kind == "int" and b.kind == "int":
                        return k(V("bool", f"(decide ({a.term} {ops[type(op)]} {b.term}))"), s2)
                    raise Unavailable(f"comparison {_u(node)} ({a.kind} vs {b.kind})")
                return self.expr(r, env, s1, fin5)
            return self.expr(l, env, s, fin4)
        raise Unavailable(f"comparison {_u(node)}")

    @staticmethod
    def is_stacked(v):
        return v.kind == "stack" or (v.kind == "ifexp" and Comp.is_stacked(v.a) and Comp.is_stacked(v.b))

    @staticmethod
    def deepen(v):
        """`copy.deepcopy(out) if out.dtype.hasobject else out` of a freshly stacked array"""
        if v.kind == "stack":
            return V("stack", None, fn=v.fn, lst=v.lst, deep=True)
        return V("ifexp", None, cond=v.cond, a=Comp.deepen(v.a), b=Comp.deepen(v.b))

    def ifexp(self, c, a, b, s, k, node):
        # copy.deepcopy(out) if out.dtype.hasobject else out   — on a freshly stacked array
        if c.kind == "hasobject" and self.is_stacked(c.of) and b is c.of and a.kind == "deepcopy" and a.of is c.of:
            return k(self.deepen(b), s)
        if c.kind == "hasobject":
            return k(V("ifexp", None, cond=f"(hasObject hp {c.of.term})", a=a, b=b), s)
        return k(V("ifexp", None, cond=self.truth(c), a=a, b=b), s)

    def call(self, node, env, s, k):
        f = node.func
        fs = _u(f)
        if node.keywords and not (fs.startswith("self.") and fs[5:] in self.methods):
            raise Unavailable(f"keyword arguments in {_u(node)}")
        if fs == "len" and len(node.args) == 1:
            def fin(v, s1):
                if v.kind in ("vlist", "keylist"):
                    return k(V("int", f"(({v.term}).length : Int)"), s1)
                raise Unavailable(f"len of a {v.kind}")
            return self.expr(node.args[0], env, s, fin)
        if fs == "dict" and not node.args:
            return k(V("emptydict", "[]"), s)
        if fs in ("np.array", "np.concatenate") and len(node.args) == 1:
            def fin(v, s1):
                if v.kind != "vlist":
                    raise Unavailable(f"{fs} of a {v.kind}")
                return k(V("stack", None, fn="npArray" if fs == "np.array" else "npConcat", lst=v.term, deep=False), s1)
            return self.expr(node.args[0], env, s, fin)
        if fs in DEEP_COPY_FUNCS and len(node.args) == 1:
            return self.expr(node.args[0], env, s, lambda v, s1: k(V("deepcopy", None, of=v), s1))
        if isinstance(f, ast.Attribute) and f.attr == "copy" and not node.args:
            return self.expr(f.value, env, s, lambda v, s1: k(V("bufcopy", None, of=v), s1))
        if isinstance(f, ast.Attribute) and f.attr == "get" and len(node.args) in (1, 2):
            def fin(d, s1):
                def fin2(i, s2):
                    if d.kind == "dict" and i.kind == "key" and len(node.args) == 1:
                        return k(V("optval", f"(lookup {i.term} {d.term})"), s2)
                    if d.kind == "sdict" and i.term == '"n_dim"':
                        return k(V("ndim", "n_dim"), s2)
                    raise Unavailable(f"{_u(node)}")
                return self.expr(node.args[0], env, s1, fin2)
            return self.expr(f.value, env, s, fin)
        if isinstance(f, ast.Attribute) and f.attr in ("items", "keys") and not node.args:
            def fin(d, s1):
                if f.attr == "items" and d.kind in ("dict", "cdict", "hist", "chist"):
                    return k(V("items", d.term, of=d), s1)
                if f.attr == "items" and d.kind == "optdict":
                    return k(V("items", f"(entries {d.term})", of=V("dict", f"(entries {d.term})")), s1)
                if f.attr == "keys" and d.kind in ("dict", "hist"):
                    return k(V("keylist", f"(({d.term}).map Prod.fst)"), s1)
                raise Unavailable(f"{_u(node)}")
            return self.expr(f.value, env, s, fin)
        if fs == "isinstance" and len(node.args) == 2:
            t = node.args[1]
            names = [e for e in (t.elts if isinstance(t, ast.Tuple) else [t])]
            tys = [_u(e).split(".")[-1] for e in names]
            return self.expr(node.args[0], env, s, lambda v, s1: k(V("bool", f"(isInst hp {v.term} [{', '.join(_lstr(x) for x in tys)}])"), s1))
        if fs == "self._ensure_copy" and len(node.args) == 1:
            return self.expr(node.args[0], env, s, lambda v, s1: k(V("copy", None, of=v), s1))
        if fs == "self.compute_logw_and_logz":
            self.notes.append(("logwArgs", ", ".join(_u(a) for a in node.args)))
            return k(V("logwcall", None), s)
        if fs.startswith("self.") and fs[5:] in METHODS and fs[5:] != "compute_results":
            return self.pubcall(fs[5:], node, env, s, k)
        if fs.startswith("self.") and fs[5:] in self.methods and fs[5:].startswith("_"):
            return self.inline(fs[5:], node, env, s, lambda v, s1: k(v if v is not None else NONE, s1))
        raise Unavailable(f"call {_u(node)}")

    def args_of(self, name, node, env, s, k):
        """evaluate the arguments of a call of method `name` (positional / keyword / defaults) → list of values"""
        fn = self.methods[name]
        params = [a.arg for a in fn.args.args[1:]]
        defaults = dict(zip(params[len(params) - len(fn.args.defaults):], fn.args.defaults))
        given = dict(zip(params, node.args))
        for kw in node.keywords:
            if kw.arg not in params:
                raise Unavailable(f"{_u(node)}")
            given[kw.arg] = kw.value
        nodes = []
        for p in params:
            if p in given:
                nodes.append(given[p])
            elif p in defaults:
                nodes.append(defaults[p])
            else:
                raise Unavailable(f"missing argument {p} in {_u(node)}")

        def go(i, acc, s1):
            if i == len(nodes):
                return k(params, acc, s1)
            return self.expr(nodes[i], env, s1, lambda v, s2: go(i + 1, acc + [v], s2))
        return go(0, [], s)

    def inline(self, name, node, env, s, k):
        """`self._helper(args)`: the helper's body evaluated in place; k(return value or None, state)"""
        self.depth += 1
        if self.depth > 6:
            raise Unavailable(f"helper calls nested too deeply at {name}")

        def body(params, vals, s1):
            env2 = dict(zip(params, vals))
            return self.stmts(self.methods[name].body, env2, s1, lambda v, s2: k(v, s2), lambda e, s2: k(None, s2), False)
        try:
            return self.args_of(name, node, env, s, body)
        finally:
            self.depth -= 1

    def pubcall(self, name, node, env, s, k):
        """a public accessor called by the manager itself: its compiled definition with receiver `Owner.lib`"""
        lean, kinds = METHODS[name]

        def body(params, vals, s1):
            ts = []
            for v, kd in zip(vals, kinds):
                if kd in ("optkey", "optint"):
                    ts.append("none" if getattr(v, "isnone", False) else f"(some {v.term})")
                elif kd == "param":
                    ts.append("Val.none" if getattr(v, "isnone", False) else v.term)
                else:
                    ts.append(v.term)
            x, s2 = self.fresh("v"), self.fresh("s")
            return f"callVal ({lean} Owner.lib {s1} {' '.join(ts)}) fun {s2} {x} => " + k(V("val", x, prov="own"), s2)
        return self.args_of(name, node, env, s, body)

    # comprehensions: element functions over the heap
    def elemfn(self, node, var, owner):
        """`self._ensure_copy(var)` / `[self._ensure_copy(i) for i in var]` as a function  Heap → element → Heap × element"""
        if (isinstance(node, ast.Call) and _u(node.func) == "self._ensure_copy" and len(node.args) == 1
                and isinstance(node.args[0], ast.Name) and node.args[0].id == var):
            return f"(ensureCopy {owner})", "val"
        if (isinstance(node, ast.ListComp) and len(node.generators) == 1 and not node.generators[0].ifs
                and isinstance(node.generators[0].iter, ast.Name) and node.generators[0].iter.id == var
                and isinstance(node.generators[0].target, ast.Name)):
            f, kd = self.elemfn(node.elt, node.generators[0].target.id, owner)
            if kd == "val":
                return f"(mapList {f})", "vlist"
            if kd == "alias":       # a new list holding the SAME elements
                return "(mapList (fun h x => (h, x)))", "vlist"
        if isinstance(node, ast.Name) and node.id == var:
            return "(fun h x => (h, x))", "alias"
        raise Unavailable(f"comprehension element {_u(node)}")

    def dictcomp(self, node, env, s, k):
        if len(node.generators) != 1 or node.generators[0].ifs:
            raise Unavailable(f"comprehension {_u(node)}")
        g = node.generators[0]
        if not (isinstance(g.target, ast.Tuple) and len(g.target.elts) == 2 and all(isinstance(e, ast.Name) for e in g.target.elts)):
            raise Unavailable(f"comprehension target {_u(g.target)}")
        kn, vn = (e.id for e in g.target.elts)
        if not (isinstance(node.key, ast.Name) and node.key.id == kn):
            raise Unavailable(f"comprehension key {_u(node.key)}")

        def fin(it, s1):
            if it.kind != "items":
                raise Unavailable(f"comprehension over {_u(g.iter)}")
            return k(V("mapassoc", None, elt=node.value, var=vn, src=it.of), s1)
        return self.expr(g.iter, env, s, fin)

    def dictlit(self, node, env, s, k):
        keys = [kk.value if isinstance(kk, ast.Constant) else None for kk in node.keys]
        if keys != ["_current", "_history", "n_dim"]:
            raise Unavailable(f"dictionary literal with keys {keys}")

        def f1(a, s1):
            def f2(b, s2):
                def f3(c, s3):
                    if c.kind != "ndim":
                        raise Unavailable(f"exported n_dim is {_u(node.values[2])}")
                    return k(V("export", None, cur=a, hist=b), s3)
                return self.expr(node.values[2], env, s2, f3)
            return self.expr(node.values[1], env, s1, f2)
        return self.expr(node.values[0], env, s, f1)

    # ------------------------------------------------------------------ materialisation of lazy values at a sink
    def mat(self, v, owner, s, k):
        """perform the allocations of `v` for receiver `owner`; k(concrete value, state)"""
        if v.kind in ("val", "vlist", "dict", "cdict", "hist", "chist", "key", "int", "bool"):
            return k(v, s)
        if v.kind in ("copy", "deepcopy", "bufcopy"):
            fn = {"copy": "ensureCopy", "deepcopy": "deepCopy", "bufcopy": "bufCopy"}[v.kind]

            def fin(inner, s1):
                if inner.kind != "val":
                    raise Unavailable(f"copy of a {inner.kind}")
                if getattr(inner, "isnone", False) and v.kind == "copy":
                    return k(inner, s1)
                c, s2 = self.fresh("c"), self.fresh("s")
                return (f"let {c} := {fn} {owner} (heapOf {s1}) {inner.term}; let {s2} := setHeap {s1} {c}.1; "
                        + k(V("val", f"{c}.2", prov="own"), s2))
            return self.mat(v.of, owner, s, fin)
        if v.kind == "mapassoc":
            f, kd = self.elemfn(v.elt, v.var, owner)
            src = v.src
            if (src.kind in ("dict", "cdict") and kd not in ("val", "alias")) or (src.kind in ("hist", "chist") and kd not in ("vlist", "alias")):
                raise Unavailable(f"comprehension element of kind {kd} over a {src.kind}")
            c, s2 = self.fresh("c"), self.fresh("s")
            outk = "dict" if src.kind in ("dict", "cdict") else "hist"
            if kd == "alias":
                return k(V("c" + outk if src.kind.startswith("c") else outk, src.term, aliased=True), s)
            return (f"let {c} := mapAssoc {f} (heapOf {s}) {src.term}; let {s2} := setHeap {s} {c}.1; "
                    + k(V(outk, f"{c}.2"), s2))
        if v.kind == "stack":
            x, s2 = self.fresh("v"), self.fresh("s")
            return f"{v.fn} {'true' if v.deep else 'false'} {owner} {s} {v.lst} fun {s2} {x} => " + k(V("val", x, prov="own"), s2)
        if v.kind == "logwcall":
            x, s2 = self.fresh("v"), self.fresh("s")
            return f"logwCall {owner} {s} fun {s2} {x} => " + k(V("val", x, prov="own"), s2)
        if v.kind == "ifexp":
            return f"(if {v.cond} then " + self.mat(v.a, owner, s, k) + " else " + self.mat(v.b, owner, s, k) + ")"
        raise Unavailable(f"value of kind {v.kind} at a sink")

    # ------------------------------------------------------------------ statements
    def ret(self, v, s, top):
        """`return v` of a public method (receiver `o`)"""
        if v is None or getattr(v, "isnone", False):
            return f"({s}, some Res.unit)" if v is None else f"retVal o {s} Val.none"
        if v.kind == "export":
            return self.mat(v.cur, "o", s, lambda a, s1: self.mat(v.hist, "o", s1, lambda b, s2: f"retExport o {s2} {a.term} {b.term}"))

        def fin(c, s1):
            if c.kind == "val" and getattr(c, "prov", "") == "param":
                return f"retParam {s1} {c.term}"
            if c.kind == "val" and getattr(c, "prov", "") == "caller":
                return f"retParam {s1} {c.term}"
            if c.kind == "val":
                return f"retVal o {s1} {c.term}"
            if c.kind == "dict":
                if getattr(c, "aliased", False) or getattr(c, "which", None):
                    return f"retInternalDict {s1} {c.term}"
                return f"retDict o {s1} {c.term}"
            raise Unavailable(f"return of a {c.kind}")
        return self.mat(v, "o", s, fin)

    def assigned(self, stmts):
        out = set()
        for st in stmts:
            for n in ast.walk(st):
                if isinstance(n, (ast.Assign, ast.AugAssign)):
                    for t in (n.targets if isinstance(n, ast.Assign) else [n.target]):
                        for e in ast.walk(t):
                            if isinstance(e, ast.Name) and isinstance(e.ctx, ast.Store):
                                out.add(e.id)
        return out

    def stmts(self, body, env, s, retk, fallk, top):
        """compile a statement list; `retk(value|None, s)` at a `return`, `fallk(env, s)` when the list is exhausted"""
        if not body:
            return fallk(env, s)
        st, rest = body[0], body[1:]
        nxt = lambda e, s1: self.stmts(rest, e, s1, retk, fallk, top)          # noqa: E731
        if isinstance(st, ast.Expr) and isinstance(st.value, ast.Constant):
            return nxt(env, s)
        if isinstance(st, ast.Pass):
            return nxt(env, s)
        if isinstance(st, ast.Continue):
            if not getattr(self, "loops", None):
                raise Unavailable("continue outside a loop")
            return self.loops[-1](s)
        if isinstance(st, ast.Return):
            if st.value is None:
                return retk(None, s)
            return self.expr(st.value, env, s, lambda v, s1: retk(v, s1))
        if isinstance(st, ast.Raise):
            exc = st.exc
            name = _u(exc.func) if isinstance(exc, ast.Call) else _u(exc) if exc is not None else "?"
            if name not in ERRS:
                raise Unavailable(f"raise {name}")
            return f"raise {s} {ERRS[name]}"
        if isinstance(st, ast.If):
            return self.if_(st, rest, env, s, retk, fallk, top)
        if isinstance(st, ast.For):
            return self.for_(st, rest, env, s, retk, fallk, top)
        if isinstance(st, ast.Assign) and len(st.targets) == 1:
            return self.assign(st, env, s, nxt)
        if isinstance(st, ast.Expr) and isinstance(st.value, ast.Call):
            return self.exprstmt(st.value, env, s, nxt)
        raise Unavailable(f"statement {_u(st)}")

    def if_(self, st, rest, env, s, retk, fallk, top):
        t = st.test
        # narrowing of an Optional parameter:  if p is None / if p is not None
        if (isinstance(t, ast.Compare) and len(t.ops) == 1 and isinstance(t.ops[0], (ast.Is, ast.IsNot))
                and isinstance(t.comparators[0], ast.Constant) and t.comparators[0].value is None
                and isinstance(t.left, ast.Name) and t.left.id in env and env[t.left.id].kind in ("optkey", "optint")):
            p = env[t.left.id]
            x = self.fresh("k" if p.kind == "optkey" else "i")
            e_none = dict(env)
            e_none[t.left.id] = V("val", "Val.none", prov="const", isnone=True)
            e_some = dict(env)
            e_some[t.left.id] = V("key" if p.kind == "optkey" else "int", x)
            b_none, b_some = (st.body, st.orelse) if isinstance(t.ops[0], ast.Is) else (st.orelse, st.body)
            return (f"(match {p.term} with | none => " + self.stmts(list(b_none) + rest, e_none, s, retk, fallk, top)
                    + f" | some {x} => " + self.stmts(list(b_some) + rest, e_some, s, retk, fallk, top) + ")")

        def fin(c, s1):
            if c.kind == "hasobject" and self.is_stacked(c.of):
                # if out.dtype.hasobject: return copy.deepcopy(out)   [else:] return out
                alt = list(st.orelse) + rest
                if (len(st.body) == 1 and isinstance(st.body[0], ast.Return) and alt and isinstance(alt[0], ast.Return)
                        and isinstance(alt[0].value, ast.Name) and env.get(alt[0].value.id) is c.of
                        and isinstance(st.body[0].value, ast.Call) and _u(st.body[0].value.func) in DEEP_COPY_FUNCS
                        and len(st.body[0].value.args) == 1 and isinstance(st.body[0].value.args[0], ast.Name)
                        and env.get(st.body[0].value.args[0].id) is c.of):
                    return retk(self.deepen(c.of), s1)
                raise Unavailable(f"test of the dtype of a stacked array guards {_u(st.body[0])}")
            if c.kind == "bool" and c.term in ("true", "false"):
                return self.stmts(list(st.body if c.term == "true" else st.orelse) + rest, env, s1, retk, fallk, top)
            if c.kind == "bool" and c.term in ("ndimPresent", "(!ndimPresent)"):
                # `if "n_dim" in state_dict: self.n_dim = …` — n_dim is not modelled
                if all(isinstance(x, ast.Assign) and _u(x.targets[0]) == "self.n_dim" for x in st.body) and not st.orelse:
                    self.notes.append(("skipped", _u(st)))
                    return self.stmts(rest, env, s1, retk, fallk, top)
                raise Unavailable(f"test on n_dim guards {_u(st)}")
            tt, bt, bf = self.truth(c), list(st.body), list(st.orelse)
            if tt.startswith("(!") and tt.endswith(")") and tt.count("(") == tt.count(")"):
                tt, bt, bf = tt[2:-1], bf, bt          # normal form: `if not c: A else: B`  =  `if c: B else: A`
            return (f"(if {tt} then " + self.stmts(bt + rest, env, s1, retk, fallk, top)
                    + " else " + self.stmts(bf + rest, env, s1, retk, fallk, top) + ")")
        return self.expr(t, env, s, fin)

    def for_(self, st, rest, env, s, retk, fallk, top):
        if st.orelse:
            raise Unavailable("for/else")
        # accumulate pattern:  L = []; for x in S: if c: L.append(x)      →  S.filter c
        if (len(st.body) == 1 and isinstance(st.body[0], ast.If) and not st.body[0].orelse and len(st.body[0].body) == 1
                and isinstance(st.target, ast.Name)):
            inner = st.body[0].body[0]
            if (isinstance(inner, ast.Expr) and isinstance(inner.value, ast.Call) and isinstance(inner.value.func, ast.Attribute)
                    and inner.value.func.attr == "append" and isinstance(inner.value.func.value, ast.Name)
                    and inner.value.func.value.id in env and getattr(env[inner.value.func.value.id], "empty", False)
                    and len(inner.value.args) == 1 and isinstance(inner.value.args[0], ast.Name)
                    and inner.value.args[0].id == st.target.id):
                acc = inner.value.func.value.id
                x = self.fresh("x")

                def fin(it, s1):
                    if it.kind != "keylist":
                        raise Unavailable(f"loop over {_u(st.iter)}")
                    e2 = dict(env)
                    e2[st.target.id] = V("key", x)
                    box = {}

                    def got(c, s2):
                        if s2 != s1:
                            raise Unavailable("effect in a filter condition")
                        box["c"] = self.truth(c)
                        return ""
                    pre = self.expr(st.body[0].test, e2, s1, got)
                    if pre or "c" not in box:
                        raise Unavailable(f"filter condition {_u(st.body[0].test)} is not pure")
                    e3 = dict(env)
                    e3[acc] = V("keylist", f"(({it.term}).filter fun {x} => {box['c']})")
                    return self.stmts(rest, e3, s1, retk, fallk, top)
                return self.expr(st.iter, env, s, fin)
        if self.assigned(st.body) & (self.assigned(rest) | set(env)):
            pass    # locals of the body are private to one iteration; a later read of them would be unbound → Unavailable there

        def fin(it, s1):
            s2, x, s3 = self.fresh("s"), self.fresh("x"), self.fresh("s")
            e2 = dict(env)
            if it.kind == "keylist" and isinstance(st.target, ast.Name):
                e2[st.target.id] = V("key", x)
                lst = it.term
            elif it.kind == "items" and isinstance(st.target, ast.Tuple) and len(st.target.elts) == 2 \
                    and all(isinstance(e, ast.Name) for e in st.target.elts) and it.of.kind in ("dict", "cdict"):
                e2[st.target.elts[0].id] = V("key", f"{x}.1")
                e2[st.target.elts[1].id] = V("val", f"{x}.2", prov="caller" if it.of.kind == "cdict" else "own")
                lst = it.term
            else:
                raise Unavailable(f"loop over {_u(st.iter)} ({it.kind})")
            if not top and any(isinstance(n, ast.Return) for b in st.body for n in ast.walk(b)):
                raise Unavailable("loop with a return inside an inlined helper")
            # drop locals bound before the loop that the body reassigns: they would need a loop-carried variable
            for name in self.assigned(st.body):
                if name in env:
                    raise Unavailable(f"loop-carried local {name!r}")
            self.loops = getattr(self, "loops", []) + [lambda sx: f"({sx}, none)"]
            try:
                body = self.stmts(list(st.body), e2, s2, lambda v, sx: self.ret(v, sx, True), lambda e, sx: f"({sx}, none)", True)
            finally:
                self.loops = self.loops[:-1]
            return f"seq (forEach {lst} {s1} fun {s2} {x} => {body}) fun {s3} => " + self.stmts(rest, env, s3, retk, fallk, top)
        return self.expr(st.iter, env, s, fin)

    def assign(self, st, env, s, nxt):
        t = st.targets[0]
        if isinstance(t, ast.Name):
            def fin(v, s1):
                e2 = dict(env)
                e2[t.id] = v
                return nxt(e2, s1)
            return self.expr(st.value, env, s, fin)
        if isinstance(t, ast.Tuple) and len(t.elts) == 2 and all(isinstance(e, ast.Name) for e in t.elts):
            def fin(v, s1):
                if v.kind != "logwcall":
                    raise Unavailable(f"tuple assignment {_u(st)}")
                e2 = dict(env)
                e2[t.elts[0].id] = v
                e2[t.elts[1].id] = V("unused", None)
                return nxt(e2, s1)
            return self.expr(st.value, env, s, fin)
        ts = _u(t)
        if ts == "self._results_dict":
            def fin(v, s1):
                s2 = self.fresh("s")
                if getattr(v, "isnone", False):
                    return f"let {s2} := setCache {s1} none; " + nxt(env, s2)
                if v.kind == "emptydict":
                    return f"let {s2} := setCache {s1} (some []); " + nxt(env, s2)
                raise Unavailable(f"{_u(st)}")
            return self.expr(st.value, env, s, fin)
        if ts == "self.n_dim":
            self.notes.append(("skipped", _u(st)))
            return nxt(env, s)
        if isinstance(t, ast.Subscript) and _u(t.value) in ("self._current", "self._results_dict"):
            which = _u(t.value)

            def fin(kv, s1):
                if kv.kind != "key":
                    raise Unavailable(f"store key {_u(t.slice)}")

                def fin2(v, s2):
                    def store(c, s3):
                        if c.kind != "val":
                            raise Unavailable(f"store of a {c.kind}")
                        s4 = self.fresh("s")
                        if which == "self._results_dict":
                            return f"let {s4} := cachePut {s3} {kv.term} {c.term}; " + nxt(env, s4)
                        fn = "storeCurAlias" if getattr(c, "prov", "") in ("caller", "param") else "storeCur"
                        return f"let {s4} := {fn} {s3} {kv.term} {c.term}; " + nxt(env, s4)
                    return self.mat(v, "Owner.lib", s2, store)
                return self.expr(st.value, env, s1, fin2)
            return self.expr(t.slice, env, s, fin)
        raise Unavailable(f"assignment {_u(st)}")

    def exprstmt(self, c, env, s, nxt):
        f = c.func
        fs = _u(f)
        if fs.startswith("self.") and fs[5:] in self.methods and fs[5:].startswith("_"):
            return self.inline(fs[5:], c, env, s, lambda v, s1: nxt(env, s1))
        if isinstance(f, ast.Attribute) and f.attr == "append" and len(c.args) == 1 and isinstance(f.value, ast.Subscript) \
                and _u(f.value.value) == "self._history":
            def fin(kv, s1):
                if kv.kind != "key":
                    raise Unavailable(f"{_u(c)}")

                def fin2(v, s2):
                    def store(cv, s3):
                        if cv.kind != "val":
                            raise Unavailable(f"append of a {cv.kind}")
                        s4 = self.fresh("s")
                        fn = "appendHistAlias" if getattr(cv, "prov", "") in ("caller", "param") else \
                            "appendHistShared" if not cv.term.endswith(".2") else "appendHist"
                        return f"let {s4} := {fn} {s3} {kv.term} {cv.term}; " + nxt(env, s4)
                    return self.mat(v, "Owner.lib", s2, store)
                return self.expr(c.args[0], env, s1, fin2)
            return self.expr(f.value.slice, env, s, fin)
        if isinstance(f, ast.Attribute) and f.attr == "update" and len(c.args) == 1 and _u(f.value) in ("self._current", "self._history"):
            which = _u(f.value)

            def fin(v, s1):
                def store(cv, s2):
                    want = "dict" if which == "self._current" else "hist"
                    s3 = self.fresh("s")
                    if cv.kind == want:
                        fn = "updateCur" if want == "dict" else "updateHist"
                    elif cv.kind == "c" + want:
                        fn = "updateCurAlias" if want == "dict" else "updateHistAlias"     # the caller's objects stored as they are
                    else:
                        raise Unavailable(f"{_u(c)}: update with a {cv.kind}")
                    return f"let {s3} := {fn} {s2} {cv.term}; " + nxt(env, s3)
                return self.mat(v, "Owner.lib", s1, store)
            return self.expr(c.args[0], env, s, fin)
        raise Unavailable(f"statement {_u(c)}")

    # ------------------------------------------------------------------ whole methods
    def method(self, name):
        lean, kinds = METHODS[name]
        fn = self.methods.get(name)
        if fn is None:
            raise Unavailable(f"method {name} not found")
        params = [a.arg for a in fn.args.args[1:]]
        if len(params) != len(kinds) or fn.args.vararg or fn.args.kwarg or fn.args.kwonlyargs:
            raise Unavailable(f"signature of {name}: ({', '.join(params)})")
        env, sig = {}, []
        for i, (p, kd) in enumerate(zip(params, kinds)):
            if kd == "sdict":
                env[p] = V("sdict", None, cur="pcur", hist="phist")
                sig.append("(pcur : Option (List (Key × Val))) (phist : Option (List (Key × List Val)))")
            else:
                env[p] = V({"cval": "val", "param": "val"}.get(kd, kd), f"p{i}", prov={"cval": "caller", "param": "param"}.get(kd, "own"))
                sig.append(f"(p{i} : {LEAN_TY[kd]})")
        self.n = 0
        body = self.stmts(fn.body, env, "s0", lambda v, s: self.ret(v, s, True), lambda e, s: f"({s}, none)", True)
        doc = f"/-- `StateManager.{name}({', '.join(params)})` -/"
        return f"{doc}\ndef {lean} (o : Owner) (s0 : St) {' '.join(sig)} : K :=\n  {body}\n"

    def ensure_copy(self):
        """`_ensure_copy(value)` as a function  Owner → Heap → Val → Heap × Val"""
        fn = self.methods.get("_ensure_copy")
        if fn is None or len(fn.args.args) != 2:
            raise Unavailable("_ensure_copy(self, value) not found")
        p = fn.args.args[1].arg
        env = {p: V("val", "v", prov="own")}

        def leaf(v, s):
            if v is None or getattr(v, "isnone", False):
                return "(hp, Val.none)"
            if v.kind == "val" and v.term == "v":
                return "(hp, v)"
            if v.kind in ("bufcopy", "deepcopy") and v.of.kind == "val" and v.of.term == "v":
                return f"{'bufCopy' if v.kind == 'bufcopy' else 'deepCopy'} o hp v"
            if v.kind == "ifexp":
                return f"(if {v.cond} then {leaf(v.a, s)} else {leaf(v.b, s)})"
            raise Unavailable(f"_ensure_copy returns a {v.kind}")
        body = self.stmts(fn.body, env, "s0", leaf, lambda e, s: "(hp, Val.none)", False)
        return ("/-- `StateManager._ensure_copy(value)`: what is returned for which kind of value -/\n"
                f"def ensureCopy (o : Owner) (hp : H) (v : Val) : H × Val :=\n  {body}\n")


def _parse():
    path = os.path.join(common.REPO, SM_FILE)
    with open(path) as fh:
        return ast.parse(fh.read(), filename=path)


def extract():
    tree = _parse()
    cls = next((n for n in tree.body if isinstance(n, ast.ClassDef) and n.name == "StateManager"), None)
    if cls is None:
        raise Unavailable("class StateManager not found")
    c = Comp(cls)
    defs = [c.ensure_copy()]
    # compute_results calls get_history: definitions in dependency order
    for name in ("get_current", "set_current", "update_current", "get_history", "get_last_history",
                 "commit_current_to_history", "compute_results", "to_dict", "update_from_dict"):
        try:
            defs.append(c.method(name))
        except RecursionError:
            raise Unavailable(f"{name}: expression nesting too deep")
    # from_dict: the call skeleton (a second manager is `freshIn` in the model)
    fd = c.methods.get("from_dict")
    if fd is None:
        raise Unavailable("from_dict not found")
    skel = []
    names = {}

    def canon(src_node):
        class R(ast.NodeTransformer):
            def visit_Name(self, n):
                if n.id in names:
                    return ast.copy_location(ast.Name(id=names[n.id], ctx=n.ctx), n)
                return n
        return _u(R().visit(ast.parse(ast.unparse(src_node)).body[0]))
    for i, a in enumerate(fd.args.args):
        names[a.arg] = f"a{i}"
    inl = {}

    class Sub(ast.NodeTransformer):
        def visit_Name(self, n):
            if isinstance(n.ctx, ast.Load) and n.id in inl:
                return inl[n.id]
            return n
    for st in fd.body:
        if isinstance(st, ast.Expr) and isinstance(st.value, ast.Constant):
            continue
        st = Sub().visit(ast.parse(ast.unparse(st)).body[0])
        if isinstance(st, ast.Assign) and len(st.targets) == 1 and isinstance(st.targets[0], ast.Name):
            v = st.value
            if not (isinstance(v, ast.Call) and isinstance(v.func, ast.Name) and v.func.id in names) \
                    and st.targets[0].id not in inl and st.targets[0].id not in names:
                inl[st.targets[0].id] = v          # a plain local (`n_dim = …`): substituted into its uses
                continue
            names.setdefault(st.targets[0].id, f"l{len(names)}")
        skel.append(canon(st))
    logw = [v for k, v in c.notes if k == "logwArgs"]
    skipped = sorted({v for k, v in c.notes if k == "skipped"})
    return defs, skel, logw, skipped


def render(defs, skel, logw, skipped):
    L = ["/- GENERATED by translate/g22_statemgr.py from /repo's current source — do not edit. -/",
         "import TempestVerif.Model.StateMgrPy",
         "set_option linter.unusedVariables false",
         "namespace Gen.StateMgrSrc", ""]
    for ns, mod in (("F", "Model.StateMgr"), ("N", "Model.StateMgrN")):
        L += [f"namespace {ns}",
              "open Model.StateMgr (Key Val Err lookup entries)", "open Model.StateMgrN (Owner)", f"open {mod} (Res)",
              f"open Model.StateMgrPy Model.StateMgrPy.{ns}", ""]
        L += defs
        L += [f"end {ns}", ""]
    L.append("/-- `StateManager.from_dict`, statement by statement (locals renamed in order of first assignment) -/")
    L.append("def fromDictCalls : List String := [" + ", ".join(_lstr(x) for x in skel) + "]")
    L.append("/-- the arguments of `self.compute_logw_and_logz(…)` inside `compute_results` -/")
    L.append("def resultsLogwArgs : List String := [" + ", ".join(_lstr(x) for x in logw) + "]")
    L.append("/-- statements that only touch `n_dim` (not modelled) -/")
    L.append("def skipped : List String := [" + ", ".join(_lstr(x) for x in skipped) + "]")
    L += ["", "end Gen.StateMgrSrc", ""]
    return "\n".join(L)


def generate():
    try:
        defs, skel, logw, skipped = extract()
    except Unavailable as e:
        return ("G22-statemgr-source", "unavailable", str(e))
    except (SyntaxError, OSError, RecursionError) as e:
        return ("G22-statemgr-source", "unavailable", f"{type(e).__name__}: {e}")
    changed = common.write_if_changed(os.path.join(common.GEN, "StateMgrSrc.lean"), render(defs, skel, logw, skipped))
    return ("G22-statemgr-source", "ok", f"{'re' if changed else ''}generated Gen/StateMgrSrc.lean ({len(defs)} definitions x 2 models)")


if __name__ == "__main__":
    print(generate())
