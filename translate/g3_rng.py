"""G3 — RNG effect table, regenerated from /repo's source (Python `ast` only).

For every function in tempest/** lists, in source order, each use of a random source:
    draw      np.random.<f>(…) / self._rng.<f>(…) / <private generator>.<f>(…)
    seed      np.random.seed(arg) with arg classified as  literal:<k> | config:<field> | attr:<name> | param:<name> | loaded:<key> | other
    private   np.random.RandomState(arg) / default_rng(arg)   (a private generator; does not touch the global stream)
plus, for classes that seed the GLOBAL generator from an attribute, every instantiation inside the package that passes
a literal for that attribute (that is how `HierarchicalGaussianMixture` used to reseed with 42).

G3 is the exception to the `unavailable` policy (DESIGN §3.1): an RNG source it does not recognise is a BROKEN
obligation, because the dynamic twin can only see draws that go through the attributes it wraps.
"""
import ast
import os

from harness import common

DRAWS = {"rand", "randn", "random", "random_sample", "gamma", "choice", "uniform", "normal", "randint", "permutation",
         "shuffle", "standard_normal", "multivariate_normal", "exponential", "beta", "binomial", "poisson", "standard_t"}


def _name(node):
    if isinstance(node, ast.Name):
        return node.id
    if isinstance(node, ast.Attribute):
        b = _name(node.value)
        return None if b is None else b + "." + node.attr
    return None


def _classify_arg(node, params):
    if node is None:
        return "none"
    if isinstance(node, ast.Constant):
        return f"literal:{node.value!r}"
    n = _name(node)
    if n is not None:
        if n.startswith("self.config."):
            return "config:" + n[len("self.config."):]
        if n.startswith("self."):
            return "attr:" + n[5:]
        if n in params:
            return "param:" + n
        return "other:" + n
    if isinstance(node, ast.Subscript) and isinstance(node.slice, ast.Constant):
        return f"loaded:{node.slice.value}"
    return "other"


def scan():
    sites = []          # (file, func, kind, what, arg, lineno)
    unknown = []        # unrecognised RNG sources
    inst_literals = []  # (file, func, class, attr, literal)
    classes_seeding_global = {}   # class -> attr
    root = os.path.join(common.REPO, "tempest")
    trees = {}
    for dp, _, fs in os.walk(root):
        for f in sorted(fs):
            if f.endswith(".py"):
                p = os.path.join(dp, f)
                trees[os.path.relpath(p, common.REPO)] = ast.parse(open(p).read())
    for rel, tree in sorted(trees.items()):
        imports_random = any(isinstance(n, ast.Import) and any(a.name == "random" for a in n.names) for n in ast.walk(tree)) or \
            any(isinstance(n, ast.ImportFrom) and n.module == "random" for n in ast.walk(tree))
        if imports_random:
            unknown.append((rel, "<module>", "stdlib `random` imported"))

        GEN_CTORS = ("np.random.RandomState", "numpy.random.RandomState", "np.random.default_rng", "numpy.random.default_rng",
                     "np.random.Generator", "RandomState", "default_rng")

        # --- aliases: every name under which numpy / numpy.random / a numpy.random function is reachable in this module
        np_alias, npr_alias, direct = {"np", "numpy"}, set(), {}
        for nd in ast.walk(tree):
            if isinstance(nd, ast.Import):
                for a in nd.names:
                    if a.name == "numpy":
                        np_alias.add(a.asname or "numpy")
                    elif a.name == "numpy.random":
                        if a.asname:
                            npr_alias.add(a.asname)
                        else:
                            np_alias.add("numpy")
                    elif a.name.split(".")[0] in ("secrets", "uuid"):
                        unknown.append((rel, "<module>", f"entropy source `{a.name}` imported (line {nd.lineno})"))
            elif isinstance(nd, ast.ImportFrom):
                if nd.module == "numpy":
                    for a in nd.names:
                        if a.name == "random":
                            npr_alias.add(a.asname or "random")
                        elif a.name == "*":
                            unknown.append((rel, "<module>", f"`from numpy import *` (line {nd.lineno}): numpy.random reachable as `random`"))
                elif nd.module in ("numpy.random", "numpy.random.mtrand"):
                    for a in nd.names:
                        if a.name == "*":
                            unknown.append((rel, "<module>", f"`from numpy.random import *` (line {nd.lineno}): unqualified RNG functions"))
                        else:
                            direct[a.asname or a.name] = a.name
                elif nd.module in ("secrets", "uuid"):
                    unknown.append((rel, "<module>", f"entropy source `{nd.module}` imported (line {nd.lineno})"))
                elif nd.module == "os" and any(a.name in ("urandom", "getrandom") for a in nd.names):
                    unknown.append((rel, "<module>", f"`os.urandom` imported (line {nd.lineno})"))

        def canon(n):
            """name of a call target with the module's aliases resolved to the spelling `np.random.<f>`"""
            if not n:
                return n
            parts = n.split(".")
            if len(parts) >= 2 and parts[0] in np_alias and parts[1] == "random":
                return ".".join(["np", "random"] + parts[2:])
            if parts[0] in npr_alias:
                return ".".join(["np", "random"] + parts[1:])
            if len(parts) == 1 and parts[0] in direct:
                return "np.random." + direct[parts[0]]
            return n

        # --- references to numpy.random (or to one of its functions) that are not the target of a call: each creates an
        # alias through which draws would bypass this table (`f = np.random.rand`, `r = np.random`, getattr(np, "random"), …)
        parent = {}
        for nd in ast.walk(tree):
            for ch in ast.iter_child_nodes(nd):
                parent[ch] = nd

        def is_npr(nd):
            return (isinstance(nd, ast.Attribute) and nd.attr == "random" and isinstance(nd.value, ast.Name) and nd.value.id in np_alias) \
                or (isinstance(nd, ast.Name) and nd.id in npr_alias)

        def owner(nd):
            cur, fn_name, cls_name = nd, None, None
            while cur in parent:
                cur = parent[cur]
                if isinstance(cur, (ast.FunctionDef, ast.AsyncFunctionDef)) and fn_name is None:
                    fn_name = cur.name
                if isinstance(cur, ast.ClassDef) and cls_name is None:
                    cls_name = cur.name
            return (f"{cls_name}.{fn_name}" if cls_name and fn_name else fn_name or "<module>")
        for nd in ast.walk(tree):
            if is_npr(nd) and isinstance(getattr(nd, "ctx", None), ast.Load):
                p = parent.get(nd)
                if isinstance(p, ast.Attribute) and p.value is nd:
                    pp = parent.get(p)
                    if isinstance(pp, ast.Call) and pp.func is p:
                        continue            # np.random.<f>(…): an ordinary call site, classified below
                    unknown.append((rel, owner(nd), f"reference to np.random.{p.attr} without calling it (line {p.lineno}): alias of an RNG function / class"))
                    continue
                if isinstance(p, ast.Assign) and p.value is nd and len(p.targets) == 1 and isinstance(p.targets[0], ast.Attribute) \
                        and p.targets[0].attr in ("_rng", "rng"):
                    continue                # self._rng = np.random : the attribute generator, modelled (argKind attr-generator)
                unknown.append((rel, owner(nd), f"numpy.random used as a value (line {nd.lineno}): alias of the RNG module"))
            elif isinstance(nd, ast.Name) and nd.id in direct and isinstance(nd.ctx, ast.Load):
                p = parent.get(nd)
                if not (isinstance(p, ast.Call) and p.func is nd):
                    unknown.append((rel, owner(nd), f"`{nd.id}` (numpy.random.{direct[nd.id]}) used as a value (line {nd.lineno})"))
            elif isinstance(nd, ast.Call) and isinstance(nd.func, ast.Name) and nd.func.id in ("getattr", "__import__", "eval", "exec"):
                txt = ast.unparse(nd)
                if "random" in txt or nd.func.id in ("eval", "exec", "__import__"):
                    unknown.append((rel, owner(nd), f"dynamic lookup `{txt[:60]}` (line {nd.lineno})"))
            elif isinstance(nd, ast.Call) and _name(nd.func) in ("os.urandom", "os.getrandom", "importlib.import_module"):
                unknown.append((rel, owner(nd), f"`{_name(nd.func)}` (line {nd.lineno})"))
        # names holding a private generator: `_rng` / `rng` and every target a generator constructor is assigned to
        gen_holders = {"_rng", "rng"}
        for nd in ast.walk(tree):
            if isinstance(nd, ast.Assign) and isinstance(nd.value, ast.Call) and canon(_name(nd.value.func) or "") in GEN_CTORS:
                for t in nd.targets:
                    tn = _name(t)
                    if tn:
                        gen_holders.add(tn.split(".")[-1])

        def visit_func(fn, qual):
            params = {a.arg for a in fn.args.args + fn.args.kwonlyargs}
            # a generator built in a DEFAULT ARGUMENT is created once, at definition time, and shared by every call in the
            # process: its stream carries over from one fit / run to the next, which no per-call table entry can express
            for dflt in list(fn.args.defaults) + [d for d in fn.args.kw_defaults if d is not None]:
                for c in ast.walk(dflt):
                    if isinstance(c, ast.Call) and canon(_name(c.func) or "") in GEN_CTORS:
                        unknown.append((rel, qual, f"generator constructed in a default argument (line {c.lineno}): shared across calls"))
            calls = sorted((n for n in ast.walk(fn) if isinstance(n, ast.Call)), key=lambda n: (n.lineno, n.col_offset))
            for c in calls:
                n = canon(_name(c.func) or "")
                parts = n.split(".")
                last = parts[-1]
                if n in ("np.random.seed", "numpy.random.seed"):
                    arg = c.args[0] if c.args else (c.keywords[0].value if c.keywords else None)
                    sites.append((rel, qual, "seed", "np.random.seed", _classify_arg(arg, params), c.lineno))
                elif n == "np.random.get_state":
                    # reads the position of the process-wide stream; consumes nothing
                    sites.append((rel, qual, "getstate", "np.random.get_state", "none", c.lineno))
                elif n == "np.random.set_state":
                    # puts the process-wide stream to a stored position; where the stored value comes from is an obligation
                    arg = c.args[0] if c.args else (c.keywords[0].value if c.keywords else None)
                    sites.append((rel, qual, "setstate", "np.random.set_state", _classify_arg(arg, params), c.lineno))
                elif n in ("np.random.RandomState", "numpy.random.RandomState", "np.random.default_rng", "numpy.random.default_rng",
                           "np.random.Generator", "RandomState", "default_rng"):
                    arg = c.args[0] if c.args else None
                    sites.append((rel, qual, "private", n, _classify_arg(arg, params), c.lineno))
                elif len(parts) >= 3 and parts[-3:-1] == ["np", "random"] or (len(parts) >= 3 and parts[-3:-1] == ["numpy", "random"]):
                    if last in DRAWS:
                        sites.append((rel, qual, "draw", n, "global", c.lineno))
                    else:
                        unknown.append((rel, qual, f"np.random.{last} (line {c.lineno})"))
                elif len(parts) >= 2 and parts[-2] in gen_holders and last in DRAWS:
                    sites.append((rel, qual, "draw", n, "attr-generator", c.lineno))
                elif last == "rvs":
                    unknown.append((rel, qual, f"scipy-style .rvs() (line {c.lineno})"))
        def visit_static(stmt, qual):
            # module-level / class-level statements run once at import: a generator or a seeding call there is process-wide state
            for c in ast.walk(stmt):
                if isinstance(c, ast.Call):
                    n = canon(_name(c.func) or "")
                    if n in GEN_CTORS or n in ("np.random.seed", "numpy.random.seed", "np.random.set_state") or (n.startswith("np.random.") and n.split(".")[-1] in DRAWS):
                        unknown.append((rel, qual, f"{n} at import time (line {c.lineno}): process-wide shared random state"))
        for node in tree.body:
            if isinstance(node, ast.FunctionDef):
                visit_func(node, node.name)
            elif isinstance(node, ast.ClassDef):
                for f in node.body:
                    if isinstance(f, ast.FunctionDef):
                        visit_func(f, f"{node.name}.{f.name}")
                    else:
                        visit_static(f, f"{node.name}.<class body>")
            else:
                visit_static(node, "<module>")
    # classes seeding the GLOBAL generator from an attribute
    for (rel, qual, kind, what, arg, ln) in sites:
        if kind == "seed" and arg.startswith("attr:") and "." in qual:
            classes_seeding_global[qual.split(".")[0]] = arg[5:]
    for rel, tree in sorted(trees.items()):
        for node in ast.walk(tree):
            if isinstance(node, ast.Call):
                cn = (_name(node.func) or "").split(".")[-1]
                if cn in classes_seeding_global:
                    attr = classes_seeding_global[cn]
                    for kw in node.keywords:
                        if kw.arg == attr and isinstance(kw.value, ast.Constant) and kw.value.value is not None:
                            inst_literals.append((rel, cn, attr, repr(kw.value.value), node.lineno))
    # functions seeding the GLOBAL generator from one of their PARAMETERS: a call site inside the package that passes that
    # parameter (anything but the literal None) makes the library itself reseed the process-wide stream there
    fn_params = {}     # function name -> (param, positional index)
    for rel, tree in sorted(trees.items()):
        for fn in [n for n in ast.walk(tree) if isinstance(n, ast.FunctionDef)]:
            names = [a.arg for a in fn.args.args]
            for c in ast.walk(fn):
                if isinstance(c, ast.Call) and (_name(c.func) or "") in ("np.random.seed", "numpy.random.seed"):
                    arg = c.args[0] if c.args else (c.keywords[0].value if c.keywords else None)
                    an = _name(arg) if arg is not None else None
                    if an in names or an in {a.arg for a in fn.args.kwonlyargs}:
                        idx = names.index(an) if an in names else None
                        if idx is not None and names and names[0] == "self":
                            idx -= 1
                        fn_params[fn.name] = (an, idx)
    param_seed_calls = []
    for rel, tree in sorted(trees.items()):
        for node in ast.walk(tree):
            if isinstance(node, ast.Call):
                cn = (_name(node.func) or "").split(".")[-1]
                if cn in fn_params:
                    pn, idx = fn_params[cn]
                    passed = [kw.value for kw in node.keywords if kw.arg == pn]
                    if idx is not None and len(node.args) > idx:
                        passed.append(node.args[idx])
                    if any(kw.arg is None for kw in node.keywords) or any(isinstance(a, ast.Starred) for a in node.args):
                        passed.append(ast.Name(id="<star-args>"))
                    for v in passed:
                        if not (isinstance(v, ast.Constant) and v.value is None):
                            param_seed_calls.append((rel, cn, pn, ast.unparse(v) if not isinstance(v, ast.Name) else v.id, node.lineno))
    scan.param_seed_calls = param_seed_calls
    # checkpoint data flow of the stream position:  <dict>["k"] = np.random.get_state()  …  np.random.set_state(<dict>["k"])
    saved = []
    for rel, tree in sorted(trees.items()):
        for fn in [n for n in ast.walk(tree) if isinstance(n, ast.FunctionDef)]:
            for a in ast.walk(fn):
                if isinstance(a, ast.Assign) and isinstance(a.value, ast.Call) and (_name(a.value.func) or "") in ("np.random.get_state", "numpy.random.get_state"):
                    for t in a.targets:
                        if isinstance(t, ast.Subscript) and isinstance(t.slice, ast.Constant) and isinstance(t.slice.value, str):
                            saved.append((rel, fn.name, t.slice.value))
    # drawing call sites that sit lexically inside a `while` / `for` of their function: their number of executions is
    # data-dependent (adaptive), which is what Model.RngSites models with a loop (mcmcLoop, forEach over label groups, warmRedraw)
    loop_sites = []
    draw_lines = {(a, ln): (b, d) for a, b, c, d, e, ln in sites if c == "draw"}
    for rel, tree in sorted(trees.items()):
        par = {}
        for nd in ast.walk(tree):
            for ch in ast.iter_child_nodes(nd):
                par[ch] = nd
        for nd in ast.walk(tree):
            if isinstance(nd, ast.Call) and (rel, nd.lineno) in draw_lines:
                cur, kind = nd, None
                while cur in par:
                    cur = par[cur]
                    if isinstance(cur, (ast.FunctionDef, ast.AsyncFunctionDef)):
                        break
                    if isinstance(cur, (ast.While, ast.For)):
                        kind = "while" if isinstance(cur, ast.While) else "for"
                        break
                if kind:
                    loop_sites.append(draw_lines[(rel, nd.lineno)] + (kind,))
    scan.loop_sites = sorted(set(loop_sites))
    scan.saved_state_keys = saved
    scan.restore_keys = [(b, e.split(":", 1)[1]) for a, b, c, d, e, _ in sites if c == "setstate" and e.startswith("loaded:")]
    return sites, unknown, inst_literals


def _run_seeded_before_loop():
    """run_sampling: the fresh branch calls _initialize_fresh (which seeds from config.random_state) before the while loop"""
    tree = ast.parse(open(os.path.join(common.REPO, "tempest/core.py")).read())
    res = {"fresh_before_loop": 0, "init_seeds_config": 0, "seed_guarded_not_none": 0, "fresh_only_when_history_empty": 0}
    for cls in [n for n in ast.walk(tree) if isinstance(n, ast.ClassDef) and n.name == "SamplerCore"]:
        for f in cls.body:
            if isinstance(f, ast.FunctionDef) and f.name == "run_sampling":
                wl = [n.lineno for n in f.body if isinstance(n, ast.While)]
                calls = [n for n in ast.walk(f) if isinstance(n, ast.Call) and _name(n.func) == "self._initialize_fresh"]
                if wl and calls and all(c.lineno < wl[0] for c in calls):
                    res["fresh_before_loop"] = 1
                # the call sits on the FINAL else of  `if resume…: … elif self.state.get_history_length() > 0: … else: …`
                # and neither earlier branch seeds: a run seeds only before the first committed batch
                for st in f.body:
                    if isinstance(st, ast.If) and any(c in list(ast.walk(st)) for c in calls):
                        chain, cur = [], st
                        while isinstance(cur, ast.If):
                            chain.append(cur)
                            cur = cur.orelse[0] if len(cur.orelse) == 1 and isinstance(cur.orelse[0], ast.If) else None
                        last = chain[-1]
                        in_final_else = all(any(c in list(ast.walk(x)) for x in last.orelse) for c in calls)
                        hist = [b for b in chain if "get_history_length" in ast.dump(b.test) and isinstance(b.test, ast.Compare)
                                and len(b.test.ops) == 1 and isinstance(b.test.ops[0], ast.Gt)
                                and isinstance(b.test.comparators[0], ast.Constant) and b.test.comparators[0].value == 0]
                        others_clean = all(not any(isinstance(n, ast.Call) and (_name(n.func) or "").endswith((".seed", "_initialize_fresh"))
                                                   for x in b.body for n in ast.walk(x)) for b in chain)
                        if in_final_else and hist and others_clean:
                            res["fresh_only_when_history_empty"] = 1
            if isinstance(f, ast.FunctionDef) and f.name == "_initialize_fresh":
                for n in ast.walk(f):
                    if isinstance(n, ast.If):
                        t = ast.dump(n.test)
                        body_seeds = any(isinstance(c, ast.Call) and _name(c.func) == "np.random.seed" and c.args
                                         and _name(c.args[0]) == "self.config.random_state" for c in ast.walk(n))
                        if body_seeds:
                            res["init_seeds_config"] = 1
                            if "IsNot" in t and "random_state" in t and "None" in t:
                                res["seed_guarded_not_none"] = 1
                # the seed must come before any draw in the function: there are no draws in _initialize_fresh at all
    return res


def render(sites, unknown, inst, flow):
    def q(s):
        return '"' + str(s).replace("\\", "\\\\").replace('"', '\\"') + '"'
    L = ["/- GENERATED by translate/g3_rng.py from /repo's current source — do not edit. -/",
         "namespace Gen.Rng", "",
         "structure Site where", "  file : String", "  func : String", "  kind : String   -- draw | seed | private | getstate | setstate",
         "  what : String", "  argKind : String   -- literal | config | loaded | param | attr | other | global | attr-generator | none",
         "  arg : String", "deriving DecidableEq, Repr", "",
         "def sites : List Site := ["]
    L.append(",\n".join(f"  ⟨{q(a)}, {q(b)}, {q(c)}, {q(d)}, {q(e.split(':')[0])}, {q(e)}⟩" for a, b, c, d, e, _ in sites))
    L.append("]")
    L.append("")
    L.append("/-- RNG sources the translator does not recognise (must be empty) -/")
    L.append("def unknownSources : List (String × String × String) := [" + ", ".join(f"({q(a)}, {q(b)}, {q(c)})" for a, b, c in unknown) + "]")
    L.append("")
    L.append("/-- instantiations, inside the package, of a class that seeds the GLOBAL generator from an attribute, passing a literal for it -/")
    L.append("def literalSeedInstantiations : List (String × String × String × String) := [" +
             ", ".join(f"({q(a)}, {q(b)}, {q(c)}, {q(d)})" for a, b, c, d, _ in inst) + "]")
    L.append("")
    L.append("/-- call sites, inside the package, that pass a value for the seed PARAMETER of a function seeding the GLOBAL generator from it -/")
    L.append("def paramSeedCallSites : List (String × String × String × String) := [" +
             ", ".join(f"({q(a)}, {q(b)}, {q(c)}, {q(d)})" for a, b, c, d, _ in getattr(scan, "param_seed_calls", [])) + "]")
    L.append("")
    L.append("/-- drawing call sites lexically inside a loop of their function: (function, numpy call, while | for) -/")
    L.append("def loopDrawSites : List (String × String × String) := [" +
             ", ".join(f"({q(a)}, {q(b)}, {q(c)})" for a, b, c in getattr(scan, "loop_sites", [])) + "]")
    L.append("")
    L.append("/-- where the stream position is WRITTEN into a checkpoint dictionary: (function, key) of `d[key] = np.random.get_state()` -/")
    L.append("def savedStateKeys : List (String × String) := [" +
             ", ".join(f"({q(b)}, {q(c)})" for a, b, c in getattr(scan, "saved_state_keys", [])) + "]")
    L.append("/-- where it is RESTORED from one: (function, key) of `np.random.set_state(d[key])` -/")
    L.append("def restoreKeys : List (String × String) := [" +
             ", ".join(f"({q(a)}, {q(b)})" for a, b in getattr(scan, "restore_keys", [])) + "]")
    L.append("")
    for k, v in flow.items():
        L.append(f"def {k} : Nat := {v}")
    L += ["", "end Gen.Rng", ""]
    return "\n".join(L)


def generate():
    try:
        sites, unknown, inst = scan()
        flow = _run_seeded_before_loop()
    except (SyntaxError, OSError) as e:
        return ("G3-rng-effects", "broken", f"{type(e).__name__}: {e}")
    changed = common.write_if_changed(os.path.join(common.GEN, "Rng.lean"), render(sites, unknown, inst, flow))
    if unknown:
        return ("G3-rng-effects", "broken", f"unrecognised RNG source(s): {unknown[:3]}")
    return ("G3-rng-effects", "ok", f"{'re' if changed else ''}generated Gen/Rng.lean ({len(sites)} sites)")


def static_sites():
    sites, _, _ = scan()
    return {(a, ln) for a, b, c, d, e, ln in sites}


if __name__ == "__main__":
    s, u, i = scan()
    for x in s:
        print(x)
    print("unknown", u)
    print("inst", i)
    print(_run_seeded_before_loop())
    print(generate())
