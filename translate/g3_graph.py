"""G3b — call graph of tempest/** with the RNG role of every function, regenerated from /repo's source (Python `ast` only).

Purpose (C09): turn "the seeding call sits in `_initialize_fresh`" into statements about what a PUBLIC OPERATION can reach:
    * one sampler iteration (`SamplerCore.execute_iteration`) reaches no function that seeds the process-wide stream, except
      `systematic_resample` whose seed is a parameter no call inside the package passes;
    * constructing a sampler reaches no RNG use at all;
    * the read-side operations (posterior / evidence / results) reach no seeding;
    * a clustering fit reaches no process-wide draw (every `GaussianMixture(` built inside the package gets a literal seed,
      i.e. a private generator);
    * nothing that may draw runs before the seeding on the fresh path of `run_sampling`.

Resolution of a call `recv.m(…)`: the receiver's class is inferred from `self`, `cls`, constructor calls, annotated
parameters and `self.x = …` assignments; methods are then looked up in the class, its ancestors and its descendants
(virtual dispatch).  Whatever cannot be resolved falls back to EVERY function or method of that name, and a call through a
callable value (`self.log_likelihood(x)`) to every function whose reference escapes anywhere in the package.  The graph is
therefore an over-approximation; the dynamic twin (harness/c09.py, suite `call-graph`) checks that every call edge observed
on real runs is in it.

Emits Gen/RngGraph.lean: `funcNames`, `edges`, role lists, root ids and, as CERTIFICATES, the reachable sets computed here
— `Props/C09Graph.lean` re-checks in Lean that each is closed under `edges` and contains its roots.
"""
import ast
import os

from harness import common
from translate import g3_rng

CTOR = ("__init__", "__post_init__", "__new__")
DYNAMIC = ("getattr", "eval", "exec", "__import__", "vars", "globals", "locals", "compile")


class Fn:
    def __init__(self, fid, rel, qual, cls, name, node):
        self.id, self.rel, self.qual, self.cls, self.name, self.node = fid, rel, qual, cls, name, node
        self.is_prop = False


def _parents(tree):
    par = {}
    for n in ast.walk(tree):
        for c in ast.iter_child_nodes(n):
            par[c] = n
    return par


def build():
    root = os.path.join(common.REPO, "tempest")
    trees = {}
    for dp, _, fs in os.walk(root):
        for f in sorted(fs):
            if f.endswith(".py"):
                p = os.path.join(dp, f)
                trees[os.path.relpath(p, common.REPO)] = ast.parse(open(p).read())
    funcs = []
    classes = {}      # name -> dict(rel, bases, methods{name: id})
    modfuncs = {}     # simple name -> [ids] (module-level functions)
    ext_modules = set()   # names bound to external modules / objects by import statements
    pkg_imported = set()

    def add(rel, qual, cls, name, node):
        fn = Fn(len(funcs), rel, qual, cls, name, node)
        funcs.append(fn)
        return fn

    def visit_class(rel, node, prefix=""):
        cname = node.name
        classes[cname] = {"rel": rel, "bases": [b.id if isinstance(b, ast.Name) else getattr(b, "attr", "") for b in node.bases],
                          "methods": {}, "node": node}
        for f in node.body:
            if isinstance(f, (ast.FunctionDef, ast.AsyncFunctionDef)):
                fn = add(rel, f"{prefix}{cname}.{f.name}", cname, f.name, f)
                fn.is_prop = any((isinstance(d, ast.Name) and d.id in ("property", "cached_property")) or
                                 (isinstance(d, ast.Attribute) and d.attr in ("setter", "getter", "cached_property"))
                                 for d in f.decorator_list)
                classes[cname]["methods"].setdefault(f.name, []).append(fn.id)
            elif isinstance(f, ast.ClassDef):
                visit_class(rel, f, prefix=f"{prefix}{cname}.")

    for rel, tree in sorted(trees.items()):
        for node in tree.body:
            if isinstance(node, (ast.FunctionDef, ast.AsyncFunctionDef)):
                fn = add(rel, node.name, None, node.name, node)
                modfuncs.setdefault(node.name, []).append(fn.id)
            elif isinstance(node, ast.ClassDef):
                visit_class(rel, node)
        # import-time statements of the module as a pseudo function
        mod = ast.Module(body=[n for n in tree.body if not isinstance(n, (ast.FunctionDef, ast.AsyncFunctionDef, ast.ClassDef))],
                         type_ignores=[])
        add(rel, f"<module {rel}>", None, "<module>", mod)
        for n in ast.walk(tree):
            if isinstance(n, ast.Import):
                for a in n.names:
                    ext_modules.add((a.asname or a.name).split(".")[0])
            elif isinstance(n, ast.ImportFrom):
                pk = (n.module or "").startswith("tempest") or n.level > 0
                for a in n.names:
                    (pkg_imported if pk else ext_modules).add(a.asname or a.name)

    def ancestors(c, seen=None):
        seen = seen or set()
        if c in seen or c not in classes:
            return seen
        seen.add(c)
        for b in classes[c]["bases"]:
            ancestors(b, seen)
        return seen

    def descendants(c):
        out = {c}
        changed = True
        while changed:
            changed = False
            for k, v in classes.items():
                if k not in out and any(b in out for b in v["bases"]):
                    out.add(k)
                    changed = True
        return out

    def family(c):
        fam = set()
        for d in descendants(c):
            fam |= ancestors(d)
        return fam | ancestors(c)

    def methods_named(cset, m):
        ids = []
        for c in cset:
            for k in family(c):
                ids += classes[k]["methods"].get(m, [])
        return sorted(set(ids))

    def ann_classes(a):
        if a is None:
            return set()
        out = set()
        for n in ast.walk(a):
            if isinstance(n, ast.Name) and n.id in classes:
                out.add(n.id)
            elif isinstance(n, ast.Constant) and isinstance(n.value, str):
                for c in classes:
                    if c in n.value:
                        out.add(c)
            elif isinstance(n, ast.Attribute) and n.attr in classes:
                out.add(n.attr)
        return out

    # class attribute types: self.x = <expr> in any method (two passes so that params / ctor calls propagate)
    attr_types = {c: {} for c in classes}

    def local_env(fn):
        env = {}
        node = fn.node
        if isinstance(node, (ast.FunctionDef, ast.AsyncFunctionDef)):
            args = node.args.args + node.args.kwonlyargs + node.args.posonlyargs
            for a in args:
                t = ann_classes(a.annotation)
                if t:
                    env[a.arg] = set(t)
            if fn.cls and args and args[0].arg in ("self", "cls"):
                env[args[0].arg] = {fn.cls}
        return env

    def type_of(e, env, cls):
        if isinstance(e, ast.Name):
            return set(env.get(e.id, set()))
        if isinstance(e, ast.Call):
            f = e.func
            n = f.id if isinstance(f, ast.Name) else (f.attr if isinstance(f, ast.Attribute) else None)
            if n in classes:
                return {n}
            if isinstance(f, ast.Name) and f.id == "super" and cls:
                return set(classes[cls]["bases"]) & set(classes)
            # classmethod constructors: ModeStatistics.from_particles(…) -> ModeStatistics
            if isinstance(f, ast.Attribute):
                t = type_of(f.value, env, cls)
                if isinstance(f.value, ast.Name) and f.value.id in classes:
                    return {f.value.id}
                if t and f.attr in ("copy",):
                    return t
            return set()
        if isinstance(e, ast.Attribute):
            t = type_of(e.value, env, cls)
            out = set()
            for c in t:
                for k in family(c):
                    out |= attr_types.get(k, {}).get(e.attr, set())
            return out
        if isinstance(e, ast.IfExp):
            return type_of(e.body, env, cls) | type_of(e.orelse, env, cls)
        return set()

    def scan_assignments(fn, env):
        for n in ast.walk(fn.node):
            targets, value = [], None
            if isinstance(n, ast.Assign):
                targets, value = n.targets, n.value
            elif isinstance(n, ast.AnnAssign) and n.value is not None:
                targets, value = [n.target], n.value
            for t in targets:
                ty = type_of(value, env, fn.cls)
                if isinstance(n, ast.AnnAssign):
                    ty |= ann_classes(n.annotation)
                if not ty:
                    continue
                if isinstance(t, ast.Name):
                    env.setdefault(t.id, set()).update(ty)
                elif isinstance(t, ast.Attribute) and isinstance(t.value, ast.Name) and t.value.id == "self" and fn.cls:
                    attr_types[fn.cls].setdefault(t.attr, set()).update(ty)

    envs = {}
    for _ in range(3):
        for fn in funcs:
            env = envs.setdefault(fn.id, local_env(fn))
            scan_assignments(fn, env)

    all_method_names = {}
    for fn in funcs:
        if fn.cls:
            all_method_names.setdefault(fn.name, []).append(fn.id)
    props = {}
    for fn in funcs:
        if fn.is_prop:
            props.setdefault(fn.name, []).append(fn.id)
    implicit = sorted(fn.id for fn in funcs if fn.cls and fn.name.startswith("__") and fn.name.endswith("__") and fn.name not in CTOR)

    # pass 1: escaped references and raw call records
    escaped = set()
    dynamic = []
    raw = {}   # fid -> list of ("ids", [...]) | ("unresolved", [...name matches])
    for fn in funcs:
        env = envs[fn.id]
        par = _parents(fn.node)
        nested = {n.name for n in ast.walk(fn.node) if isinstance(n, (ast.FunctionDef, ast.AsyncFunctionDef)) and n is not fn.node}
        rec = []
        for n in ast.walk(fn.node):
            if isinstance(n, ast.Call):
                f = n.func
                if isinstance(f, ast.Name):
                    if f.id in nested:
                        continue
                    if f.id == "getattr" and len(n.args) >= 2 and isinstance(n.args[1], ast.Constant) and isinstance(n.args[1].value, str):
                        # getattr(obj, "name"[, default]) with a literal name is the attribute access obj.name
                        nm = n.args[1].value
                        ids = all_method_names.get(nm, []) + modfuncs.get(nm, [])
                        if ids:
                            rec.append(("ids", ids))
                    elif f.id in DYNAMIC:
                        dynamic.append((fn.rel, fn.qual, f"{f.id}(…) at line {n.lineno}: dynamic lookup, call graph cannot follow it"))
                    if f.id in classes:
                        ids = []
                        for k in ancestors(f.id):
                            for m in CTOR:
                                ids += classes[k]["methods"].get(m, [])
                        rec.append(("ids", ids))
                    elif f.id == "cls" and fn.cls:
                        # cls(…) inside a classmethod: constructor of the class or of any subclass
                        ids = []
                        for k in family(fn.cls):
                            for m in CTOR:
                                ids += classes[k]["methods"].get(m, [])
                        rec.append(("ids", ids))
                    elif f.id in modfuncs:
                        rec.append(("ids", list(modfuncs[f.id])))
                    elif f.id in env or f.id in _param_names(fn):
                        rec.append(("unresolved", []))
                    # anything else: builtin / external
                elif isinstance(f, ast.Attribute):
                    t = type_of(f.value, env, fn.cls)
                    if isinstance(f.value, ast.Name) and f.value.id in classes:
                        t = t | {f.value.id}
                    if isinstance(f.value, ast.Call) and isinstance(f.value.func, ast.Name) and f.value.func.id == "super" and fn.cls:
                        t = set(ancestors(fn.cls)) - {fn.cls}
                    if t:
                        ids = methods_named(t, f.attr)
                        if ids:
                            rec.append(("ids", ids))
                        else:
                            rec.append(("unresolved", all_method_names.get(f.attr, []) + modfuncs.get(f.attr, [])))
                    else:
                        rootn = f.value
                        while isinstance(rootn, (ast.Attribute, ast.Subscript, ast.Call)):
                            rootn = rootn.value if not isinstance(rootn, ast.Call) else rootn.func
                        rootname = rootn.id if isinstance(rootn, ast.Name) else None
                        matches = all_method_names.get(f.attr, []) + modfuncs.get(f.attr, [])
                        if matches:
                            rec.append(("ids", matches))
                        elif rootname in ("self", "cls") or (rootname is not None and rootname not in ext_modules
                                                             and rootname in _param_names(fn) and f.attr in ("__call__",)):
                            rec.append(("unresolved", []))
                        elif rootname == "self":
                            rec.append(("unresolved", []))
            elif isinstance(n, ast.Attribute) and isinstance(n.ctx, ast.Load):
                p = par.get(n)
                is_callee = isinstance(p, ast.Call) and p.func is n
                t = type_of(n.value, env, fn.cls)
                # property reads
                if n.attr in props:
                    if t:
                        ids = [i for i in methods_named(t, n.attr) if funcs[i].is_prop]
                    else:
                        ids = props[n.attr]
                    if ids:
                        rec.append(("ids", ids))
                if not is_callee:
                    ids = methods_named(t, n.attr) if t else []
                    if isinstance(n.value, ast.Name) and n.value.id in classes:
                        ids = methods_named({n.value.id}, n.attr)
                    for i in ids:
                        if not funcs[i].is_prop:
                            escaped.add(i)
            elif isinstance(n, ast.Name) and isinstance(n.ctx, ast.Load):
                p = par.get(n)
                is_callee = isinstance(p, ast.Call) and p.func is n
                if not is_callee and n.id in modfuncs and n.id not in nested:
                    escaped.update(modfuncs[n.id])
        raw[fn.id] = rec

    esc = sorted(escaped)
    edges = {}
    for fn in funcs:
        out = set(implicit)
        for kind, ids in raw[fn.id]:
            out.update(ids)
            if kind == "unresolved":
                out.update(esc)
        out.discard(fn.id)
        edges[fn.id] = sorted(out)
    return funcs, classes, edges, dynamic, esc


def _param_names(fn):
    node = fn.node
    if isinstance(node, (ast.FunctionDef, ast.AsyncFunctionDef)):
        return {a.arg for a in node.args.args + node.args.kwonlyargs + node.args.posonlyargs}
    return set()


def reach(edges, roots):
    seen, todo = set(roots), list(roots)
    while todo:
        f = todo.pop()
        for c in edges[f]:
            if c not in seen:
                seen.add(c)
                todo.append(c)
    return sorted(seen)


def _roles(funcs):
    sites, _unknown, _inst = g3_rng.scan()
    by = {}
    for (rel, qual, kind, what, arg, ln) in sites:
        by.setdefault((rel, qual), []).append((kind, arg.split(":")[0]))
    role = {"seed": [], "gdraw": [], "adraw": [], "private": [], "restore": []}
    for fn in funcs:
        for kind, ak in by.get((fn.rel, fn.qual), []):
            if kind == "seed":
                role["seed"].append(fn.id)
            elif kind == "draw" and ak == "global":
                role["gdraw"].append(fn.id)
            elif kind == "draw":
                role["adraw"].append(fn.id)
            elif kind == "private":
                role["private"].append(fn.id)
            elif kind == "setstate":
                role["restore"].append(fn.id)
    covered = {(fn.rel, fn.qual) for fn in funcs}
    orphan = sorted(k for k in by if k not in covered)
    return {k: sorted(set(v)) for k, v in role.items()}, orphan


def _gmm_instantiations(funcs):
    """every `GaussianMixture(…)` built inside the package and how its random_state is given"""
    out = []
    for fn in funcs:
        for n in ast.walk(fn.node):
            if isinstance(n, ast.Call):
                f = n.func
                name = f.id if isinstance(f, ast.Name) else (f.attr if isinstance(f, ast.Attribute) else None)
                if name == "GaussianMixture":
                    kw = {k.arg: k.value for k in n.keywords}
                    if any(k.arg is None for k in n.keywords) or any(isinstance(a, ast.Starred) for a in n.args):
                        kind = "star-args"
                    elif "random_state" in kw:
                        v = kw["random_state"]
                        if isinstance(v, ast.Constant) and isinstance(v.value, int) and not isinstance(v.value, bool):
                            kind = f"literal:{v.value}"
                        elif isinstance(v, ast.Constant) and v.value is None:
                            kind = "none"
                        else:
                            kind = "expr:" + ast.unparse(v)
                    elif len(n.args) >= 7:
                        kind = "positional"
                    else:
                        kind = "none"
                    out.append((fn.qual, kind, n.lineno))
    return out


def _flow(funcs):
    """plumbing of random_state and the statements that precede the seeding on the fresh path"""
    res = {"ctor_passes_random_state": 0, "config_field_random_state": 0, "config_never_rewrites_seed": 1,
           "core_stores_config": 0, "save_stores_config_seed": 0, "sampler_random_state_reads_config": 0}
    pre_refs = None
    by = {fn.qual: fn for fn in funcs}
    f = by.get("Sampler.__init__")
    if f is not None:
        has_param = "random_state" in _param_names(f)
        for n in ast.walk(f.node):
            if isinstance(n, ast.Call) and isinstance(n.func, ast.Name) and n.func.id == "SamplerConfig":
                for k in n.keywords:
                    if k.arg == "random_state" and isinstance(k.value, ast.Name) and k.value.id == "random_state" and has_param:
                        res["ctor_passes_random_state"] = 1
        # the argument must not be reassigned before it is handed on
        for n in ast.walk(f.node):
            if isinstance(n, (ast.Assign, ast.AugAssign, ast.AnnAssign)):
                tg = n.targets if isinstance(n, ast.Assign) else [n.target]
                if any(isinstance(t, ast.Name) and t.id == "random_state" for t in tg):
                    res["ctor_passes_random_state"] = 0
    for fn in funcs:
        if fn.cls == "SamplerConfig":
            for n in ast.walk(fn.node):
                if isinstance(n, ast.Call) and any(isinstance(a, ast.Constant) and a.value == "random_state" for a in n.args):
                    res["config_never_rewrites_seed"] = 0
                if isinstance(n, ast.Attribute) and n.attr == "random_state" and isinstance(n.ctx, ast.Store):
                    res["config_never_rewrites_seed"] = 0
    f = by.get("SamplerCore.__init__")
    if f is not None:
        for n in ast.walk(f.node):
            if isinstance(n, ast.Assign) and any(isinstance(t, ast.Attribute) and t.attr == "config" and isinstance(t.value, ast.Name)
                                                 and t.value.id == "self" for t in n.targets) \
                    and isinstance(n.value, ast.Name) and n.value.id == "config":
                res["core_stores_config"] = 1
    f = by.get("SamplerCore.save_sampler_state")
    if f is not None:
        for n in ast.walk(f.node):
            if isinstance(n, ast.Assign) and len(n.targets) == 1 and isinstance(n.targets[0], ast.Subscript) \
                    and isinstance(n.targets[0].slice, ast.Constant) and n.targets[0].slice.value == "random_state" \
                    and g3_rng._name(n.value) == "self.config.random_state":
                res["save_stores_config_seed"] = 1
    f = by.get("Sampler.random_state")
    if f is not None:
        for n in ast.walk(f.node):
            if isinstance(n, ast.Return) and g3_rng._name(n.value) == "self._core.config.random_state":
                res["sampler_random_state_reads_config"] = 1
    return res


def _config_field(classes):
    c = classes.get("SamplerConfig")
    if not c:
        return 0
    for n in c["node"].body:
        if isinstance(n, ast.AnnAssign) and isinstance(n.target, ast.Name) and n.target.id == "random_state":
            return 1
    return 0


def _pre_seed_refs(funcs, edges):
    """ids of everything `run_sampling` may call on the FRESH path before `_initialize_fresh()` returns from its seeding:
    statements of the else-branch before the call, and statements of `_initialize_fresh` before the seeding `if`."""
    by = {fn.qual: fn for fn in funcs}
    rs, ini = by.get("SamplerCore.run_sampling"), by.get("SamplerCore._initialize_fresh")
    if rs is None or ini is None:
        return None
    name_to_ids = {}
    for fn in funcs:
        name_to_ids.setdefault(fn.name, []).append(fn.id)

    def refs(stmts):
        out = set()
        for s in stmts:
            for n in ast.walk(s):
                nm = n.id if isinstance(n, ast.Name) else (n.attr if isinstance(n, ast.Attribute) else None)
                if nm in name_to_ids:
                    out.update(name_to_ids[nm])
        return out
    pre = set()
    found = False

    def holds_call(node):
        return any(isinstance(n, ast.Call) and g3_rng._name(n.func) == "self._initialize_fresh" for n in ast.walk(node))

    def descend(stmts):
        """references evaluated on the way to the `_initialize_fresh()` call: statements before it, and the tests of every
        if / elif on whose else-side (or body) it sits"""
        nonlocal found
        for st in stmts:
            if not holds_call(st):
                if not (isinstance(st, ast.Expr) and isinstance(getattr(st, "value", None), ast.Constant)):
                    pre.update(refs([st]))
                continue
            found = True
            if isinstance(st, ast.If):
                pre.update(refs([st.test]))
                descend(st.orelse if any(holds_call(x) for x in st.orelse) else st.body)
            return
    descend(rs.node.body)
    if not found:
        return None
    seeded = False
    for st in ini.node.body:
        if isinstance(st, ast.Expr) and isinstance(st.value, ast.Constant):
            continue
        if any(isinstance(c, ast.Call) and g3_rng._name(c.func) == "np.random.seed" for c in ast.walk(st)):
            if isinstance(st, ast.If):
                pre |= refs([st.test])
            seeded = True
            break
        pre |= refs([st])
    if not seeded:
        return None
    pre.discard(ini.id)
    return sorted(pre)


def _referrers(funcs, name):
    out = []
    for fn in funcs:
        if fn.name == name:
            continue
        for n in ast.walk(fn.node):
            nm = n.id if isinstance(n, ast.Name) else (n.attr if isinstance(n, ast.Attribute) else None)
            if nm == name:
                out.append(fn.qual)
                break
    return sorted(set(out))


ROOTS = {
    "Iteration": ["SamplerCore.execute_iteration"],
    "Ctor": ["Sampler.__init__"],
    "ReadSide": ["SamplerCore.compute_posterior", "SamplerCore.compute_evidence", "Sampler.results", "Sampler.posterior",
                 "Sampler.evidence"],
    "Cluster": ["HierarchicalGaussianMixture.fit", "HierarchicalGaussianMixture.predict", "HierarchicalGaussianMixture.predict_proba"],
    "Save": ["SamplerCore.save_sampler_state", "Sampler.save_state"],
}


def render(funcs, edges, role, gmm, flow, pre, dynamic, orphan, cfg_field, refs):
    def q(s):
        return '"' + str(s).replace("\\", "\\\\").replace('"', '\\"') + '"'

    def nl(xs):
        return "[" + ", ".join(str(x) for x in xs) + "]"
    by = {fn.qual: fn.id for fn in funcs}
    L = ["/- GENERATED by translate/g3_graph.py from /repo's current source — do not edit. -/",
         "namespace Gen.RngGraph", "",
         "/-- qualified names of the functions of the package; a function's id is its index -/",
         "def funcNames : List String := [" + ", ".join(q(fn.qual) for fn in funcs) + "]", "",
         "/-- over-approximated call graph: `edges[i]` = ids of everything function `i` may call -/",
         "def edges : List (List Nat) := [" + ",\n  ".join(nl(edges[fn.id]) for fn in funcs) + "]", "",
         "/-- functions containing an `np.random.seed(…)` call -/", f"def seedFuncs : List Nat := {nl(role['seed'])}",
         "/-- functions drawing from the process-wide stream through `np.random.<f>` -/", f"def globalDrawFuncs : List Nat := {nl(role['gdraw'])}",
         "/-- functions drawing through an attribute generator (`self._rng.<f>`): process-wide only when no private generator was made -/",
         f"def attrDrawFuncs : List Nat := {nl(role['adraw'])}",
         "/-- functions constructing a private generator -/", f"def privateCtorFuncs : List Nat := {nl(role['private'])}",
         "/-- functions restoring the process-wide stream to a stored position (`np.random.set_state`) -/",
         f"def restoreFuncs : List Nat := {nl(role['restore'])}", ""]
    for k, names in ROOTS.items():
        ids = [by[n] for n in names if n in by]
        missing = [n for n in names if n not in by]
        L.append(f"def roots{k} : List Nat := {nl(ids)}")
        L.append(f"def rootsMissing{k} : List String := [" + ", ".join(q(m) for m in missing) + "]")
        L.append(f"/-- certificate: a set closed under `edges` that contains `roots{k}` (computed by the translator, re-checked in Lean) -/")
        L.append(f"def reach{k} : List Nat := {nl(reach(edges, ids))}")
        L.append("")
    L.append("/-- everything that may run on the fresh path of `run_sampling` before the seeding (`none` = the shape was not recognised) -/")
    if pre is None:
        L.append("def preSeedRoots : Option (List Nat) := none")
        L.append("def reachPreSeed : List Nat := []")
    else:
        L.append(f"def preSeedRoots : Option (List Nat) := some {nl(pre)}")
        L.append(f"def reachPreSeed : List Nat := {nl(reach(edges, pre))}")
    L.append("")
    L.append("/-- id of `systematic_resample` (the one seeding function an iteration reaches; its seed is a parameter) -/")
    L.append(f"def systId : Option Nat := {'some ' + str(by['systematic_resample']) if 'systematic_resample' in by else 'none'}")
    L.append("")
    L.append("/-- every `GaussianMixture(…)` constructed inside the package: (enclosing function, how random_state is given) -/")
    L.append("def gmmInstantiations : List (String × String) := [" + ", ".join(f"({q(a)}, {q(b.split(':')[0])})" for a, b, _ in gmm) + "]")
    L.append("")
    L.append("/-- who mentions the two seeding entry points -/")
    L.append("def referrersInitFresh : List String := [" + ", ".join(q(x) for x in refs["_initialize_fresh"]) + "]")
    L.append("def referrersLoadState : List String := [" + ", ".join(q(x) for x in refs["load_sampler_state"]) + "]")
    L.append("def referrersRunSampling : List String := [" + ", ".join(q(x) for x in refs["run_sampling"]) + "]")
    L.append("")
    L.append("/-- RNG sites of the effect table that belong to no function of the graph (must be empty) -/")
    L.append("def orphanSites : List (String × String) := [" + ", ".join(f"({q(a)}, {q(b)})" for a, b in orphan) + "]")
    L.append("/-- dynamic lookups the call graph cannot follow (must be empty) -/")
    L.append("def dynamicFeatures : List (String × String × String) := [" + ", ".join(f"({q(a)}, {q(b)}, {q(c)})" for a, b, c in dynamic) + "]")
    L.append("")
    flow = dict(flow, config_field_random_state=cfg_field)
    for k, v in flow.items():
        L.append(f"def {k} : Nat := {v}")
    L += ["", "end Gen.RngGraph", ""]
    return "\n".join(L)


_cache = {}


def analyse():
    funcs, classes, edges, dynamic, esc = build()
    role, orphan = _roles(funcs)
    gmm = _gmm_instantiations(funcs)
    flow = _flow(funcs)
    pre = _pre_seed_refs(funcs, edges)
    refs = {n: _referrers(funcs, n) for n in ("_initialize_fresh", "load_sampler_state", "run_sampling")}
    flow["save_stores_rng_state"] = int(any(b == "save_sampler_state" for a, b, c in getattr(g3_rng.scan, "saved_state_keys", [])))
    return dict(funcs=funcs, classes=classes, edges=edges, dynamic=dynamic, escaped=esc, role=role, orphan=orphan, gmm=gmm,
                flow=flow, pre=pre, refs=refs, cfg_field=_config_field(classes))


def generate():
    try:
        a = analyse()
    except (SyntaxError, OSError) as e:
        return ("G3b-rng-callgraph", "broken", f"{type(e).__name__}: {e}")
    text = render(a["funcs"], a["edges"], a["role"], a["gmm"], a["flow"], a["pre"], a["dynamic"], a["orphan"], a["cfg_field"], a["refs"])
    changed = common.write_if_changed(os.path.join(common.GEN, "RngGraph.lean"), text)
    n_e = sum(len(v) for v in a["edges"].values())
    return ("G3b-rng-callgraph", "ok", f"{'re' if changed else ''}generated Gen/RngGraph.lean ({len(a['funcs'])} functions, {n_e} edges)")


def static_edges():
    """for the dynamic twin: {(rel, firstlineno of def): id}, line ranges, edges"""
    a = analyse()
    spans = []
    for fn in a["funcs"]:
        if isinstance(fn.node, (ast.FunctionDef, ast.AsyncFunctionDef)):
            lo = min([fn.node.lineno] + [d.lineno for d in fn.node.decorator_list])
            spans.append((fn.rel, lo, fn.node.end_lineno, fn.id))
    return a, spans


if __name__ == "__main__":
    a = analyse()
    print(len(a["funcs"]), "functions; escaped:", [a["funcs"][i].qual for i in a["escaped"]])
    by = {fn.qual: fn.id for fn in a["funcs"]}
    for k, names in ROOTS.items():
        r = reach(a["edges"], [by[n] for n in names if n in by])
        print(k, len(r), "seeders reached:", [a["funcs"][i].qual for i in r if i in a["role"]["seed"]],
              "drawers:", [a["funcs"][i].qual for i in r if i in a["role"]["gdraw"]])
    print("pre", [a["funcs"][i].qual for i in (a["pre"] or [])], "gmm", a["gmm"], "flow", a["flow"], "cfg_field", a["cfg_field"])
    print("refs", a["refs"], "dynamic", a["dynamic"], "orphan", a["orphan"])
    print(generate())
