"""G5 — structural tables regenerated from /repo's current source (Python `ast` only).

Emits lean/TempestVerif/Gen/Tables.lean:
  * key sets of state_manager.py
  * order of the step calls in SamplerCore.execute_iteration
  * for every gather / mask site the set of arrays the index is applied to, and the index names used
      - Resampler.run                `X[idx_resampled]`
      - BaseMCMCRunner.run           `self.X[mask_accept] = X_prime[mask_accept]`  (+ def-use of the proposals)
      - Mutator.run (beta = 0)       `X[infinite_idx] = X[idx]`  and the keys written back
      - SamplerCore.compute_posterior  trim branch / resample branch gathers and the return tuples
  * the state keys Trainer.run reads
The translator never guesses: anything it does not recognise makes it return status `unavailable`
(the dynamic twin then carries the tie alone for that run, DESIGN §3.1).
"""
import ast
import os

from harness import common


class Unavailable(Exception):
    pass


def _parse(rel):
    path = os.path.join(common.REPO, rel)
    with open(path) as fh:
        return ast.parse(fh.read(), filename=path)


def _find_func(tree, cls, name):
    for node in ast.walk(tree):
        if isinstance(node, ast.ClassDef) and node.name == cls:
            for f in node.body:
                if isinstance(f, ast.FunctionDef) and f.name == name:
                    return f
    raise Unavailable(f"{cls}.{name} not found")


def _name(node):
    """dotted name of Name / Attribute chains (self.u -> 'self.u'), else None"""
    if isinstance(node, ast.Name):
        return node.id
    if isinstance(node, ast.Attribute):
        b = _name(node.value)
        return None if b is None else b + "." + node.attr
    return None


def _strip_self(n):
    return n[5:] if n and n.startswith("self.") else n


def _frozenset_literal(tree, var):
    for node in tree.body:
        if isinstance(node, ast.Assign) and len(node.targets) == 1 and _name(node.targets[0]) == var:
            v = node.value
            if isinstance(v, ast.Call) and _name(v.func) == "frozenset" and len(v.args) == 1 and isinstance(v.args[0], (ast.Set, ast.List, ast.Tuple)):
                out = []
                for e in v.args[0].elts:
                    if not (isinstance(e, ast.Constant) and isinstance(e.value, str)):
                        raise Unavailable(f"{var}: non-literal element")
                    out.append(e.value)
                return sorted(out)
    raise Unavailable(f"{var} not a frozenset literal")


def _subscript_sites(fn):
    """all `base[index]` with simple names on both sides -> list of (base, index, is_store, lineno)"""
    out = []
    for node in ast.walk(fn):
        if isinstance(node, ast.Subscript):
            b, i = _name(node.value), _name(node.slice)
            if b is not None and i is not None:
                out.append((_strip_self(b), i, isinstance(node.ctx, ast.Store), node.lineno))
    return out


def _calls_in_order(fn):
    """dotted names of call expressions in source order (statement order, depth first)"""
    calls = []
    for node in ast.walk(fn):
        if isinstance(node, ast.Call):
            n = _name(node.func)
            if n:
                calls.append((node.lineno, node.col_offset, _strip_self(n)))
    return [c for _, _, c in sorted(calls)]


def _state_reads(fn):
    """keys passed as first literal argument to self.state.get_current / get_history / get_last_history"""
    keys = []
    for node in ast.walk(fn):
        if isinstance(node, ast.Call):
            n = _name(node.func)
            if n in ("self.state.get_current", "self.state.get_history", "self.state.get_last_history"):
                if node.args and isinstance(node.args[0], ast.Constant) and isinstance(node.args[0].value, str):
                    keys.append(node.args[0].value)
                elif not node.args:
                    keys.append("*")
                else:
                    raise Unavailable("state read with a non-literal key")
    return sorted(set(keys))


def _state_writes(fn):
    """keys written through set_current("k", …) / update_current({"k": …})"""
    keys = []
    for node in ast.walk(fn):
        if isinstance(node, ast.Call):
            n = _name(node.func)
            if n == "self.state.set_current":
                if node.args and isinstance(node.args[0], ast.Constant):
                    keys.append(node.args[0].value)
                else:
                    raise Unavailable("set_current with non-literal key")
            elif n == "self.state.update_current":
                if node.args and isinstance(node.args[0], ast.Dict):
                    for k in node.args[0].keys:
                        if not isinstance(k, ast.Constant):
                            raise Unavailable("update_current with non-literal key")
                        keys.append(k.value)
                else:
                    raise Unavailable("update_current with a non-dict literal")
    return keys


def _return_tuples(fn):
    outs = []
    for node in ast.walk(fn):
        if isinstance(node, ast.Return) and node.value is not None:
            v = node.value
            elts = v.elts if isinstance(v, ast.Tuple) else [v]
            names = [_name(e) for e in elts]
            if any(n is None for n in names):
                raise Unavailable("return of a non-name expression")
            outs.append((node.lineno, names))
    return [n for _, n in sorted(outs)]


def _branch_gathers(fn, test_name, index_name):
    """arrays re-bound as `X = X[index_name]` inside `if <test_name>:`"""
    for node in ast.walk(fn):
        if isinstance(node, ast.If) and _name(node.test) == test_name:
            got = []
            for sub in node.body:
                for a in ast.walk(sub):
                    if isinstance(a, ast.Assign) and len(a.targets) == 1 and isinstance(a.value, ast.Subscript):
                        t, b, i = _name(a.targets[0]), _name(a.value.value), _name(a.value.slice)
                        if i == index_name:
                            if t != b:
                                raise Unavailable(f"{test_name}: gather into a different name ({t} = {b}[{i}])")
                            got.append(t)
            return got
    raise Unavailable(f"no `if {test_name}:` branch")


def extract():
    t = {}
    sm = _parse("tempest/state_manager.py")
    t["currentKeys"] = _frozenset_literal(sm, "CURRENT_STATE_KEYS")
    t["historyKeys"] = _frozenset_literal(sm, "HISTORY_STATE_KEYS")
    t["requiredCommitKeys"] = _frozenset_literal(sm, "REQUIRED_COMMIT_KEYS")

    core = _parse("tempest/core.py")
    it = _find_func(core, "SamplerCore", "execute_iteration")
    steps = [c for c in _calls_in_order(it) if c in ("reweighter.run", "trainer.run", "resampler.run", "mutator.run",
                                                      "state.commit_current_to_history", "save_sampler_state")]
    t["iterationOrder"] = steps

    post = _find_func(core, "SamplerCore", "compute_posterior")
    t["posteriorTrimGather"] = _branch_gathers(post, "trim_importance_weights", "idx")
    t["posteriorResampleGather"] = _branch_gathers(post, "resample", "idx")
    t["posteriorReturns"] = _return_tuples(post)

    rs = _parse("tempest/steps/resample.py")
    run = _find_func(rs, "Resampler", "run")
    sites = _subscript_sites(run)
    # the index vector(s): whatever name receives the result of the resampling call (np.random.choice / systematic_resample)
    idx_names = set()
    for node in ast.walk(run):
        if isinstance(node, ast.Assign) and len(node.targets) == 1 and isinstance(node.value, ast.Call):
            fn = _name(node.value.func) or ""
            if fn.split(".")[-1] in ("choice", "systematic_resample") and _name(node.targets[0]):
                idx_names.add(_name(node.targets[0]))
    if not idx_names:
        raise Unavailable("Resampler.run: no index vector assigned from np.random.choice / systematic_resample")
    idx_names = sorted(idx_names)
    t["resampleIndexNames"] = idx_names
    t["resampleGather"] = sorted({b for b, i, st, _ in sites if i in idx_names and not st})
    t["resampleWrites"] = sorted(set(_state_writes(run)))

    mc = _parse("tempest/mcmc.py")
    mrun = _find_func(mc, "BaseMCMCRunner", "run")
    masked = []
    mask_names = set()
    for node in ast.walk(mrun):
        if isinstance(node, ast.Assign) and len(node.targets) == 1 and isinstance(node.targets[0], ast.Subscript) \
                and isinstance(node.value, ast.Subscript):
            tb, ti = _name(node.targets[0].value), _name(node.targets[0].slice)
            vb, vi = _name(node.value.value), _name(node.value.slice)
            if None in (tb, ti, vb, vi):
                continue
            if ti != vi:
                raise Unavailable(f"masked update with different masks on the two sides ({ti} vs {vi})")
            masked.append((_strip_self(tb), vb))
            mask_names.add(ti)
    t["mcmcMasked"] = sorted(masked)
    t["mcmcMaskNames"] = sorted(mask_names)
    # def-use of the proposals inside run(): x_prime from prior_transform over u_prime; (logl_prime, blobs_prime) from _evaluate_likelihood(x_prime)
    defuse = []
    for node in ast.walk(mrun):
        if isinstance(node, ast.Assign) and len(node.targets) == 1:
            tgt = node.targets[0]
            names = [_name(e) for e in tgt.elts] if isinstance(tgt, ast.Tuple) else [_name(tgt)]
            src_calls = sorted({_strip_self(_name(c.func)) for c in ast.walk(node.value) if isinstance(c, ast.Call) and _name(c.func)})
            src_names = sorted({n.id for n in ast.walk(node.value) if isinstance(n, ast.Name)})
            for nm in names:
                if nm in ("x_prime", "logl_prime", "blobs_prime"):
                    defuse.append((nm, [c for c in src_calls if c in ("prior_transform", "_evaluate_likelihood")],
                                   [s for s in src_names if s in ("u_prime", "x_prime", "u_p")]))
    t["mcmcDefUse"] = sorted((n, ",".join(c), ",".join(s)) for n, c, s in defuse)
    # order of statements within one step (first line of each phase)
    phases = {}
    for node in ast.walk(mrun):
        if isinstance(node, ast.Call):
            n = _strip_self(_name(node.func) or "")
            if n in ("_propose", "prior_transform", "_evaluate_likelihood", "_compute_acceptance_factor", "np.random.rand", "_adapt_sigma", "_check_convergence"):
                phases.setdefault(n, node.lineno)
        if isinstance(node, ast.Assign) and len(node.targets) == 1 and isinstance(node.targets[0], ast.Subscript) \
                and _name(node.targets[0].slice) in mask_names:
            phases.setdefault("masked_update", node.lineno)
    t["mcmcStepOrder"] = [k for k, _ in sorted(phases.items(), key=lambda kv: kv[1])]

    mu = _parse("tempest/steps/mutate.py")
    mrun2 = _find_func(mu, "Mutator", "run")
    repl = []
    pairs = set()
    for node in ast.walk(mrun2):
        if isinstance(node, ast.Assign) and len(node.targets) == 1 and isinstance(node.targets[0], ast.Subscript) \
                and isinstance(node.value, ast.Subscript):
            tb, ti = _name(node.targets[0].value), _name(node.targets[0].slice)
            vb, vi = _name(node.value.value), _name(node.value.slice)
            if None in (tb, ti, vb, vi):
                continue
            if tb != vb:
                raise Unavailable(f"warm-up replacement across arrays ({tb}[..] = {vb}[..])")
            repl.append(tb)
            pairs.add((ti, vi))
    t["warmupReplace"] = sorted(repl)
    t["warmupReplaceIndexPairs"] = sorted(pairs)
    t["mutatorWrites"] = sorted(set(_state_writes(mrun2)))

    tr = _parse("tempest/steps/train.py")
    t["trainerReads"] = _state_reads(_find_func(tr, "Trainer", "run"))
    return t


def _lean_list(xs):
    return "[" + ", ".join('"%s"' % x for x in xs) + "]"


def render(t):
    L = ["/- GENERATED by translate/g5_tables.py from /repo's current source — do not edit. -/",
         "namespace Gen.Tables", ""]
    for k in ("currentKeys", "historyKeys", "requiredCommitKeys", "iterationOrder", "posteriorTrimGather",
              "posteriorResampleGather", "resampleIndexNames", "resampleGather", "resampleWrites", "mcmcMaskNames",
              "mcmcStepOrder", "warmupReplace", "mutatorWrites", "trainerReads"):
        L.append(f"def {k} : List String := {_lean_list(t[k])}")
    L.append("def posteriorReturns : List (List String) := [" + ", ".join(_lean_list(r) for r in t["posteriorReturns"]) + "]")
    L.append("def mcmcMasked : List (String × String) := [" + ", ".join('("%s", "%s")' % p for p in t["mcmcMasked"]) + "]")
    L.append("def warmupReplaceIndexPairs : List (String × String) := [" + ", ".join('("%s", "%s")' % p for p in t["warmupReplaceIndexPairs"]) + "]")
    L.append("def mcmcDefUse : List (String × String × String) := [" + ", ".join('("%s", "%s", "%s")' % p for p in t["mcmcDefUse"]) + "]")
    L += ["", "end Gen.Tables", ""]
    return "\n".join(L)


def generate():
    try:
        t = extract()
    except Unavailable as e:
        return ("G5-tables", "unavailable", str(e))
    except (SyntaxError, OSError) as e:
        return ("G5-tables", "unavailable", f"{type(e).__name__}: {e}")
    changed = common.write_if_changed(os.path.join(common.GEN, "Tables.lean"), render(t))
    return ("G5-tables", "ok", f"{'re' if changed else ''}generated Gen/Tables.lean ({sum(len(v) for v in t.values())} entries)")


if __name__ == "__main__":
    import json
    print(json.dumps(extract(), indent=1))
    print(generate())
