"""G17 — `tempest/student.py` (fit_mvstud, opt_nu, func0) and `ModeStatistics.from_particles / from_global` of
`tempest/modes.py`, read from /repo's current source (Python `ast` only), property C19.

Emits lean/TempestVerif/Gen/StudentSrc.lean:

  * KERNELS: every arithmetic expression, comparison and literal of the pinned statements compiled to a term over the
    scalar interface (`Sc α`, `ScT α` where `np.log` occurs).  numpy expressions are element-wise on arrays, so the
    kernel of `w_iobs = (nu + dim) / (nu + delta_iobs)` is the scalar function `fun nu dim delta => (nu + dim)/(nu + delta)`;
    the hand-written model applies it through `List.map` / `List.zipWith` (the broadcasting layout), and
    `Props/C19Source.lean` proves by `rfl` — for every scalar type, `Float` included — that the model's definitions
    unfold to exactly these kernels.  Python ints (`dim, n = data.shape`, `len(...)`, `x.shape[0]`, int literals, int-annotated
    parameters and everything computed from them with `+ - *`) are typed `Nat` and cast once (`Sc.ofNat`) where they meet a
    float, as numpy does; int literals become `Sc.ofNat k`, float literals `Sc.lit m e` (exact decimal `m·10^-e`).
    Sub-expressions that are not arithmetic (calls of numpy primitives such as `np.cov(data)`, `np.sum(..., 0)`,
    `np.linalg.solve(Sigma, diffs)`, `np.dot(..., diffs.T)`) are LEAVES: parameters `L0, L1, …` of the kernel, listed with their
    canonical source text in a `…Leaves : List String` table; arithmetic arguments of a leaf get kernels of their own
    (`…_L0A0` = leaf 0, argument 0).
  * `if ~np.isfinite(dof): dof = dof_fallback` compiled to a polymorphic `if`-term; the defaults of `tolerance`, `max_iter`,
    `resample_factor`; the argument lists of `optimize.bisect`, `np.random.choice`, `fit_mvstud`.
  * the statement SKELETON of `fit_mvstud` (nested functions included), `from_particles`, `from_global`: one row per statement
    in program order with its nesting path.

LOCAL NAMES ARE CANONICALISED (scope-aware, by order of first binding: parameters `a0,a1,…`, locals `v0,v1,…`, nested
functions `f0,…` with their own `f0a0 / f0v0 / f0f0 …`), annotations, docstrings, comments and formatting are dropped and
`print(...)` arguments are elided, so a pure renaming / reformatting / rewording changes nothing that is generated; a
changed literal, operator, operand order, call argument or control-flow shape does.

The translator never guesses: a construct outside its language or a function body that no longer has the shape it reads
makes it return status `unavailable` with the reason (the generated file is then left as it was).
"""
import ast
import os
import re
from fractions import Fraction

from harness import common
from .g5_tables import Unavailable, _parse, _find_func, _name

NAME = "G17-student-source"


# ------------------------------------------------------------------------------------------------ scopes, canonical names
def _binders(target):
    """names bound by an assignment target, in order"""
    if isinstance(target, ast.Name):
        return [target.id]
    if isinstance(target, (ast.Tuple, ast.List)):
        out = []
        for e in target.elts:
            out += _binders(e)
        return out
    if isinstance(target, ast.Starred):
        return _binders(target.value)
    return []          # attribute / subscript targets bind nothing


class Scope:
    def __init__(self, fn, prefix, parent):
        self.fn, self.prefix, self.parent = fn, prefix, parent
        self.canon = {}       # python name -> canonical name
        self.kind = {}        # python name -> 'arg' | 'local' | 'func'
        self.bind = {}        # python name -> [descriptor]   (int inference)
        self.child = {}       # id(FunctionDef) -> Scope
        self._na = self._nv = self._nf = 0
        a = fn.args
        if a.vararg is not None or a.kwarg is not None:
            raise Unavailable(f"{fn.name}: *args / **kwargs")
        pos = list(a.posonlyargs) + list(a.args)
        defaults = [None] * (len(pos) - len(a.defaults)) + list(a.defaults)
        for arg, dflt in list(zip(pos, defaults)) + list(zip(a.kwonlyargs, a.kw_defaults)):
            self._add(arg.arg, "arg")
            is_int = ((isinstance(arg.annotation, ast.Name) and arg.annotation.id == "int")
                      or (arg.annotation is None and isinstance(dflt, ast.Constant) and _is_int_const(dflt.value)))
            self.bind[arg.arg].append(("int",) if is_int else ("other",))
        self._block(fn.body)

    def _add(self, name, kind):
        if name in self.canon:
            return
        if kind == "arg":
            c, self._na = f"{self.prefix}a{self._na}", self._na + 1
        elif kind == "func":
            c, self._nf = f"{self.prefix}f{self._nf}", self._nf + 1
        else:
            c, self._nv = f"{self.prefix}v{self._nv}", self._nv + 1
        self.canon[name], self.kind[name] = c, kind
        self.bind.setdefault(name, [])

    def _bind_target(self, target, value):
        if isinstance(target, ast.Name):
            self._add(target.id, "local")
            self.bind[target.id].append(("other",) if value is None else ("expr", value))
            return
        names = _binders(target)
        from_shape = (isinstance(target, (ast.Tuple, ast.List)) and all(isinstance(e, ast.Name) for e in target.elts)
                      and isinstance(value, ast.Attribute) and value.attr == "shape")
        for n in names:
            self._add(n, "local")
            self.bind[n].append(("int",) if from_shape else ("other",))

    def _exprs(self, node):
        """binders hidden in expressions: walrus and comprehension targets (named as locals of this scope)"""
        for n in ast.walk(node):
            if isinstance(n, ast.NamedExpr):
                self._bind_target(n.target, None)
            elif isinstance(n, ast.comprehension):
                self._bind_target(n.target, None)
            elif isinstance(n, ast.Lambda):
                raise Unavailable(f"{self.fn.name}: lambda expression")

    def _block(self, stmts):
        for st in stmts:
            if isinstance(st, (ast.Global, ast.Nonlocal)):
                raise Unavailable(f"{self.fn.name}: global / nonlocal statement")
            if isinstance(st, (ast.FunctionDef, ast.AsyncFunctionDef, ast.ClassDef)):
                if not isinstance(st, ast.FunctionDef):
                    raise Unavailable(f"{self.fn.name}: nested {type(st).__name__}")
                self._add(st.name, "func")
                self.bind[st.name].append(("other",))
                self.child[id(st)] = Scope(st, self.canon[st.name], self)
                continue
            if isinstance(st, ast.Assign):
                self._exprs(st.value)
                for t in st.targets:
                    self._bind_target(t, st.value)
            elif isinstance(st, ast.AugAssign):
                self._exprs(st.value)
                if isinstance(st.target, ast.Name):
                    self._add(st.target.id, "local")
                    self.bind[st.target.id].append(("expr", ast.BinOp(left=ast.Name(id=st.target.id, ctx=ast.Load()),
                                                                       op=st.op, right=st.value)))
            elif isinstance(st, ast.AnnAssign):
                if st.value is not None:
                    self._exprs(st.value)
                self._bind_target(st.target, st.value)
            elif isinstance(st, (ast.For, ast.AsyncFor)):
                self._exprs(st.iter)
                self._bind_target(st.target, None)
                self._block(st.body)
                self._block(st.orelse)
            elif isinstance(st, ast.While):
                self._exprs(st.test)
                self._block(st.body)
                self._block(st.orelse)
            elif isinstance(st, ast.If):
                self._exprs(st.test)
                self._block(st.body)
                self._block(st.orelse)
            elif isinstance(st, (ast.With, ast.AsyncWith)):
                for it in st.items:
                    self._exprs(it.context_expr)
                    if it.optional_vars is not None:
                        self._bind_target(it.optional_vars, None)
                self._block(st.body)
            elif isinstance(st, ast.Try):
                self._block(st.body)
                for h in st.handlers:
                    if h.name:
                        self._add(h.name, "local")
                        self.bind[h.name].append(("other",))
                    self._block(h.body)
                self._block(st.orelse)
                self._block(st.finalbody)
            elif isinstance(st, (ast.Import, ast.ImportFrom)):
                for al in st.names:
                    nm = (al.asname or al.name).split(".")[0]
                    self._add(nm, "local")
                    self.bind[nm].append(("other",))
            else:
                for ch in ast.iter_child_nodes(st):
                    if isinstance(ch, ast.expr):
                        self._exprs(ch)

    def resolve(self, name):
        """(scope that binds `name`, canonical name) or (None, name) for globals / builtins"""
        s = self
        while s is not None:
            if name in s.canon:
                return s, s.canon[name]
            s = s.parent
        return None, name

    def all_scopes(self):
        out = [self]
        for c in self.child.values():
            out += c.all_scopes()
        return out


def _is_int_const(v):
    return isinstance(v, int) and not isinstance(v, bool)


class Ints:
    """which bound names hold Python ints at every binding (greatest fixed point)"""

    def __init__(self, root):
        self.set = {(id(s), n) for s in root.all_scopes() for n in s.bind}
        changed = True
        while changed:
            changed = False
            for s in root.all_scopes():
                for n, ds in s.bind.items():
                    if (id(s), n) in self.set and not all(self._d(d, s) for d in ds):
                        self.set.discard((id(s), n))
                        changed = True

    def _d(self, d, scope):
        if d[0] == "int":
            return True
        if d[0] == "expr":
            return self.is_int(d[1], scope)
        return False

    def is_int(self, e, scope):
        if isinstance(e, ast.Constant):
            return _is_int_const(e.value)
        if isinstance(e, ast.Name):
            s, _ = scope.resolve(e.id)
            return s is not None and (id(s), e.id) in self.set
        if isinstance(e, ast.BinOp) and isinstance(e.op, (ast.Add, ast.Sub, ast.Mult, ast.FloorDiv, ast.Mod)):
            return self.is_int(e.left, scope) and self.is_int(e.right, scope)
        if isinstance(e, ast.UnaryOp) and isinstance(e.op, (ast.USub, ast.UAdd)):
            return self.is_int(e.operand, scope)
        if isinstance(e, ast.Call) and _name(e.func) in ("len", "int") and not e.keywords:
            return True
        if (isinstance(e, ast.Subscript) and isinstance(e.value, ast.Attribute) and e.value.attr == "shape"
                and isinstance(e.slice, ast.Constant) and _is_int_const(e.slice.value)):
            return True
        return False


class _Renamer(ast.NodeTransformer):
    """canonical local names; annotations and docstrings dropped; print(...) arguments elided"""

    def __init__(self, scope):
        self.scope = scope

    def visit_Name(self, n):
        _, c = self.scope.resolve(n.id)
        return ast.copy_location(ast.Name(id=c, ctx=n.ctx), n)

    def visit_FunctionDef(self, n):
        raise Unavailable(f"nested function {n.name} inside an expression / simple statement")

    def visit_Lambda(self, n):
        raise Unavailable("lambda expression")

    def visit_AnnAssign(self, n):
        tgt = self.visit(n.target)
        if n.value is None:
            return ast.Pass()
        return ast.copy_location(ast.Assign(targets=[tgt], value=self.visit(n.value), lineno=n.lineno), n)

    def visit_Call(self, n):
        if _name(n.func) in ("print", "warnings.warn", "logging.warning", "logger.warning"):
            return ast.copy_location(ast.Call(func=n.func, args=[ast.Constant(value=Ellipsis)], keywords=[]), n)
        return self.generic_visit(n)


def _is_doc(st):
    return isinstance(st, ast.Expr) and isinstance(st.value, ast.Constant) and isinstance(st.value.value, str)


def _canon_text(node, scope):
    """source text of an expression / simple statement with canonical names, one line"""
    import copy
    t = _Renamer(scope).visit(copy.deepcopy(node))
    ast.fix_missing_locations(t)
    return " ".join(ast.unparse(t).split())


# ------------------------------------------------------------------------------------------------ skeleton
def _skeleton(fn, scope):
    out = []

    def emit(path, text):
        out.append(f"{path}: {' '.join(text.split())}")

    def block(stmts, path, sc):
        k = 0
        for st in stmts:
            if _is_doc(st) or isinstance(st, ast.Pass):
                continue
            p = f"{path}{k}"
            if isinstance(st, ast.FunctionDef):
                ch = sc.child[id(st)]
                emit(p, f"def {sc.canon[st.name]}({', '.join(ch.canon[a.arg] for a in st.args.posonlyargs + st.args.args)})")
                block(st.body, p + ".", ch)
            elif isinstance(st, ast.If):
                emit(p, f"if {_canon_text(st.test, sc)}")
                block(st.body, p + "t.", sc)
                block(st.orelse, p + "e.", sc)
            elif isinstance(st, ast.While):
                if st.orelse:
                    raise Unavailable(f"{fn.name}: while … else")
                emit(p, f"while {_canon_text(st.test, sc)}")
                block(st.body, p + ".", sc)
            elif isinstance(st, ast.For):
                if st.orelse:
                    raise Unavailable(f"{fn.name}: for … else")
                emit(p, f"for {_canon_text(st.target, sc)} in {_canon_text(st.iter, sc)}")
                block(st.body, p + ".", sc)
            elif isinstance(st, ast.Try):
                if st.finalbody or st.orelse:
                    raise Unavailable(f"{fn.name}: try … else / finally")
                emit(p, "try")
                block(st.body, p + ".", sc)
                for j, h in enumerate(st.handlers):
                    ty = "" if h.type is None else " " + _canon_text(h.type, sc)
                    nm = "" if not h.name else " as " + sc.resolve(h.name)[1]
                    emit(f"{p}x{j}", f"except{ty}{nm}")
                    block(h.body, f"{p}x{j}.", sc)
            elif isinstance(st, (ast.Assign, ast.AugAssign, ast.AnnAssign, ast.Return, ast.Expr, ast.Raise)):
                txt = _canon_text(st, sc)
                if isinstance(st, ast.Raise):
                    txt = "raise " + (_name(st.exc.func) if isinstance(st.exc, ast.Call) and _name(st.exc.func) else
                                      ("" if st.exc is None else _canon_text(st.exc, sc)))
                emit(p, txt)
            elif isinstance(st, ast.Break):
                emit(p, "break")
            elif isinstance(st, ast.Continue):
                emit(p, "continue")
            else:
                raise Unavailable(f"statement {type(st).__name__} in {fn.name} (line {st.lineno})")
            k += 1
    block(fn.body, "", scope)
    return out


# ------------------------------------------------------------------------------------------------ kernels
def _lit_float(v):
    f = float(v)
    if f != f or f in (float("inf"), float("-inf")) or f < 0:
        raise Unavailable(f"literal {v!r} outside the literal language")
    r = Fraction(repr(f))
    e = 0
    while (r * 10 ** e).denominator != 1:
        e += 1
        if e > 400:
            raise Unavailable(f"literal {v!r}: no finite decimal expansion")
    return f"(Sc.lit {int(r * 10 ** e)} {e})"


ELEMENTWISE = {"np.abs": ("Sc.abs", False), "abs": ("Sc.abs", False), "np.log": ("ScT.log", True),
               "np.exp": ("ScT.exp", True), "np.sqrt": ("ScT.sqrt", True)}
FUNPARAM = {"special.psi": "psi", "special.digamma": "psi"}


def _is_arith(n):
    if isinstance(n, ast.BinOp):
        return True
    if isinstance(n, ast.UnaryOp) and isinstance(n.op, ast.USub):
        return True
    if isinstance(n, ast.Call) and (_name(n.func) in ELEMENTWISE or _name(n.func) in FUNPARAM) and len(n.args) == 1 and not n.keywords:
        return True
    return False


class Kernel:
    """one expression compiled; parameters in order of first appearance"""

    def __init__(self, tr, scope, name):
        self.tr, self.scope, self.name = tr, scope, name
        self.params = []       # [(lean name, type)]
        self.leaves = []       # [(lean name, canonical text, node)]
        self.needs_t = False

    def _param(self, nm, ty):
        for p, t in self.params:
            if p == nm:
                if t != ty:
                    raise Unavailable(f"{self.name}: `{nm}` used both as {t} and as {ty}")
                return nm
        self.params.append((nm, ty))
        return nm

    def _leaf(self, n, is_int):
        txt = _canon_text(n, self.scope)
        for nm, t, _ in self.leaves:
            if t == txt:
                return nm
        nm = f"L{len(self.leaves)}"
        self.leaves.append((nm, txt, n))
        self._param(nm, "Nat" if is_int else "α")
        return nm

    @staticmethod
    def cast(t):
        term, ty = t
        return term if ty == "float" else f"(Sc.ofNat {term})"

    def num(self, n):
        """(term, 'int' | 'float')"""
        sc, ints = self.scope, self.tr.ints
        if isinstance(n, ast.Constant):
            if _is_int_const(n.value):
                if n.value < 0:
                    raise Unavailable(f"{self.name}: negative literal")
                return str(n.value), "int"
            if isinstance(n.value, float):
                return _lit_float(n.value), "float"
            raise Unavailable(f"{self.name}: literal {n.value!r} is not numeric")
        if isinstance(n, ast.Name):
            s, c = sc.resolve(n.id)
            if s is None:
                return self._leaf(n, False), "float"       # a module-level name
            if s.kind[n.id] == "func":
                raise Unavailable(f"{self.name}: function `{n.id}` used as a value")
            if (id(s), n.id) in ints.set:
                return self._param(c, "Nat"), "int"
            return self._param(c, "α"), "float"
        if isinstance(n, ast.UnaryOp) and isinstance(n.op, ast.USub):
            return f"(Sc.neg {self.cast(self.num(n.operand))})", "float"
        if isinstance(n, ast.BinOp):
            a, b = self.num(n.left), self.num(n.right)
            if a[1] == "int" and b[1] == "int" and isinstance(n.op, (ast.Add, ast.Mult)):
                return f"({a[0]} {'+' if isinstance(n.op, ast.Add) else '*'} {b[0]})", "int"
            if a[1] == "int" and b[1] == "int" and isinstance(n.op, ast.Sub):
                # Nat subtraction = int subtraction only when the result is >= 0: accepted for `name - literal` only
                # (`n - 1` with n >= 2 guarded by the model); stated in the generated doc comment
                if not isinstance(n.right, ast.Constant):
                    raise Unavailable(f"{self.name}: integer subtraction `{ast.unparse(n)}` (only `int - literal` is in the language)")
                return f"({a[0]} - {b[0]})", "int"
            op = {ast.Add: "Sc.add", ast.Sub: "Sc.sub", ast.Mult: "Sc.mul", ast.Div: "Sc.div"}.get(type(n.op))
            if op is None:
                raise Unavailable(f"{self.name}: operator {type(n.op).__name__} in `{ast.unparse(n)}`")
            return f"({op} {self.cast(a)} {self.cast(b)})", "float"
        if isinstance(n, ast.Call):
            fn = _name(n.func)
            if fn in ELEMENTWISE and len(n.args) == 1 and not n.keywords:
                f, t = ELEMENTWISE[fn]
                self.needs_t |= t
                return f"({f} {self.cast(self.num(n.args[0]))})", "float"
            if fn in FUNPARAM and len(n.args) == 1 and not n.keywords:
                p = self._param(FUNPARAM[fn], "α → α")
                return f"({p} {self.cast(self.num(n.args[0]))})", "float"
            if isinstance(n.func, ast.Name):
                s, c = sc.resolve(n.func.id)
                if s is not None and s.kind[n.func.id] == "func" and len(n.args) == 1 and not n.keywords:
                    p = self._param(c, "α → α")
                    return f"({p} {self.cast(self.num(n.args[0]))})", "float"
        if isinstance(n, (ast.Call, ast.Attribute, ast.Subscript)):
            is_int = self.tr.ints.is_int(n, sc)
            return self._leaf(n, is_int), ("int" if is_int else "float")
        raise Unavailable(f"{self.name}: expression `{ast.unparse(n)}` outside the expression language")

    def test(self, n):
        if isinstance(n, ast.BoolOp):
            op = "&&" if isinstance(n.op, ast.And) else "||"
            return "(" + f" {op} ".join(self.test(v) for v in n.values) + ")"
        if isinstance(n, ast.UnaryOp) and isinstance(n.op, ast.Not):
            return f"(!{self.test(n.operand)})"
        if not (isinstance(n, ast.Compare) and len(n.ops) == 1):
            raise Unavailable(f"{self.name}: test `{ast.unparse(n)}` is not a comparison")
        a, b = self.num(n.left), self.num(n.comparators[0])
        op = type(n.ops[0])
        if a[1] == "int" and b[1] == "int":
            f = {ast.Lt: "decide ({} < {})", ast.LtE: "decide ({} ≤ {})", ast.Gt: "decide ({} > {})", ast.GtE: "decide ({} ≥ {})",
                 ast.Eq: "({} == {})", ast.NotEq: "({} != {})"}.get(op)
            if f is None:
                raise Unavailable(f"{self.name}: comparison {op.__name__}")
            return "(" + f.format(a[0], b[0]) + ")"
        x, y = self.cast(a), self.cast(b)
        if op is ast.Eq:
            return f"(Sc.le {x} {y} && Sc.le {y} {x})"
        f = {ast.Lt: "Sc.lt", ast.LtE: "Sc.le", ast.Gt: "Sc.gt", ast.GtE: "Sc.ge"}.get(op)
        if f is None:
            raise Unavailable(f"{self.name}: comparison {op.__name__}")
        return f"({f} {x} {y})"


def _doc(text):
    t = " ".join(str(text).split()).replace("/-", "/ -").replace("-/", "- /")
    return t[:300]


class Translation:
    def __init__(self, root_fn):
        self.root = Scope(root_fn, "", None)
        self.ints = Ints(self.root)
        self.defs = []      # rendered Lean definitions
        self.tabs = {}      # name -> [str]
        self.n_kernels = 0

    def scope_of(self, fn):
        for s in self.root.all_scopes():
            if s.fn is fn:
                return s
        raise Unavailable(f"scope of {fn.name}")

    def kernel(self, name, node, scope, kind="term", comment=None):
        """emit `def name … := <compiled node>` (+ `nameLeaves`, + kernels of the arithmetic arguments of its leaves)"""
        k = Kernel(self, scope, name)
        if kind == "test":
            body, ty = k.test(node), "Bool"
        else:
            t = k.num(node)
            body, ty = (t[0], "Nat") if t[1] == "int" else (t[0], "α")
        uses_alpha = ty == "α" or any(t != "Nat" for _, t in k.params) or "Sc." in body or "ScT." in body
        binders = ""
        if uses_alpha:
            binders = " {α : Type} [ScT α]" if k.needs_t else " {α : Type} [Sc α]"
        groups = "".join(f" ({p} : {t})" for p, t in k.params)
        src = comment if comment is not None else _canon_text(node, scope)
        self.defs.append(f"/-- `{_doc(src)}` -/\ndef {name}{binders}{groups} : {ty} := {body}")
        self.n_kernels += 1
        if k.leaves:
            self.tabs[name + "Leaves"] = [f"{nm} = {txt}" for nm, txt, _ in k.leaves]
        for nm, _txt, leaf in k.leaves:
            if isinstance(leaf, ast.Call):
                args = [(f"A{j}", a) for j, a in enumerate(leaf.args)] + [(f"K{kw.arg}", kw.value) for kw in leaf.keywords if kw.arg]
                for tag, a in args:
                    if _is_arith(a):
                        self.kernel(f"{name}_{nm}{tag}", a, scope)
        return k


# ------------------------------------------------------------------------------------------------ locating the sites
def _only(nodes, what):
    nodes = list(nodes)
    if len(nodes) != 1:
        raise Unavailable(f"expected exactly one {what}, found {len(nodes)}")
    return nodes[0]


def _body(fn):
    return [s for s in fn.body if not _is_doc(s)]


def _module_func(tree, name):
    for node in tree.body:
        if isinstance(node, ast.FunctionDef) and node.name == name:
            return node
    raise Unavailable(f"function {name} not found")


def _simple_assigns(stmts):
    """(target name, value, stmt) of `name = value` statements of one block (not nested)"""
    return [(s.targets[0].id, s.value, s) for s in stmts
            if isinstance(s, ast.Assign) and len(s.targets) == 1 and isinstance(s.targets[0], ast.Name)]


def _walk_stmts(stmts):
    """all statements of a block, nested blocks included (nested function bodies excluded), program order"""
    for s in stmts:
        yield s
        if isinstance(s, ast.FunctionDef):
            continue
        for fld in ("body", "orelse", "finalbody"):
            yield from _walk_stmts(getattr(s, fld, []) or [])
        for h in getattr(s, "handlers", []) or []:
            yield from _walk_stmts(h.body)


def _calls(node, dotted):
    if isinstance(node, list):
        out = []
        for s in node:
            out += _calls(s, dotted)
        return out
    return [n for n in ast.walk(node) if isinstance(n, ast.Call) and _name(n.func) == dotted]


def _default_of(fn, pos):
    a = fn.args
    allp = list(a.posonlyargs) + list(a.args)
    defaults = [None] * (len(allp) - len(a.defaults)) + list(a.defaults)
    if pos >= len(allp) or defaults[pos] is None:
        raise Unavailable(f"{fn.name}: parameter {pos} has no default")
    return defaults[pos]


def _call_args(call, scope):
    return ([_canon_text(a, scope) for a in call.args]
            + sorted(f"{kw.arg}={_canon_text(kw.value, scope)}" for kw in call.keywords))


def _opt_nu_body(tr, so, oif):
    """`if <test>: nu = <A> else: nu = <B>` with A, B in {np.inf, optimize.bisect(<args>)} as ONE term: which branch
    returns what, and the arguments of the bisect call (positional, then keywords sorted by name), over the parameters
    `npInf : R` and `bisect : … → R`"""
    br = []
    for blk in (oif.body, oif.orelse):
        a = _simple_assigns(blk)
        if not (len(blk) == 1 and len(a) == 1):
            raise Unavailable("opt_nu: a branch of the if is not a single assignment")
        br.append(a[0])
    if br[0][0] != br[1][0]:
        raise Unavailable("opt_nu: the two branches of the if assign different names")
    k = Kernel(tr, so, "optNuBody")
    test = k.test(oif.test)
    arity = None
    terms = []
    for _nm, v, _s in br:
        if _name(v) == "np.inf":
            terms.append("npInf")
        elif isinstance(v, ast.Call) and _name(v.func) == "optimize.bisect":
            args = list(v.args) + [kw.value for kw in sorted(v.keywords, key=lambda kw: kw.arg or "")]
            if any(kw.arg is None for kw in v.keywords) or any(isinstance(a, ast.Starred) for a in v.args):
                raise Unavailable("opt_nu: optimize.bisect called with * / ** arguments")
            ts = []
            for a in args:
                if isinstance(a, ast.Name):
                    s, c = so.resolve(a.id)
                    if s is not None and s.kind[a.id] == "func":
                        ts.append(k._param(c, "α → α"))
                        continue
                ts.append(k.cast(k.num(a)))
            if arity is not None and arity != len(ts):
                raise Unavailable("opt_nu: two optimize.bisect calls of different arity")
            arity = len(ts)
            terms.append("bisect " + " ".join(ts))
        else:
            raise Unavailable(f"opt_nu: a branch assigns `{ast.unparse(v)}` (neither np.inf nor optimize.bisect(...))")
    if arity is None:
        bis_ty = "R"
    else:
        # the first argument is the function, the others scalars
        bis_ty = " → ".join(["(α → α)"] + ["α"] * (arity - 1) + ["R"])
    groups = "".join(f" ({p} : {t})" for p, t in k.params)
    tr.defs.append(f"/-- `if {_doc(_canon_text(oif.test, so))}: {_doc(_canon_text(br[0][2], so))} else: {_doc(_canon_text(br[1][2], so))}` "
                   f"— the value assigned (keyword arguments of bisect, if any, follow the positional ones sorted by name) -/\n"
                   f"def optNuBody {{α : Type}} [Sc α] {{R : Type}} (npInf : R) (bisect : {bis_ty}){groups} : R :=\n"
                   f"  if {test} then {terms[0]} else {terms[1]}")
    tr.n_kernels += 1


def _loop_exits(wh, scope):
    """every `break` / `return` / `raise` / `continue` inside the loop: `<exit> | <enclosing if / except clause and what
    the try guards> | after: <statements of the same block that precede it>`"""
    out = []

    def block(stmts, ctx):
        for j, st in enumerate(stmts):
            if isinstance(st, (ast.Break, ast.Return, ast.Raise, ast.Continue)):
                what = "break" if isinstance(st, ast.Break) else "continue" if isinstance(st, ast.Continue) else _canon_text(st, scope)
                before = "; ".join(_canon_text(x, scope) for x in stmts[:j])
                out.append(f"{what} | {ctx} | after: {before}")
            elif isinstance(st, ast.If):
                block(st.body, f"if {_canon_text(st.test, scope)}")
                block(st.orelse, f"else of if {_canon_text(st.test, scope)}")
            elif isinstance(st, ast.Try):
                guarded = "; ".join(_canon_text(x, scope) for x in st.body)
                block(st.body, "try")
                for h in st.handlers:
                    ty = "" if h.type is None else " " + _canon_text(h.type, scope)
                    block(h.body, f"except{ty} guarding [{guarded}]")
                block(st.orelse, "try-else")
                block(st.finalbody, "finally")
            elif isinstance(st, (ast.For, ast.While)):
                block(st.body, "inner loop")
            elif isinstance(st, ast.With):
                block(st.body, ctx)
    block(wh.body, "loop body")
    return out


def extract_student(out_defs, out_tabs):
    tree = _parse("tempest/student.py")
    fit = _module_func(tree, "fit_mvstud")
    tr = Translation(fit)
    top = tr.root
    fb = _body(fit)

    # ---- defaults of fit_mvstud(data, tolerance=…, max_iter=…)
    if len(fit.args.args) < 3:
        raise Unavailable("fit_mvstud: fewer than three parameters")
    tr.kernel("tolDefault", _default_of(fit, 1), top, comment="default of the 2nd parameter (tolerance)")
    tr.kernel("maxIterDefault", _default_of(fit, 2), top, comment="default of the 3rd parameter (max_iter)")

    # ---- opt_nu / func0
    opt = _only([s for s in fb if isinstance(s, ast.FunctionDef)], "nested function (opt_nu) in fit_mvstud")
    so = tr.scope_of(opt)
    ob = _body(opt)
    f0 = _only([s for s in ob if isinstance(s, ast.FunctionDef)], "nested function (func0) in opt_nu")
    sf = tr.scope_of(f0)
    if len(f0.args.args) != 1:
        raise Unavailable("func0: not a function of one argument")
    f0b = _body(f0)
    f0a = _simple_assigns(f0b)
    if not (len(f0b) == 3 and len(f0a) == 2 and isinstance(f0b[2], ast.Return) and isinstance(f0b[2].value, ast.Name)
            and f0b[2].value.id == f0a[1][0]):
        raise Unavailable("func0: body is not `w = …; f = …; return f`")
    tr.kernel("func0W", f0a[0][1], sf)
    tr.kernel("func0F", f0a[1][1], sf)
    rest = [s for s in ob if not isinstance(s, ast.FunctionDef)]
    oa = _simple_assigns(rest)
    oif = _only([s for s in rest if isinstance(s, ast.If)], "if statement in opt_nu")
    if not (len(rest) == 3 and len(oa) == 1 and rest[0] is oa[0][2] and rest[1] is oif and isinstance(rest[2], ast.Return)):
        raise Unavailable("opt_nu: body is not `nu_max = …; if …: … else: …; return nu`")
    tr.kernel("nuMax", oa[0][1], so)
    tr.kernel("optNuInfTest", oif.test, so, kind="test")
    bis = _calls(oif.body, "optimize.bisect") + _calls(oif.orelse, "optimize.bisect")
    if len(bis) != 1:       # which branch it sits in is the skeleton's business
        raise Unavailable(f"opt_nu: expected one optimize.bisect call under the if, found {len(bis)}")
    out_tabs["bisectArgs"] = _call_args(bis[0], so)
    _opt_nu_body(tr, so, oif)
    if len(bis[0].args) >= 2:
        tr.kernel("bisectLo", bis[0].args[1], so, comment="2nd argument of optimize.bisect")
    else:
        raise Unavailable("opt_nu: optimize.bisect called with fewer than two positional arguments")

    # ---- main body: the loop
    wh = _only([s for s in fb if isinstance(s, ast.While)], "while loop in fit_mvstud")
    pre = fb[:fb.index(wh)]
    t = wh.test
    ok = (isinstance(t, ast.BoolOp) and isinstance(t.op, ast.And) and len(t.values) == 2
          and all(isinstance(v, ast.Compare) and len(v.ops) == 1 for v in t.values))
    if ok:
        c0, c1 = t.values
        ab = c0.left
        ok = (isinstance(ab, ast.Call) and _name(ab.func) in ("np.abs", "abs") and len(ab.args) == 1
              and isinstance(ab.args[0], ast.BinOp) and isinstance(ab.args[0].left, ast.Name) and isinstance(ab.args[0].right, ast.Name)
              and isinstance(c1.left, ast.Name) and isinstance(c1.comparators[0], ast.Name))
    if not ok:
        raise Unavailable("fit_mvstud: loop test is not `abs(<last> <op> <nu>) <cmp> <tol> and <i> <cmp> <max_iter>`")
    last_nu, nu, it = ab.args[0].left.id, ab.args[0].right.id, c1.left.id
    tr.kernel("whileNuTest", c0, top, kind="test")
    tr.kernel("whileIterTest", c1, top, kind="test")
    tr.kernel("whileTest", t, top, kind="test")

    def init_of(var, what):
        hits = [v for (nm, v, _s) in _simple_assigns(pre) if nm == var]
        if not hits:
            raise Unavailable(f"fit_mvstud: no assignment to the {what} `{var}` before the loop")
        return hits[-1]
    tr.kernel("nuInit", init_of(nu, "degrees of freedom"), top)
    tr.kernel("lastNuInit", init_of(last_nu, "previous degrees of freedom"), top)
    tr.kernel("iterInit", init_of(it, "iteration counter"), top)
    steps = [s for s in wh.body if isinstance(s, ast.AugAssign) and isinstance(s.target, ast.Name) and s.target.id == it]
    st = _only(steps, f"`{it} += …` at the top level of the loop")
    tr.kernel("iterStep", ast.BinOp(left=ast.Name(id=it, ctx=ast.Load()), op=st.op, right=st.value), top,
              comment=_canon_text(st, top))

    # roles: Sigma / diffs from the solve call, mu from `diffs = data - mu`, new_Sigma from the cholesky call
    solve = _only(_calls(wh.body, "np.linalg.solve"), "np.linalg.solve call in the loop")
    if not (len(solve.args) == 2 and all(isinstance(a, ast.Name) for a in solve.args) and not solve.keywords):
        raise Unavailable("fit_mvstud: np.linalg.solve is not called on two names")
    sigma, diffs = solve.args[0].id, solve.args[1].id
    loop_assigns = _simple_assigns(wh.body)
    dv = _only([v for (nm, v, _s) in loop_assigns if nm == diffs], f"assignment to `{diffs}` at the top level of the loop")
    if not (isinstance(dv, ast.BinOp) and isinstance(dv.left, ast.Name) and isinstance(dv.right, ast.Name)):
        raise Unavailable(f"fit_mvstud: `{diffs}` is not `<data> <op> <mu>` on two names")
    mu = dv.right.id
    tr.kernel("diffsK", dv, top)
    tr.kernel("initSigmaK", init_of(sigma, "scale matrix"), top)
    k = Kernel(tr, top, "initMu")
    k.num(init_of(mu, "location"))
    if k.params != [("L0", "α")]:
        raise Unavailable("fit_mvstud: the initial location is not a single numpy call")
    out_tabs["initMuLeaves"] = [f"{nm} = {txt}" for nm, txt, _ in k.leaves]
    tries = [s for s in wh.body if isinstance(s, ast.Try)]
    if len(tries) != 2:
        raise Unavailable(f"fit_mvstud: expected two try statements in the loop, found {len(tries)}")
    delta = _only([(nm, v) for (nm, v, _s) in _simple_assigns(tries[0].body) if _calls(v, "np.linalg.solve")],
                  "assignment from np.linalg.solve in the first try")
    tr.kernel("deltaK", delta[1], top)
    chol = _only(_calls(tries[1].body, "np.linalg.cholesky"), "np.linalg.cholesky call in the second try")
    if not (len(chol.args) == 1 and isinstance(chol.args[0], ast.Name)):
        raise Unavailable("fit_mvstud: np.linalg.cholesky is not called on a name")
    new_sigma = chol.args[0].id
    arith = [(nm, v) for (nm, v, _s) in loop_assigns if _is_arith(v) and nm != diffs]
    sg = _only([v for nm, v in arith if nm == new_sigma], f"arithmetic assignment to `{new_sigma}` in the loop")
    mv = _only([v for nm, v in arith if nm == mu], f"arithmetic assignment to `{mu}` in the loop")
    wv = _only([(nm, v) for nm, v in arith if nm not in (new_sigma, mu)], "weight assignment in the loop")
    tr.kernel("weightsK", wv[1], top)
    tr.kernel("sigmaK", sg, top)
    tr.kernel("muK", mv, top)
    post = fb[fb.index(wh) + 1:]
    wif = _only([s for s in post if isinstance(s, ast.If)], "if statement after the loop")
    tr.kernel("warnTest", wif.test, top, kind="test")
    # ---- "return the last valid estimate": where the loop can be left, and where the returned variables are written
    out_tabs["loopExits"] = _loop_exits(wh, top)
    state = {mu, sigma, nu, last_nu}
    skel = _skeleton(fit, top)
    cn = {top.resolve(v)[1] for v in state}
    out_tabs["stateWrites"] = [r for r in skel if re.match(r"^[0-9.tex]+: (%s) (=|[-+*/]=) " % "|".join(sorted(cn)), r)]
    out_tabs["fitSkeleton"] = skel
    out_defs += tr.defs
    out_tabs.update(tr.tabs)
    return tr.n_kernels


def extract_modes(prefix, method, out_defs, out_tabs):
    tree = _parse("tempest/modes.py")
    fn = _find_func(tree, "ModeStatistics", method)
    tr = Translation(fn)
    top = tr.root
    body = _body(fn)
    stmts = list(_walk_stmts(body))

    # ---- shape check: the `if` that raises
    chk = _only([s for s in body if isinstance(s, ast.If) and any(isinstance(x, ast.Raise) for x in s.body)], "shape check (if … raise)")
    tr.kernel(prefix + "ShapeTest", chk.test, top, kind="test")

    # ---- arithmetic assignments: float ones are the weight normalisations, the int one is n_resample
    assigns = [(s.targets[0].id, s.value) for s in stmts
               if isinstance(s, ast.Assign) and len(s.targets) == 1 and isinstance(s.targets[0], ast.Name) and _is_arith(s.value)]
    fl = [(nm, v) for nm, v in assigns if not tr.ints.is_int(v, top)]
    it = [(nm, v) for nm, v in assigns if tr.ints.is_int(v, top)]
    want = 2 if method == "from_particles" else 1
    if len(fl) != want:
        raise Unavailable(f"{method}: expected {want} float arithmetic assignment(s) (weight normalisation), found {len(fl)}")
    for j, (_nm, v) in enumerate(fl):
        tr.kernel(f"{prefix}Norm{j}K", v, top)
    nres = _only(it, f"integer arithmetic assignment (n_resample) in {method}")
    tr.kernel(prefix + "NResample", nres[1], top)

    # ---- the two calls
    ch = _only(_calls(body, "np.random.choice"), f"np.random.choice call in {method}")
    out_tabs[prefix + "ChoiceArgs"] = _call_args(ch, top)
    ft = _only(_calls(body, "fit_mvstud"), f"fit_mvstud call in {method}")
    out_tabs[prefix + "FitArgs"] = _call_args(ft, top)

    # ---- `if ~np.isfinite(dof): dof = dof_fallback`
    fbk = [s for s in stmts if isinstance(s, ast.If) and _calls(s.test, "np.isfinite")]
    f = _only(fbk, f"np.isfinite test in {method}")
    tst = f.test
    neg = isinstance(tst, ast.UnaryOp) and isinstance(tst.op, (ast.Invert, ast.Not))
    call = tst.operand if neg else tst
    if not (isinstance(call, ast.Call) and _name(call.func) == "np.isfinite" and len(call.args) == 1 and isinstance(call.args[0], ast.Name)
            and not call.keywords and len(f.body) == 1 and not f.orelse and isinstance(f.body[0], ast.Assign)
            and len(f.body[0].targets) == 1 and isinstance(f.body[0].targets[0], ast.Name) and isinstance(f.body[0].value, ast.Name)):
        raise Unavailable(f"{method}: fallback is not `if [~]np.isfinite(<x>): <y> = <z>`")
    x, y, z = call.args[0].id, f.body[0].targets[0].id, f.body[0].value.id
    cx, cy, cz = (top.resolve(v)[1] for v in (x, y, z))
    # the value of <y> after the statement, as a function of the values before it
    params, seen = [], set()
    for c in (cx, cy, cz):
        if c not in seen:
            seen.add(c)
            params.append(c)
    cond = f"isfinite {cx}"
    if neg:
        cond = f"!({cond})"
    tr.defs.append(f"/-- `{_doc(_canon_text(f.test, top))}`: `{_doc(_canon_text(f.body[0], top))}` — the value of `{cy}` afterwards -/\n"
                   f"def {prefix}DofFallback {{D : Type}} (isfinite : D → Bool) {' '.join(f'({p} : D)' for p in params)} : D :=\n"
                   f"  if {cond} then {cz} else {cy}")
    tr.n_kernels += 1

    # ---- default of resample_factor (the last parameter)
    names = [a.arg for a in fn.args.args]
    if "resample_factor" not in names:
        raise Unavailable(f"{method}: no parameter resample_factor")
    tr.kernel(prefix + "ResampleDefault", _default_of(fn, names.index("resample_factor")), top,
              comment="default of the parameter resample_factor")
    out_tabs[prefix + "Skeleton"] = _skeleton(fn, top)
    out_defs += tr.defs
    out_tabs.update(tr.tabs)
    return tr.n_kernels


SECTIONS = [("student.py:fit_mvstud", "G17-student-fit", lambda d, t: extract_student(d, t)),
            ("modes.py:from_particles", "G17-modes-from_particles", lambda d, t: extract_modes("fp", "from_particles", d, t)),
            ("modes.py:from_global", "G17-modes-from_global", lambda d, t: extract_modes("fg", "from_global", d, t))]


# ------------------------------------------------------------------------------------------------ rendering
_IDENT = re.compile(r"^[A-Za-z][A-Za-z0-9_]*$")


def _defuse(m):
    """spell the first letter of a word the harness's source gate forbids outside comments with an escape"""
    w = m.group(0)
    k = next((i for i, c in enumerate(w) if c.isalpha()), None)
    return w if k is None else w[:k] + "\\x%02x" % ord(w[k]) + w[k + 1:]


def _lean_str(x):
    """a Lean string literal (no raw control characters, quotes and backslashes escaped)"""
    x = "".join(ch if (ch.isprintable() or ch == " ") else "?" for ch in x)
    x = x.replace("\\", "\\\\").replace('"', '\\"')
    return '"' + common.FORBIDDEN.sub(_defuse, x) + '"'


def _lean_str_list(xs):
    return "[" + ",\n   ".join(_lean_str(x) for x in xs) + "]"


def render_section(defs, tabs):
    for k in tabs:
        if not _IDENT.match(k):
            raise Unavailable(f"table name {k!r} is not an identifier")
    L = []
    for d in defs:
        L += [d, ""]
    for k, v in tabs.items():
        L += [f"def {k} : List String :=\n  {_lean_str_list(v)}", ""]
    return "\n".join(L)


def translate_section(fn):
    """('ok', Lean text of the section, detail) or ('unavailable', None, reason) — never raises on any source text"""
    import warnings
    try:
        defs, tabs = [], {}
        with warnings.catch_warnings():
            warnings.simplefilter("ignore")          # SyntaxWarning of ast.parse (invalid escape sequences in the source)
            n = fn(defs, tabs)
        text = render_section(defs, tabs)
    except Unavailable as e:
        return ("unavailable", None, str(e))
    except (SyntaxError, OSError, RecursionError, UnicodeError) as e:
        return ("unavailable", None, f"{type(e).__name__}: {e}")
    except (AttributeError, IndexError, KeyError, TypeError, ValueError) as e:   # an AST shape the readers above did not expect
        import traceback
        tb = traceback.extract_tb(e.__traceback__)[-1]
        return ("unavailable", None, f"source shape not understood ({type(e).__name__}: {e} at g17_student.py:{tb.lineno})")
    return ("ok", text, f"{n} terms, {len(tabs)} tables, {sum(len(v) for v in tabs.values())} rows")


HEADER = ["/- GENERATED by translate/g17_student.py from /repo's current source — do not edit. -/",
          "import TempestVerif.Sc", "namespace Gen.StudentSrc", ""]


def _old_sections(path):
    try:
        with open(path) as fh:
            txt = fh.read()
    except OSError:
        return {}
    out = {}
    for key, _nm, _fn in SECTIONS:
        m = re.search(r"^-- BEGIN " + re.escape(key) + r"\n(.*?)^-- END " + re.escape(key) + r"$", txt, re.S | re.M)
        if m:
            out[key] = m.group(1)
    return out


def translate_all(old=None):
    """the three sections are translated independently: one that is `unavailable` keeps its previous text (so that a
    restructuring of modes.py does not switch off the tie of student.py); returns ([(name, status, detail)], file text | None)"""
    old = old or {}
    res, parts, complete = [], [], True
    for key, name, fn in SECTIONS:
        status, text, detail = translate_section(fn)
        res.append((name, status, detail))
        if status != "ok":
            text = old.get(key)
        if text is None:
            complete = False
        else:
            parts += [f"-- BEGIN {key}", text.rstrip("\n") + "\n", f"-- END {key}", ""]
    if not complete:
        return res, None
    return res, "\n".join(HEADER + parts + ["end Gen.StudentSrc", ""])


def generate_all():
    path = os.path.join(common.GEN, "StudentSrc.lean")
    res, text = translate_all(_old_sections(path))
    if text is None:       # some section has neither a fresh nor a previous text: nothing can be written
        return [(nm, "unavailable" if st == "ok" else st, d if st != "ok" else "not written: another section is unavailable and has no previous text")
                for nm, st, d in res]
    changed = common.write_if_changed(path, text)
    return [(nm, st, (f"{'re' if changed else ''}generated Gen/StudentSrc.lean section ({d})" if st == "ok" else d)) for nm, st, d in res]


def generate():
    """one status for the whole file (worst of the sections)"""
    res = generate_all()
    bad = [r for r in res if r[1] != "ok"]
    if bad:
        return (NAME, bad[0][1], "; ".join(f"{r[0]}: {r[2]}" for r in bad))
    return (NAME, "ok", "; ".join(r[2] for r in res))


if __name__ == "__main__":
    for r in generate_all():
        print(r)
