"""G14 — `tempest/tools.py: systematic_resample` and `tempest/steps/resample.py: Resampler.run` read from /repo's current
source (Python `ast` only), property C06.

Emits lean/TempestVerif/Gen/ResampleSrc.lean:

  * systematic_resample: every expression the executable model `Model.Resample` mirrors, compiled to a term over the scalar
    interface `Sc α` / over `Nat` for index arithmetic — `sqrtEps` (the module constant `SQRTEPS`, evaluated), `normTest`,
    `normElem`, `normalise` (the renormalisation branch), `position` (the comb from the single uniform), `posTest`,
    `jmaxDefault`, `jMax` (the cap at the last positive weight), `j0`, `c0Idx`, `c0Of` (initial state of the comb), `whileTest`,
    `bodyJ`, `bodyIdx`, `bodyC` (test and increments of the inner `while`), `posIdx`, `storeIdx`, `storeVal`, `loopCount`,
    `outLen`, `positionsLen` (the outer loop), `uniformDraws`, `systEffects` (seeding and the draw, in program order).
  * Resampler.run: `betaSkipTest`, `dispatch` (scheme string → routine called), `choiceArgs`, `systArgs` (arguments of the two
    calls bound to the callee's parameter names), `runEffects` (every state write with its path condition: the gather),
    `callSites` (every call of `systematic_resample` in the package).
  `Props/C06Source.lean` proves — by `rfl` for EVERY scalar type, `Float` included — that `Model.Resample` unfolds to these terms.

HOW the source is read.  Not statement by statement: a small substituting evaluator walks the function body, keeps for every
local name the expression it currently holds written over the function's INPUTS (parameters by position, `self.*`, the value of
the single uniform draw, …), merges `if` branches into conditional expressions, inlines calls of private helpers of the same
module / methods of the same class, and hands closed expressions to the typed compilers.  Consequently local names, temporaries
(`total = np.sum(weights)`), comments, formatting, the order of independent statements, `range(size)`+`positions[i]` versus
`enumerate(positions)` and the extraction of straight-line helpers do not change the generated file, while a literal, an
operator, an operand order, a comparison, an index or a dropped/duplicated statement does.

The translator never guesses: a construct outside its small language makes it return status `unavailable` with the construct
named.  It decides nothing about correctness: a source that is readable but different yields a different generated file and a
failing theorem.
"""
import ast
import builtins
import copy
import math
import os
import sys
from fractions import Fraction

from harness import common
from .g5_tables import Unavailable, _parse, _name

NAME = "G14-resample-source"
AT = "§"                       # prefix of input atoms (cannot occur in a Python identifier)


def _atom(s):
    return ast.Name(id=AT + s, ctx=ast.Load())


def _is_atom(n, s=None):
    return isinstance(n, ast.Name) and n.id.startswith(AT) and (s is None or n.id == AT + s)


def _dump(n):
    return ast.dump(n, annotate_fields=False)


def _show(n):
    """canonical one-line text of a closed expression (atoms without their prefix)"""
    return " ".join(ast.unparse(n).split()).replace(AT, "")


def _is_doc(st):
    return isinstance(st, ast.Expr) and isinstance(st.value, ast.Constant) and isinstance(st.value.value, str)


_BINDERS = (ast.Lambda, ast.ListComp, ast.SetComp, ast.DictComp, ast.GeneratorExp, ast.NamedExpr, ast.Await, ast.Yield,
            ast.YieldFrom, ast.Starred)


# ------------------------------------------------------------------------------------------------- substituting evaluator
class Evaluator:
    """evaluates a function body symbolically: names → closed expressions over the inputs"""

    MAX_INLINE = 4

    def __init__(self, module_funcs, class_methods, rng_calls=(), loop_handler=None, let_hook=None, known=()):
        self.known = set(known) | set(dir(builtins)) | {"self"}
        self.module_funcs = module_funcs        # name → FunctionDef (private helpers that may be inlined)
        self.class_methods = class_methods      # name → FunctionDef
        self.rng_calls = rng_calls
        self.loop_handler = loop_handler
        self.let_hook = let_hook                # (name, value) → replacement value or None, at the outermost block level
        self.effects = []                       # [(guards tuple, text)]
        self.guard_names = {}                   # dump(test) → (Gk, text)
        self.guard_tests = []                   # the tests, in order of first evaluation
        self.draws = 0
        self.clock = 0
        self.last_write = {}                    # (store, key) → clock
        self.calldepth = 0
        self.blockdepth = 0

    # ---- guards
    def guard(self, test, positive):
        d = _dump(test)
        if d not in self.guard_names:
            self.guard_names[d] = (f"G{len(self.guard_names)}", _show(test))
            self.guard_tests.append(copy.deepcopy(test))
        return ("" if positive else "!") + self.guard_names[d][0]

    def effect(self, guards, text):
        self.clock += 1
        self.effects.append((tuple(guards), text))

    # ---- expressions
    def subst(self, node, env):
        for n in ast.walk(node):
            if isinstance(n, _BINDERS):
                raise Unavailable(f"line {getattr(n, 'lineno', '?')}: {type(n).__name__} is outside the expression language")
        return self._sub(copy.deepcopy(node), env)

    def _check_fresh(self, value, name):
        for n in ast.walk(value):
            rk = getattr(n, "_rk", None)
            if rk is not None and self.last_write.get(rk, -1) > n._t:
                raise Unavailable(f"`{name}` holds a read of {rk[0]}[{rk[1]!r}] made before a later write to it")

    def _sub(self, n, env):
        if isinstance(n, ast.Name):
            if isinstance(n.ctx, ast.Load) and n.id in env:
                v = env[n.id]
                self._check_fresh(v, n.id)
                return copy.deepcopy(v)
            if isinstance(n.ctx, ast.Load) and not n.id.startswith(AT) and n.id not in self.known:
                raise Unavailable(f"line {getattr(n, 'lineno', '?')}: `{n.id}` is read where it has no value")
            return n
        if isinstance(n, ast.Call):
            n.func = self._sub(n.func, env) if not isinstance(n.func, ast.Name) else n.func
            n.args = [self._sub(a, env) for a in n.args]
            for k in n.keywords:
                if k.arg is None:
                    raise Unavailable("`**kwargs` in a call")
                k.value = self._sub(k.value, env)
            return self._call(n, env)
        for field, old in ast.iter_fields(n):
            if isinstance(old, list):
                setattr(n, field, [self._sub(x, env) if isinstance(x, ast.AST) else x for x in old])
            elif isinstance(old, ast.AST):
                setattr(n, field, self._sub(old, env))
        return n

    def _call(self, n, env):
        fn = _name(n.func)
        if fn in ("np.random.random", "np.random.rand", "np.random.random_sample", "numpy.random.random") \
                and not n.args and not n.keywords:
            a = _atom(f"u{self.draws}")
            self.effect(self._guards, f"u{self.draws} = {fn}()")
            self.draws += 1
            return a
        if fn is not None and fn.startswith("self.state.get_") and n.args and isinstance(n.args[0], ast.Constant):
            n._rk = ("history" if "history" in fn else "current", n.args[0].value)
            n._t = self.clock
            return n
        target = None
        if isinstance(n.func, ast.Name) and n.func.id in self.module_funcs and n.func.id not in env:
            target, bound_self = self.module_funcs[n.func.id], False
        elif fn is not None and fn.startswith("self.") and fn.count(".") == 1 and fn[5:] in self.class_methods:
            target, bound_self = self.class_methods[fn[5:]], True
        if target is None:
            return n
        return self._inline(target, n, bound_self)

    def _inline(self, fdef, call, bound_self):
        if self.calldepth >= self.MAX_INLINE:
            raise Unavailable(f"helper calls nested deeper than {self.MAX_INLINE} at `{fdef.name}`")
        a = fdef.args
        if a.vararg or a.kwarg or a.posonlyargs or a.kwonlyargs or fdef.decorator_list:
            raise Unavailable(f"helper `{fdef.name}`: signature outside the language")
        params = [x.arg for x in a.args]
        if bound_self:
            if not params:
                raise Unavailable(f"method `{fdef.name}` without self")
            params = params[1:]
        defaults = dict(zip(params[len(params) - len(a.defaults):], a.defaults)) if a.defaults else {}
        env = {}
        if len(call.args) > len(params):
            raise Unavailable(f"helper `{fdef.name}`: too many arguments")
        for p, v in zip(params, call.args):
            env[p] = v
        for k in call.keywords:
            if k.arg not in params or k.arg in env:
                raise Unavailable(f"helper `{fdef.name}`: keyword {k.arg!r}")
            env[k.arg] = k.value
        for p in params:
            if p not in env:
                if p not in defaults:
                    raise Unavailable(f"helper `{fdef.name}`: parameter {p!r} unbound")
                env[p] = copy.deepcopy(defaults[p])
        self.calldepth += 1
        saved = self.blockdepth
        self.blockdepth = 0
        try:
            st, val = self.block(fdef.body, env, self._guards, toplevel=True)
        finally:
            self.calldepth -= 1
            self.blockdepth = saved
        return val if st == "ret" else ast.Constant(value=None)

    # ---- statements
    _guards = ()

    def _bind(self, env, name, value):
        if self.let_hook is not None and self.calldepth == 0 and self.blockdepth == 0:
            r = self.let_hook(name, value)
            if r is not None:
                value = r
        env[name] = value

    def _assign(self, tgt, value, env, guards, st):
        if isinstance(tgt, ast.Name):
            self._bind(env, tgt.id, value)
        elif isinstance(tgt, ast.Tuple) and isinstance(value, ast.Tuple) and len(tgt.elts) == len(value.elts):
            for t, v in zip(tgt.elts, value.elts):
                self._assign(t, v, env, guards, st)
        elif isinstance(tgt, (ast.Subscript, ast.Attribute)):
            t2 = self.subst(tgt, env)
            self.effect(guards, f"{_show(t2)} := {_show(value)}")
        else:
            raise Unavailable(f"line {st.lineno}: assignment target `{ast.unparse(tgt)}` outside the language")

    def _call_effect(self, v, guards):
        fn = _name(v.func) or ""
        if fn.endswith(".update_current") and len(v.args) == 1 and isinstance(v.args[0], ast.Dict) and not v.keywords \
                and all(isinstance(k, ast.Constant) for k in v.args[0].keys):
            self.clock += 1
            for k, val in zip(v.args[0].keys, v.args[0].values):
                self.effects.append((tuple(guards), f"current[{k.value!r}] := {_show(val)}"))
                self.last_write[("current", k.value)] = self.clock
        elif fn.endswith(".set_current") and len(v.args) == 2 and isinstance(v.args[0], ast.Constant) and not v.keywords:
            self.effect(guards, f"current[{v.args[0].value!r}] := {_show(v.args[1])}")
            self.last_write[("current", v.args[0].value)] = self.clock
        else:
            self.effect(guards, _show(v))
            if ".state." in fn or fn.startswith("self.state"):
                raise Unavailable(f"state-changing call `{_show(v)}` the translator cannot attribute to a key")

    def block(self, stmts, env, guards, toplevel=False):
        """→ ('fall', None) | ('ret', value).  `env` is updated in place."""
        stmts = [s for s in stmts if not _is_doc(s) and not isinstance(s, ast.Pass)]
        for pos, st in enumerate(stmts):
            self._guards = tuple(guards)
            if isinstance(st, ast.Assign):
                v = self.subst(st.value, env)
                for t in st.targets:
                    self._assign(t, v, env, guards, st)
            elif isinstance(st, ast.AnnAssign) and st.value is not None:
                self._assign(st.target, self.subst(st.value, env), env, guards, st)
            elif isinstance(st, ast.AugAssign):
                if not isinstance(st.target, ast.Name):
                    raise Unavailable(f"line {st.lineno}: augmented assignment to `{ast.unparse(st.target)}`")
                if st.target.id not in env:
                    raise Unavailable(f"line {st.lineno}: `{st.target.id}` updated before it is bound")
                old = copy.deepcopy(env[st.target.id])
                self._bind(env, st.target.id, ast.BinOp(left=old, op=st.op, right=self.subst(st.value, env)))
            elif isinstance(st, ast.Expr):
                v = self.subst(st.value, env)
                if isinstance(v, ast.Call):
                    self._call_effect(v, guards)
                elif not isinstance(v, (ast.Constant, ast.Name)):
                    raise Unavailable(f"line {st.lineno}: expression statement `{ast.unparse(st)}`")
            elif isinstance(st, ast.Return):
                return "ret", (self.subst(st.value, env) if st.value is not None else ast.Constant(value=None))
            elif isinstance(st, ast.If):
                test = self.subst(st.test, env)
                e1, e2 = dict(env), dict(env)
                self.blockdepth += 1
                s1, v1 = self.block(st.body, e1, list(guards) + [self.guard(test, True)])
                s2, v2 = self.block(st.orelse, e2, list(guards) + [self.guard(test, False)])
                self.blockdepth -= 1
                if s1 == "fall" and s2 == "fall":
                    for k in list(dict.fromkeys(list(e1) + list(e2))):
                        a, b = e1.get(k), e2.get(k)
                        if a is not None and b is not None and _dump(a) == _dump(b):
                            env[k] = a
                        else:
                            self._bind(env, k, ast.IfExp(test=copy.deepcopy(test),
                                                        body=a if a is not None else _atom(f"unbound:{k}"),
                                                        orelse=b if b is not None else _atom(f"unbound:{k}")))
                    continue
                if s1 == "ret" and s2 == "ret":
                    return "ret", ast.IfExp(test=test, body=v1, orelse=v2)
                if not toplevel:
                    raise Unavailable(f"line {st.lineno}: conditional `return` inside a nested block")
                # one branch returns: the rest of the function runs under the other branch's condition
                if s1 == "ret":
                    env.clear(); env.update(e2)
                    sr, vr = self.block(stmts[pos + 1:], env, list(guards) + [self.guard(test, False)], toplevel=True)
                    return "ret", ast.IfExp(test=test, body=v1, orelse=vr if sr == "ret" else ast.Constant(value=None))
                env.clear(); env.update(e1)
                sr, vr = self.block(stmts[pos + 1:], env, list(guards) + [self.guard(test, True)], toplevel=True)
                return "ret", ast.IfExp(test=test, body=vr if sr == "ret" else ast.Constant(value=None), orelse=v2)
            elif isinstance(st, ast.For) and self.loop_handler is not None and self.calldepth == 0 and self.blockdepth == 0 \
                    and not guards:
                self.loop_handler(self, st, env)
            elif isinstance(st, (ast.Import, ast.ImportFrom)):
                self.known |= {(al.asname or al.name).split(".")[0] for al in st.names}
            else:
                raise Unavailable(f"line {st.lineno}: statement {type(st).__name__} outside the statement language")
        return "fall", None

    def effect_rows(self):
        """the effects in program order, each with its path condition; the conditions that guard some effect are listed first,
           numbered by first use (a conditional that guards no effect leaves no trace here)"""
        byname = {g: t for g, t in self.guard_names.values()}
        order = []
        for guards, _text in self.effects:
            for g in guards:
                if g.lstrip("!") not in order:
                    order.append(g.lstrip("!"))
        ren = {g: f"C{k}" for k, g in enumerate(order)}
        rows = [f"{ren[g]} := {byname[g]}" for g in order]
        for guards, text in self.effects:
            gs = [("!" if g.startswith("!") else "") + ren[g.lstrip("!")] for g in guards]
            rows.append((f"[{' '.join(gs)}] " if gs else "") + text)
        return rows


# ------------------------------------------------------------------------------------------------- typed compilers → Lean
def _lit(v):
    """a Python numeric literal as an exact term of `Sc α`"""
    if isinstance(v, bool) or not isinstance(v, (int, float)):
        raise Unavailable(f"literal {v!r} is not numeric")
    f = float(v)
    if f != f or f in (float("inf"), float("-inf")) or f < 0:
        raise Unavailable(f"literal {v!r} outside the literal language")
    if f == int(f) and f < 2 ** 53:
        return f"(Sc.ofNat {int(f)})"
    r = repr(f)
    if "e" in r or "E" in r:
        raise Unavailable(f"literal {v!r}: exponent form of a non-integer")
    whole, frac = r.split(".")
    m, e = int(whole + frac), len(frac)
    if Fraction(m, 10 ** e) != Fraction(r):
        raise Unavailable(f"literal {v!r}: decimal expansion not exact")
    return f"(Sc.lit {m} {e})"


def _const_term(x):
    """an evaluated module constant as an exact term: integer, or 1/N"""
    if x > 0 and x == int(x) and x < 2 ** 53:
        return f"(Sc.ofNat {int(x)})"
    if x > 0:
        inv = Fraction(1) / Fraction(x)
        if inv.denominator == 1 and inv.numerator < 2 ** 63:
            return f"(Sc.div (Sc.ofNat 1) (Sc.ofNat {inv.numerator}))"
    return _lit(x)


def _eval_const(node):
    """value of a module-level constant expression built from literals, + - * / **, float(), math.sqrt/np.sqrt and
       np.finfo(<float64>).eps (= 2^-52, a fact of IEEE double)"""
    if isinstance(node, ast.Constant) and isinstance(node.value, (int, float)) and not isinstance(node.value, bool):
        return node.value
    if isinstance(node, ast.BinOp):
        a, b = _eval_const(node.left), _eval_const(node.right)
        if isinstance(node.op, ast.Add):
            return a + b
        if isinstance(node.op, ast.Sub):
            return a - b
        if isinstance(node.op, ast.Mult):
            return a * b
        if isinstance(node.op, ast.Div):
            return a / b
        if isinstance(node.op, ast.Pow):
            return a ** b
    if isinstance(node, ast.UnaryOp) and isinstance(node.op, ast.USub):
        return -_eval_const(node.operand)
    if isinstance(node, ast.Call) and len(node.args) == 1 and not node.keywords:
        f = _name(node.func)
        if f in ("float", "np.float64"):
            return float(_eval_const(node.args[0]))
        if f in ("math.sqrt", "np.sqrt"):
            return math.sqrt(_eval_const(node.args[0]))
    if isinstance(node, ast.Attribute) and node.attr == "eps" and isinstance(node.value, ast.Call) \
            and _name(node.value.func) == "np.finfo" and len(node.value.args) == 1 \
            and _name(node.value.args[0]) in ("np.float64", "float", "np.double"):
        return sys.float_info.epsilon
    raise Unavailable(f"module constant expression `{ast.unparse(node)}` outside the constant language")


class Comp:
    """compiles closed expressions.  `nats` / `scals`: atom id or dump(expr) → Lean name;  `elem`: dump(vector expr) → Lean
       name of the current element (elementwise context);  `consts`: module constant name → Lean term"""

    def __init__(self, nats=None, scals=None, elem=None, consts=None, arange=None):
        self.nats, self.scals, self.elem, self.consts = nats or {}, scals or {}, elem or {}, consts or {}
        self.arange = arange          # (Lean name of the index, list collecting the length expressions) or None

    def _key(self, n):
        return n.id if isinstance(n, ast.Name) else _dump(n)

    def nat(self, n):
        k = self._key(n)
        if k in self.nats:
            return self.nats[k]
        if isinstance(n, ast.Constant) and isinstance(n.value, int) and not isinstance(n.value, bool) and n.value >= 0:
            return str(n.value)
        if isinstance(n, ast.BinOp) and isinstance(n.op, (ast.Add, ast.Sub, ast.Mult)):
            op = {ast.Add: "+", ast.Sub: "-", ast.Mult: "*"}[type(n.op)]
            return f"({self.nat(n.left)} {op} {self.nat(n.right)})"
        raise Unavailable(f"`{_show(n)}` is not an index expression")

    def is_nat(self, n):
        try:
            self.nat(n)
            return True
        except Unavailable:
            return False

    def scal(self, n):
        k = self._key(n)
        if k in self.scals:
            return self.scals[k]
        if k in self.elem:
            return self.elem[k]
        if k in self.nats:
            return f"(Sc.ofNat {self.nats[k]})"
        if isinstance(n, ast.Constant):
            return _lit(n.value)
        if isinstance(n, ast.Name) and n.id in self.consts:
            return self.consts[n.id]
        if isinstance(n, ast.UnaryOp) and isinstance(n.op, ast.USub):
            return f"(Sc.neg {self.scal(n.operand)})"
        if isinstance(n, ast.UnaryOp) and isinstance(n.op, ast.UAdd):
            return self.scal(n.operand)
        if isinstance(n, ast.BinOp):
            op = {ast.Add: "Sc.add", ast.Sub: "Sc.sub", ast.Mult: "Sc.mul", ast.Div: "Sc.div"}.get(type(n.op))
            if op is None:
                raise Unavailable(f"operator {type(n.op).__name__} in `{_show(n)}`")
            a = self.scal(n.left)
            b = self.scal(n.right)
            return f"({op} {a} {b})"
        if isinstance(n, ast.Call) and not n.keywords and len(n.args) == 1:
            f = _name(n.func)
            if f in ("abs", "np.abs", "np.fabs", "math.fabs"):
                return f"(Sc.abs {self.scal(n.args[0])})"
            if f in ("float", "np.float64", "np.array", "np.asarray", "np.asfarray"):
                return self.scal(n.args[0])
            if f == "np.arange" and self.arange is not None:
                self.arange[1].append(n.args[0])
                return f"(Sc.ofNat {self.arange[0]})"
        raise Unavailable(f"`{_show(n)}` is outside the scalar expression language")

    def test(self, n):
        if isinstance(n, ast.BoolOp):
            op = "&&" if isinstance(n.op, ast.And) else "||"
            out = self.test(n.values[0])
            for v in n.values[1:]:
                out = f"({out} {op} {self.test(v)})"
            return out
        if isinstance(n, ast.UnaryOp) and isinstance(n.op, ast.Not):
            return f"(!{self.test(n.operand)})"
        if not (isinstance(n, ast.Compare) and len(n.ops) == 1):
            raise Unavailable(f"test `{_show(n)}` is not a comparison")
        l, r, op = n.left, n.comparators[0], type(n.ops[0])
        if self.is_nat(l) and self.is_nat(r):
            rel = {ast.Lt: "<", ast.LtE: "≤", ast.Gt: ">", ast.GtE: "≥", ast.Eq: "=", ast.NotEq: "≠"}.get(op)
            if rel is None:
                raise Unavailable(f"comparison {op.__name__} in `{_show(n)}`")
            return f"decide ({self.nat(l)} {rel} {self.nat(r)})"
        a = self.scal(l)
        b = self.scal(r)
        if op is ast.Eq:
            return f"(Sc.le {a} {b} && Sc.le {b} {a})"
        if op is ast.NotEq:
            return f"(!(Sc.le {a} {b} && Sc.le {b} {a}))"
        f = {ast.Lt: "Sc.lt", ast.LtE: "Sc.le", ast.Gt: "Sc.gt", ast.GtE: "Sc.ge"}.get(op)
        if f is None:
            raise Unavailable(f"comparison {op.__name__} in `{_show(n)}`")
        return f"({f} {a} {b})"


def _replace(node, target_dump, new):
    """copy of `node` with every subtree whose dump equals `target_dump` replaced by `new`"""
    class R(ast.NodeTransformer):
        def generic_visit(self, n):
            if _dump(n) == target_dump:
                return copy.deepcopy(new)
            return super().generic_visit(n)

        def visit(self, n):
            if _dump(n) == target_dump:
                return copy.deepcopy(new)
            return super().visit(n)
    return R().visit(copy.deepcopy(node))


def _strip_asarray(n):
    while isinstance(n, ast.Call) and _name(n.func) in ("np.array", "np.asarray") and len(n.args) == 1 and not n.keywords:
        n = n.args[0]
    return n


def _mentions(n, atom_id):
    return any(isinstance(x, ast.Name) and x.id == atom_id for x in ast.walk(n))


# ------------------------------------------------------------------------------------------------- systematic_resample
def _module_names(tree):
    out = set()
    for node in tree.body:
        if isinstance(node, (ast.Import, ast.ImportFrom)):
            out |= {(al.asname or al.name).split(".")[0] for al in node.names}
        elif isinstance(node, (ast.FunctionDef, ast.ClassDef)):
            out.add(node.name)
        elif isinstance(node, (ast.Assign, ast.AnnAssign)):
            for t in (node.targets if isinstance(node, ast.Assign) else [node.target]):
                out |= {x.id for x in ast.walk(t) if isinstance(x, ast.Name)}
    return out


def _module_level(tree):
    funcs = {f.name: f for f in tree.body if isinstance(f, ast.FunctionDef)}
    consts = {}
    for node in tree.body:
        if isinstance(node, ast.Assign) and len(node.targets) == 1 and isinstance(node.targets[0], ast.Name):
            consts[node.targets[0].id] = node.value
        elif isinstance(node, ast.AnnAssign) and isinstance(node.target, ast.Name) and node.value is not None:
            consts[node.target.id] = node.value
    return funcs, consts


def _defn(name, params, ty, body, comment):
    comment = " ".join(str(comment).split()).replace("-/", "- /").replace("/-", "/ -")[:200]
    ps = "".join(f" ({' '.join(ns)} : {t})" for ns, t in params if ns)
    return f"/-- {comment} -/\ndef {name}{ps} : {ty} := {body}"


def extract_systematic(tree):
    funcs, consts_src = _module_level(tree)
    if "systematic_resample" not in funcs:
        raise Unavailable("tools.systematic_resample not found")
    fdef = funcs["systematic_resample"]
    a = fdef.args
    if a.vararg or a.kwarg or a.posonlyargs or a.kwonlyargs or len(a.args) != 3:
        raise Unavailable("systematic_resample: signature is not (size, weights, random_state=None)")
    p_size, p_w, p_rs = [x.arg for x in a.args]
    helpers = {k: v for k, v in funcs.items() if k != "systematic_resample"}
    info = {}

    def let_hook(name, value):
        if name == p_w and not _is_atom(value):
            if "norm" in info:
                raise Unavailable(f"`{p_w}` is rebound more than once")
            info["norm"] = value
            return _atom("v")
        return None

    def loop(ev, st, env):
        if "loop" in info:
            raise Unavailable("more than one top-level `for` loop")
        if st.orelse:
            raise Unavailable("for … else")
        it = ev.subst(st.iter, env)
        lenv = dict(env)
        if isinstance(it, ast.Call) and _name(it.func) == "range" and len(it.args) == 1 and isinstance(st.target, ast.Name):
            lenv[st.target.id] = _atom("i")
            count = ("range", it.args[0])
        elif (isinstance(it, ast.Call) and _name(it.func) == "enumerate" and len(it.args) == 1 and not it.keywords
              and isinstance(st.target, ast.Tuple) and len(st.target.elts) == 2
              and all(isinstance(e, ast.Name) for e in st.target.elts)):
            lenv[st.target.elts[0].id] = _atom("i")
            lenv[st.target.elts[1].id] = ast.Subscript(value=it.args[0], slice=_atom("i"), ctx=ast.Load())
            count = ("len", it.args[0])
        else:
            raise Unavailable(f"line {st.lineno}: loop header `for {ast.unparse(st.target)} in {ast.unparse(st.iter)}`")
        body = [s for s in st.body if not _is_doc(s) and not isinstance(s, ast.Pass)]
        if not (len(body) == 2 and isinstance(body[0], ast.While) and isinstance(body[1], ast.Assign)
                and len(body[1].targets) == 1 and isinstance(body[1].targets[0], ast.Subscript)
                and isinstance(body[1].targets[0].value, ast.Name)):
            raise Unavailable(f"line {st.lineno}: loop body is not `while …: …` followed by one store `out[…] = …`")
        wh, store = body
        if wh.orelse:
            raise Unavailable("while … else")
        carried = []
        for n in ast.walk(wh):
            tg = []
            if isinstance(n, ast.Assign):
                tg = n.targets
            elif isinstance(n, (ast.AugAssign, ast.AnnAssign)):
                tg = [n.target]
            for t in tg:
                if not isinstance(t, ast.Name):
                    raise Unavailable(f"line {n.lineno}: the inner loop assigns to `{ast.unparse(t)}`")
                if t.id not in carried:
                    carried.append(t.id)
        jn = cn = None
        for nm in carried:
            if nm not in env:
                raise Unavailable(f"inner-loop variable `{nm}` has no value before the loop")
            init = env[nm]
            if isinstance(init, ast.Constant) and isinstance(init.value, int) and not isinstance(init.value, bool):
                if jn is not None:
                    raise Unavailable("two integer variables are carried through the inner loop")
                jn = nm
            else:
                if cn is not None:
                    raise Unavailable("two non-integer variables are carried through the inner loop")
                cn = nm
        if jn is None or cn is None:
            raise Unavailable("the inner loop does not carry one integer and one running sum")
        init_j, init_c = env[jn], env[cn]
        lenv[jn], lenv[cn] = _atom("j"), _atom("c")
        test = ev.subst(wh.test, lenv)
        benv = dict(lenv)
        ev.blockdepth += 1
        stt, _ = ev.block(wh.body, benv, ())
        ev.blockdepth -= 1
        if stt != "fall":
            raise Unavailable("`return` inside the inner loop")
        extra = [k for k in benv if k not in lenv]
        buf = store.targets[0].value.id
        if buf not in env:
            raise Unavailable(f"output buffer `{buf}` has no value before the loop")
        info["loop"] = dict(count=count, test=test, new_j=benv[jn], new_c=benv[cn], init_j=init_j, init_c=init_c,
                            store_idx=ev.subst(store.targets[0].slice, lenv), store_val=ev.subst(store.value, lenv),
                            buffer=env[buf], extra=extra)
        env[buf] = _atom("out")
        for nm in (jn, cn):
            env[nm] = _atom(f"after-loop:{nm}")

    ev = Evaluator(helpers, {}, loop_handler=loop, let_hook=let_hook, known=_module_names(tree))
    env = {p_size: _atom("size"), p_w: _atom("weights"), p_rs: _atom("random_state")}
    st, ret = ev.block(fdef.body, env, (), toplevel=True)
    if st != "ret":
        raise Unavailable("systematic_resample does not end in a `return`")
    if "loop" not in info:
        raise Unavailable("systematic_resample: no top-level `for` loop found")
    L = info["loop"]
    if "norm" not in info:
        # the weights are never rebound: the comb runs on the input vector itself
        wd = _dump(_atom("weights"))
        for k in ("test", "new_j", "new_c", "init_j", "init_c", "store_idx", "store_val", "buffer"):
            L[k] = _replace(L[k], wd, _atom("v"))
        L["count"] = (L["count"][0], _replace(L["count"][1], wd, _atom("v")))
    defs = []

    # ---- constants used
    consts = {}
    for k, v in consts_src.items():
        if any(isinstance(n, ast.Name) and n.id == k for x in (info.get("norm"), L["test"]) if x is not None for n in ast.walk(x)):
            consts[k] = v
    cterms = {}
    for k, v in consts.items():
        val = _eval_const(v)
        lname = "sqrtEps" if k == "SQRTEPS" else "const_" + "".join(ch for ch in k if ch.isalnum() or ch == "_")
        defs.append(_defn(lname, [], "α", _const_term(val), f"module constant `{k} = {ast.unparse(v)}`, evaluated: {val!r}"))
        cterms[k] = lname

    sum_w = _dump(ast.parse("np.sum(x)", mode="eval").body).replace("'x'", f"'{AT}weights'")
    # ---- renormalisation
    norm = info.get("norm")
    if norm is None:
        defs.append(_defn("normalise", [(["s"], "α"), (["w"], "List α")], "List α", "w", "the weights are used as given"))
    else:
        def vec(n):
            n0 = _strip_asarray(n)
            if _is_atom(n0, "weights"):
                return "w"
            if isinstance(n, ast.IfExp):
                c = Comp(scals={sum_w: "s"}, consts=cterms)
                return f"if {c.test(n.test)} then {vec(n.body)} else {vec(n.orelse)}"
            if not _mentions(n, AT + "weights"):
                raise Unavailable(f"`{_show(n)}` is not a vector expression over the weights")
            c = Comp(scals={sum_w: "s"}, elem={AT + "weights": "x"}, consts=cterms)
            return f"w.map (fun x => {c.scal(n)})"
        if isinstance(norm, ast.IfExp) and _is_atom(_strip_asarray(norm.orelse), "weights") \
                and not _is_atom(_strip_asarray(norm.body), "weights"):
            c = Comp(scals={sum_w: "s"}, consts=cterms)
            defs.append(_defn("normTest", [(["s"], "α")], "Bool", c.test(norm.test), _show(norm.test) + "   (s = np.sum(weights))"))
            c = Comp(scals={sum_w: "s"}, elem={AT + "weights": "x"}, consts=cterms)
            defs.append(_defn("normElem", [(["x", "s"], "α")], "α", c.scal(norm.body), "weights = " + _show(norm.body) + "   (elementwise)"))
            defs.append(_defn("normalise", [(["s"], "α"), (["w"], "List α")], "List α",
                              "if normTest s then w.map (fun x => normElem x s) else w", "the weights the comb runs on"))
        else:
            defs.append(_defn("normalise", [(["s"], "α"), (["w"], "List α")], "List α", vec(norm), "weights = " + _show(norm)))

    # ---- the inner loop: test
    test = L["test"]
    # j_max: the loop-invariant index expression the test compares the running index with
    jmax_expr = None
    for n in ast.walk(test):
        if isinstance(n, ast.Compare) and len(n.ops) == 1:
            sides = [n.left, n.comparators[0]]
            if any(_is_atom(s, "j") for s in sides):
                other = [s for s in sides if not _is_atom(s, "j")]
                if len(other) == 1 and jmax_expr is None:
                    jmax_expr = other[0]
    if jmax_expr is None:
        raise Unavailable(f"inner-loop test `{_show(test)}`: no comparison of the running index with a bound")
    test1 = _replace(test, _dump(jmax_expr), _atom("jmax"))
    subs = [n for n in ast.walk(test1) if isinstance(n, ast.Subscript) and not _is_atom(n.value, "v")]
    if len({_dump(n) for n in subs}) != 1:
        raise Unavailable(f"inner-loop test `{_show(test1)}`: expected exactly one element of the position vector")
    pos_vec, pos_idx = subs[0].value, subs[0].slice
    test2 = _replace(test1, _dump(subs[0]), _atom("pos"))
    c = Comp(nats={AT + "j": "j", AT + "jmax": "jmax"}, scals={AT + "pos": "pos", AT + "c": "c"}, consts=cterms)
    wt = c.test(test2)

    # ---- positions
    ar = []
    c = Comp(nats={AT + "size": "size"}, scals={AT + "u0": "u0"}, arange=("i", ar), consts=cterms)
    pos_term = c.scal(pos_vec)
    if not ar:
        raise Unavailable(f"positions `{_show(pos_vec)}`: no np.arange(...) found")
    cn = Comp(nats={AT + "size": "size"})
    lens = {cn.nat(x) for x in ar}
    if len(lens) != 1:
        raise Unavailable("positions: np.arange lengths differ")
    pos_len = lens.pop()
    defs.append(_defn("position", [(["size"], "Nat"), (["u0"], "α"), (["i"], "Nat")], "α", pos_term,
                      "positions[i] of " + _show(pos_vec) + "   (u0 = the single np.random.random())"))
    defs.append(_defn("positionsLen", [(["size"], "Nat")], "Nat", pos_len, "length of the position vector"))

    # ---- j_max
    len_v = _dump(ast.parse("len(x)", mode="eval").body).replace("'x'", f"'{AT}v'")
    cj = Comp(nats={len_v: "len"})

    def nonempty_of(t):
        """P for a test `len(P)` / `len(P) > 0` / `P.size` / `P.size > 0`"""
        if isinstance(t, ast.Compare) and len(t.ops) == 1 and isinstance(t.ops[0], ast.Gt) \
                and isinstance(t.comparators[0], ast.Constant) and t.comparators[0].value == 0:
            t = t.left
        if isinstance(t, ast.Call) and _name(t.func) == "len" and len(t.args) == 1:
            return t.args[0]
        if isinstance(t, ast.Attribute) and t.attr == "size":
            return t.value
        return None

    P = nonempty_of(jmax_expr.test) if isinstance(jmax_expr, ast.IfExp) else None
    if P is not None:
        if not (isinstance(P, ast.Call) and _name(P.func) == "np.flatnonzero" and len(P.args) == 1 and not P.keywords
                and isinstance(P.args[0], ast.Compare)):
            raise Unavailable(f"cap `{_show(jmax_expr)}`: the index set is not np.flatnonzero(<comparison>)")
        body = jmax_expr.body
        if not (isinstance(body, ast.Subscript) and _dump(body.value) == _dump(P) and _show(body.slice) == "-1"):
            raise Unavailable(f"cap `{_show(jmax_expr)}`: the non-empty branch is not <index set>[-1]")
        ce = Comp(elem={AT + "v": "x"}, consts=cterms)
        defs.append(_defn("posTest", [(["x"], "α")], "Bool", ce.test(P.args[0]), _show(P.args[0]) + "   (elementwise)"))
        defs.append(_defn("jmaxDefault", [(["len"], "Nat")], "Nat", cj.nat(jmax_expr.orelse), _show(jmax_expr.orelse)))
        defs.append(_defn("jMax", [(["v"], "List α")], "Nat",
                          "match lastWhere? posTest v with | some k => k | none => jmaxDefault v.length", "j_max = " + _show(jmax_expr)))
    else:
        defs.append(_defn("jMax", [(["v"], "List α")], "Nat", Comp(nats={len_v: "v.length"}).nat(jmax_expr), "j_max = " + _show(jmax_expr)))

    # ---- initial state, test, body, store
    cn = Comp()
    defs.append(_defn("j0", [], "Nat", cn.nat(L["init_j"]), "j = " + _show(L["init_j"])))
    ic = L["init_c"]
    reads0 = [n for n in ast.walk(ic) if isinstance(n, ast.Subscript) and _is_atom(n.value, "v")]
    if len({_dump(n) for n in reads0}) != 1:
        raise Unavailable(f"initial running sum `{_show(ic)}`: expected exactly one weight to be read")
    defs.append(_defn("c0Idx", [], "Nat", cn.nat(reads0[0].slice), "the weight the running sum starts from: " + _show(reads0[0])))
    ic1 = _replace(ic, _dump(reads0[0]), _atom("x"))
    defs.append(_defn("c0Of", [(["x"], "α")], "α", Comp(scals={AT + "x": "x"}, consts=cterms).scal(ic1),
                      "cumulative_sum = " + _show(ic1) + "   (x = that weight)"))
    defs.append(_defn("whileTest", [(["j", "jmax"], "Nat"), (["pos", "c"], "α")], "Bool", wt, "while " + _show(test2)))
    cj2 = Comp(nats={AT + "j": "j"})
    defs.append(_defn("bodyJ", [(["j"], "Nat")], "Nat", cj2.nat(L["new_j"]), "j ← " + _show(L["new_j"])))
    reads = [n for n in ast.walk(L["new_c"]) if isinstance(n, ast.Subscript) and _is_atom(n.value, "v")]
    if len({_dump(n) for n in reads}) != 1:
        raise Unavailable(f"running sum `{_show(L['new_c'])}`: expected exactly one weight to be read")
    defs.append(_defn("bodyIdx", [(["j"], "Nat")], "Nat", cj2.nat(reads[0].slice), "the weight read: " + _show(reads[0])))
    newc = _replace(L["new_c"], _dump(reads[0]), _atom("x"))
    defs.append(_defn("bodyC", [(["c", "x"], "α")], "α", Comp(scals={AT + "c": "c", AT + "x": "x"}, consts=cterms).scal(newc),
                      "cumulative_sum ← " + _show(newc)))
    if L["extra"]:
        raise Unavailable(f"the inner loop also assigns {L['extra']}")
    ci = Comp(nats={AT + "i": "i"})
    defs.append(_defn("posIdx", [(["i"], "Nat")], "Nat", ci.nat(pos_idx), "index of the position tested in pass i"))
    defs.append(_defn("storeIdx", [(["i"], "Nat")], "Nat", ci.nat(L["store_idx"]), "out[…] written in pass i"))
    defs.append(_defn("storeVal", [(["j"], "Nat")], "Nat", cj2.nat(L["store_val"]), "value written (j = index after the inner loop)"))
    csz = Comp(nats={AT + "size": "size"})
    kind, cexpr = L["count"]
    if kind == "range":
        defs.append(_defn("loopCount", [(["size"], "Nat")], "Nat", csz.nat(cexpr), "number of passes of the outer loop"))
    else:
        if _dump(cexpr) != _dump(pos_vec):
            raise Unavailable(f"the outer loop enumerates `{_show(cexpr)}`, not the position vector")
        defs.append(_defn("loopCount", [(["size"], "Nat")], "Nat", pos_len, "number of passes of the outer loop"))
    buf = L["buffer"]
    if not (isinstance(buf, ast.Call) and _name(buf.func) in ("np.empty", "np.zeros") and buf.args):
        raise Unavailable(f"output buffer `{_show(buf)}` is not np.empty/np.zeros(<length>, …)")
    defs.append(_defn("outLen", [(["size"], "Nat")], "Nat", csz.nat(buf.args[0]), "out = " + _show(buf)))
    if not _is_atom(ret, "out"):
        raise Unavailable(f"systematic_resample returns `{_show(ret)}`, not the buffer the loop fills")
    defs.append(_defn("uniformDraws", [], "Nat", str(ev.draws), "number of np.random.random() calls"))
    tabs = {"systEffects": ev.effect_rows() + ["return out"]}
    sig = [x.arg for x in a.args]
    dfl = dict(zip(sig[len(sig) - len(a.defaults):], a.defaults)) if a.defaults else {}
    return defs, tabs, (sig, dfl)


# ------------------------------------------------------------------------------------------------- Resampler.run
CHOICE_SIG = (["a", "size", "replace", "p"], {"size": ast.Constant(value=None), "replace": ast.Constant(value=True),
                                              "p": ast.Constant(value=None)})


def _bind_args(call, sig, what):
    names, dfl = sig
    out = {}
    if len(call.args) > len(names):
        raise Unavailable(f"{what}: too many positional arguments")
    for nm, v in zip(names, call.args):
        out[nm] = v
    for k in call.keywords:
        if k.arg not in names or k.arg in out:
            raise Unavailable(f"{what}: keyword {k.arg!r}")
        out[k.arg] = k.value
    rows = []
    for nm in names:
        if nm in out:
            rows.append(f"{nm}={_show(out[nm])}")
        elif nm in dfl:
            rows.append(f"{nm}={_show(dfl[nm])}")
        else:
            raise Unavailable(f"{what}: parameter {nm!r} not supplied")
    return rows, out


def _lean_string(s):
    s = " ".join(str(s).split())
    return '"' + s.replace("\\", "\\\\").replace('"', "'") + '"'


def extract_run(tree, syst_sig):
    cls = None
    for node in tree.body:
        if isinstance(node, ast.ClassDef) and node.name == "Resampler":
            cls = node
    if cls is None:
        raise Unavailable("class Resampler not found")
    methods = {}
    for f in cls.body:
        if isinstance(f, ast.FunctionDef) and not f.decorator_list and f.name not in ("run", "__init__"):
            methods[f.name] = f
    run = [f for f in cls.body if isinstance(f, ast.FunctionDef) and f.name == "run"]
    if len(run) != 1:
        raise Unavailable("Resampler.run not found")
    run = run[0]
    a = run.args
    if a.vararg or a.kwarg or a.posonlyargs or a.kwonlyargs or len(a.args) != 2:
        raise Unavailable("Resampler.run: signature is not (self, weights)")
    info = {}

    def is_draw(n):
        f = _name(n.func) if isinstance(n, ast.Call) else None
        return f is not None and (f.startswith("np.random.") or f == "systematic_resample")

    def let_hook(name, value):
        if any(is_draw(n) for n in ast.walk(value)):
            if "idx" in info:
                raise Unavailable("indices are drawn at more than one place in Resampler.run")
            info["idx"] = value
            return _atom("idx")
        return None

    funcs, _ = _module_level(tree)
    ev = Evaluator({k: v for k, v in funcs.items() if k.startswith("_")}, methods, let_hook=let_hook, known=_module_names(tree))
    env = {a.args[1].arg: _atom("weights")}
    ev.block(run.body, env, (), toplevel=True)
    if "idx" not in info:
        raise Unavailable("Resampler.run: no call of np.random.* / systematic_resample bound to a name")
    defs, tabs = [], {}

    # ---- the skip test: the first conditional must compare the current beta with a literal
    beta_read = _dump(ast.parse("self.state.get_current('beta')", mode="eval").body)
    if not ev.guard_tests:
        raise Unavailable("Resampler.run has no conditional")
    skip_test = ev.guard_tests[0]
    st2 = _replace(skip_test, beta_read, _atom("beta"))
    if not _mentions(st2, AT + "beta"):
        raise Unavailable(f"first conditional of Resampler.run `{_show(skip_test)}` does not test the current beta")
    defs.append(_defn("betaSkipTest", [(["beta"], "α")], "Bool", Comp(scals={AT + "beta": "beta"}).test(st2),
                      "if " + _show(skip_test) + ": …; return"))

    # ---- dispatch
    chain, e = [], info["idx"]
    resample_attr = _dump(ast.parse("self.resample", mode="eval").body)
    while isinstance(e, ast.IfExp):
        t = e.test
        if not (isinstance(t, ast.Compare) and len(t.ops) == 1 and isinstance(t.ops[0], ast.Eq) and _dump(t.left) == resample_attr
                and isinstance(t.comparators[0], ast.Constant) and isinstance(t.comparators[0].value, str)):
            raise Unavailable(f"scheme dispatch: test `{_show(t)}` is not `self.resample == <string>`")
        if not isinstance(e.body, ast.Call) or _name(e.body.func) is None:
            raise Unavailable(f"scheme dispatch: `{_show(e.body)}` is not a direct call")
        chain.append((t.comparators[0].value, e.body))
        e = e.orelse
    if isinstance(e, ast.Call) and _name(e.func) is not None:
        final = _name(e.func)
        chain.append((None, e))
    elif isinstance(e, ast.Name) and e.id.startswith(AT + "unbound"):
        final = "unbound"
    else:
        raise Unavailable(f"scheme dispatch: fall-through value `{_show(e)}`")
    body = ""
    for s, call in chain:
        if s is not None:
            body += f"if resample == {_lean_string(s)} then {_lean_string(_name(call.func))} else "
    body += _lean_string(final)
    defs.append(_defn("dispatch", [(["resample"], "String")], "String", body, "which routine draws the indices, by self.resample"))
    for s, call in chain:
        f = _name(call.func)
        if f == "np.random.choice":
            tabs["choiceArgs"] = _bind_args(call, CHOICE_SIG, "np.random.choice")[0]
        elif f == "systematic_resample":
            tabs["systArgs"] = _bind_args(call, syst_sig, "systematic_resample")[0]
        else:
            tabs.setdefault("otherArgs", []).append(_show(call))
    tabs.setdefault("choiceArgs", [])
    tabs.setdefault("systArgs", [])
    tabs["runEffects"] = ev.effect_rows()
    return defs, tabs


def call_sites(syst_sig):
    """every call of systematic_resample in the package, arguments bound to the parameter names; the expression passed as
       the weights is written W"""
    rows = []
    root = os.path.join(common.REPO, "tempest")
    for dirpath, _dirs, files in sorted(os.walk(root)):
        for fn in sorted(files):
            if not fn.endswith(".py"):
                continue
            rel = os.path.relpath(os.path.join(dirpath, fn), common.REPO)
            tree = _parse(rel)
            for n in ast.walk(tree):
                if isinstance(n, ast.Call) and (_name(n.func) or "").split(".")[-1] == "systematic_resample":
                    _rows, bound = _bind_args(n, syst_sig, f"{rel}: systematic_resample")
                    w = bound.get(syst_sig[0][1])
                    out = []
                    for nm in syst_sig[0]:
                        v = bound.get(nm, syst_sig[1].get(nm))
                        v2 = _replace(v, _dump(w), ast.Name(id="W", ctx=ast.Load())) if w is not None else v
                        out.append(f"{nm}={_show(v2)}")
                    rows.append((rel, n.lineno, f"{rel}: " + " ".join(out)))
    return [r[2] for r in sorted(rows)]


# ------------------------------------------------------------------------------------------------- rendering
PRELUDE = '''/-- numpy idiom `np.flatnonzero(mask)[-1]`: position of the last entry satisfying `p` (`none` when the index set is empty) -/
def lastWhere? (p : α → Bool) : List α → Option Nat
  | [] => none
  | x :: xs => match lastWhere? p xs with
    | some k => some (k + 1)
    | none => if p x then some 0 else none
'''


def _lean_str_list(xs):
    if not xs:
        return "[]"
    return "[" + ",\n   ".join(_lean_string(x) for x in xs) + "]"


def render(defs, tabs):
    L = ["/- GENERATED by translate/g14_resample.py from /repo's current source — do not edit. -/",
         "import TempestVerif.Sc", "namespace Gen.ResampleSrc", "variable {α : Type} [Sc α]", "", PRELUDE]
    for d in defs:
        L += [d, ""]
    for k, v in tabs.items():
        L += [f"def {k} : List String :=\n  {_lean_str_list(v)}", ""]
    L += ["end Gen.ResampleSrc", ""]
    return "\n".join(L)


def extract():
    d1, t1, sig = extract_systematic(_parse("tempest/tools.py"))
    d2, t2 = extract_run(_parse("tempest/steps/resample.py"), sig)
    tabs = dict(t1)
    tabs.update(t2)
    tabs["callSites"] = call_sites(sig)
    return d1 + d2, tabs


def generate():
    try:
        defs, tabs = extract()
    except Unavailable as e:
        return (NAME, "unavailable", str(e))
    except (SyntaxError, OSError, RecursionError) as e:
        return (NAME, "unavailable", f"{type(e).__name__}: {e}")
    changed = common.write_if_changed(os.path.join(common.GEN, "ResampleSrc.lean"), render(defs, tabs))
    return (NAME, "ok", f"{'re' if changed else ''}generated Gen/ResampleSrc.lean ({len(defs)} terms, "
                        f"{sum(len(v) for v in tabs.values())} table rows)")


if __name__ == "__main__":
    if "--print" in sys.argv:
        print(render(*extract()))
    else:
        print(generate())
