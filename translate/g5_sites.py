"""G5-sites — CLOSED-WORLD table of every place of /repo's current source that can move or overwrite a record field
(u, x, logl, blobs), regenerated on every run (Python `ast` only).  Companion of g5_tables.py for property C07:
g5_tables reads WHAT the four known movement sites do; this translator lists ALL sites, so that "no site outside the
model" is an obligation (`Props.C07Sites`, decided on the generated lists) instead of an assumption.

Emits lean/TempestVerif/Gen/Sites.lean:
  * recordWriters      every `<state>.set_current("k", …)` / `<state>.update_current({"k": …})` with k a record key, in ANY
                       module of the package: (module:Class.function, key); a non-literal key is resolved through a
                       `for key, … in <dict literal>.items()` loop, else reported as "?"
  * writerCalls        for the functions that write record keys: every `set_current` / `update_current` call in source order
                       with all its keys and the expression stored under each
  * recordReaders      every `get_current` / `get_history` / `get_last_history` of a record key (or of the whole dict: "*")
  * storeInternals     every function that touches the private dictionaries `_current` / `_history` and how
  * fancySites         in the functions that handle record arrays: every subscript `base[index]` whose base is a record
                       array name and whose index is not a constant / plain slice: (function, base, index source, load|store)
  * blobGates          the guards that decide whether blobs are moved: the `have_blobs` property bodies, the constructor
                       arguments in core.py, the posterior's test
  * proposeReturns     the return expressions of both `_propose`
  * mcmcBody           the statement skeleton of one pass of `BaseMCMCRunner.run` in source order
  * iterationReturn    what `execute_iteration` returns
  * logLikeShape       the branch skeleton of `SamplerCore._log_like`
  * warmupBody         the statement skeleton of `Mutator.run`'s beta = 0 branch (redraw loop, cap, guards of the copy)
  * wiring             how the record arrays travel Mutator.run → parallel_mcmc → runner constructor → run() → back
                       (argument order at every call, parameter order of every callee, the unpacking of the result)
Nothing is guessed: a construct that cannot be rendered is emitted as the string "?" (which no expected table contains).
"""
import ast
import os

from harness import common

REC = ("u", "x", "logl", "blobs")
ARRAY_NAMES = {"u", "x", "logl", "blobs", "logw", "u_prime", "x_prime", "logl_prime", "blobs_prime", "u_resampled",
               "self.u", "self.x", "self.logl", "self.blobs", "blob", "rows", "results", "alpha", "weights"}
# functions whose bodies handle record arrays (every fancy index in them is listed)
ARRAY_FUNCS = [("tempest/steps/resample.py", "Resampler", "run"),
               ("tempest/steps/mutate.py", "Mutator", "run"),
               ("tempest/mcmc.py", "BaseMCMCRunner", "run"),
               ("tempest/mcmc.py", "BaseMCMCRunner", "__init__"),
               ("tempest/mcmc.py", "BaseMCMCRunner", "_evaluate_likelihood"),
               ("tempest/core.py", "SamplerCore", "compute_posterior"),
               ("tempest/core.py", "SamplerCore", "_log_like"),
               ("tempest/core.py", "SamplerCore", "execute_iteration")]


class Unavailable(Exception):
    pass


def _modules():
    root = os.path.join(common.REPO, "tempest")
    out = []
    for d, _, files in sorted(os.walk(root)):
        for f in sorted(files):
            if f.endswith(".py"):
                out.append(os.path.relpath(os.path.join(d, f), common.REPO))
    if not out:
        raise Unavailable("no modules under tempest/")
    return out


def _parse(rel):
    with open(os.path.join(common.REPO, rel)) as fh:
        return ast.parse(fh.read(), filename=rel)


def _name(node):
    if isinstance(node, ast.Name):
        return node.id
    if isinstance(node, ast.Attribute):
        b = _name(node.value)
        return None if b is None else b + "." + node.attr
    return None


def _src(node):
    try:
        return ast.unparse(node).replace('"', "'")
    except Exception:  # noqa
        return "?"


def _functions(tree):
    """(qualified name, FunctionDef) for every function, methods as Class.name; nested functions as outer.<inner>"""
    out = []

    def walk(body, prefix):
        for n in body:
            if isinstance(n, ast.ClassDef):
                walk(n.body, prefix + n.name + ".")
            elif isinstance(n, (ast.FunctionDef, ast.AsyncFunctionDef)):
                out.append((prefix + n.name, n))
                walk(n.body, prefix + n.name + ".")
    walk(tree.body, "")
    # module-level statements
    return out


def _own_nodes(fn):
    """nodes of a function body, not descending into nested function / class definitions"""
    todo = list(fn.body)
    while todo:
        n = todo.pop()
        yield n
        for c in ast.iter_child_nodes(n):
            if not isinstance(c, (ast.FunctionDef, ast.AsyncFunctionDef, ast.ClassDef, ast.Lambda)):
                todo.append(c)
            elif isinstance(c, ast.Lambda):
                todo.append(c)


def _loop_keys(fn, var):
    """keys a loop variable ranges over: `for var, … in NAME.items()` / `for var in NAME` with NAME a dict / set / frozenset
    literal assigned in the same function or at module level (module-level names are passed in via fn._module_consts)"""
    consts = dict(getattr(fn, "_module_consts", {}))
    for n in _own_nodes(fn):
        if isinstance(n, ast.Assign) and len(n.targets) == 1 and isinstance(n.targets[0], ast.Name):
            ks = _literal_keys(n.value)
            if ks is not None:
                consts[n.targets[0].id] = ks
    for n in _own_nodes(fn):
        if isinstance(n, ast.For):
            tgt = n.target
            first = tgt.elts[0] if isinstance(tgt, ast.Tuple) and tgt.elts else tgt
            if isinstance(first, ast.Name) and first.id == var:
                it = n.iter
                if isinstance(it, ast.Call) and isinstance(it.func, ast.Attribute) and it.func.attr in ("items", "keys"):
                    it = it.func.value
                nm = _name(it)
                if nm in consts:
                    return consts[nm]
    return None


def _literal_keys(v):
    if isinstance(v, ast.Dict):
        ks = [k.value for k in v.keys if isinstance(k, ast.Constant) and isinstance(k.value, str)]
        return ks if len(ks) == len(v.keys) else None
    if isinstance(v, ast.Call) and _name(v.func) in ("frozenset", "set") and len(v.args) == 1:
        v = v.args[0]
    if isinstance(v, (ast.Set, ast.List, ast.Tuple)):
        ks = [e.value for e in v.elts if isinstance(e, ast.Constant) and isinstance(e.value, str)]
        return ks if len(ks) == len(v.elts) else None
    return None


def extract():
    t = {k: [] for k in ("recordWriters", "recordReaders", "storeInternals", "fancySites", "blobGates",
                         "proposeReturns", "mcmcBody", "iterationReturn", "logLikeShape", "wiring", "writerCalls")}
    trees = {}
    for rel in _modules():
        try:
            trees[rel] = _parse(rel)
        except SyntaxError as e:
            raise Unavailable(f"{rel}: {e}")
    for rel, tree in trees.items():
        mod = rel[len("tempest/"):-3].replace("/", ".")
        consts = {}
        for n in tree.body:
            if isinstance(n, ast.Assign) and len(n.targets) == 1 and isinstance(n.targets[0], ast.Name):
                ks = _literal_keys(n.value)
                if ks is not None:
                    consts[n.targets[0].id] = ks
        for qn, fn in _functions(tree):
            fn._module_consts = consts
            where = f"{mod}:{qn}"
            for n in _own_nodes(fn):
                if isinstance(n, ast.Call) and isinstance(n.func, ast.Attribute):
                    meth = n.func.attr
                    if meth in ("set_current", "update_current"):
                        keys = []
                        if meth == "set_current":
                            a = n.args[0] if n.args else None
                            if isinstance(a, ast.Constant) and isinstance(a.value, str):
                                keys = [a.value]
                            elif isinstance(a, ast.Name):
                                keys = _loop_keys(fn, a.id) or ["?"]
                            else:
                                keys = ["?"]
                        else:
                            a = n.args[0] if n.args else None
                            if isinstance(a, ast.Dict):
                                keys = [k.value if isinstance(k, ast.Constant) and isinstance(k.value, str) else "?" for k in a.keys]
                            else:
                                keys = ["?"]
                        for k in keys:
                            if k in REC or k == "?":
                                t["recordWriters"].append((where, k))
                    elif meth in ("get_current", "get_history", "get_last_history"):
                        a = n.args[0] if n.args else None
                        if a is None:
                            k = "*" if meth == "get_current" else "?"
                        elif isinstance(a, ast.Constant) and isinstance(a.value, str):
                            k = a.value
                        elif isinstance(a, ast.Name):
                            ks = _loop_keys(fn, a.id)
                            k = "*" if ks is None else ("rec" if any(x in REC for x in ks) else "")
                        else:
                            k = "?"
                        if k in REC or k in ("*", "?", "rec"):
                            t["recordReaders"].append((where, meth + ":" + k))
                if isinstance(n, ast.Attribute) and n.attr in ("_current", "_history"):
                    t["storeInternals"].append((where, n.attr))
    # every writing call of the functions that write record keys, in source order, with ALL its keys
    wfuncs = {w for (w, _) in t["recordWriters"]}
    calls = []
    for rel, tree in trees.items():
        mod = rel[len("tempest/"):-3].replace("/", ".")
        for qn, fn in _functions(tree):
            where = f"{mod}:{qn}"
            if where not in wfuncs:
                continue
            found = []
            for n in _own_nodes(fn):
                if isinstance(n, ast.Call) and isinstance(n.func, ast.Attribute) and n.func.attr in ("set_current", "update_current"):
                    a = n.args[0] if n.args else None
                    if n.func.attr == "set_current":
                        ks = a.value if isinstance(a, ast.Constant) and isinstance(a.value, str) else "?"
                        val = _src(n.args[1]) if len(n.args) > 1 else "?"
                        found.append((n.lineno, n.col_offset, f"set_current:{ks}={val}"))
                    elif isinstance(a, ast.Dict):
                        items = ",".join((k.value if isinstance(k, ast.Constant) else "?") + "=" + _src(v)[:40]
                                         for k, v in zip(a.keys, a.values))
                        found.append((n.lineno, n.col_offset, "update_current:" + items))
                    else:
                        found.append((n.lineno, n.col_offset, "update_current:?"))
            for _, _, s_ in sorted(found):
                calls.append((where, s_))
    t["writerCalls"] = calls
    t["recordWriters"] = sorted(set(t["recordWriters"]))
    t["recordReaders"] = sorted(set(t["recordReaders"]))
    # how the private dictionaries are touched: collect per function the set of operations
    ops = []
    for rel, tree in trees.items():
        mod = rel[len("tempest/"):-3].replace("/", ".")
        for qn, fn in _functions(tree):
            where = f"{mod}:{qn}"
            for n in _own_nodes(fn):
                # stores:  self._X[...] = …   self._X = …   self._X.update(…)   self._X[k].append(…)
                if isinstance(n, (ast.Assign, ast.AugAssign)):
                    tgts = n.targets if isinstance(n, ast.Assign) else [n.target]
                    for tg in tgts:
                        base = tg
                        depth = 0
                        while isinstance(base, ast.Subscript):
                            base = base.value
                            depth += 1
                        if isinstance(base, ast.Attribute) and base.attr in ("_current", "_history"):
                            ops.append((where, base.attr + (":setitem" if depth else ":rebind")))
                if isinstance(n, ast.Call) and isinstance(n.func, ast.Attribute) and n.func.attr in ("update", "append", "pop", "clear", "extend", "insert", "setdefault", "popitem", "remove"):
                    base = n.func.value
                    while isinstance(base, ast.Subscript):
                        base = base.value
                    if isinstance(base, ast.Attribute) and base.attr in ("_current", "_history"):
                        ops.append((where, base.attr + ":" + n.func.attr))
    t["storeInternals"] = sorted(set(ops)) + sorted({(w, a + ":mention") for (w, a) in set(t["storeInternals"])
                                                    if not any(w == w2 for (w2, _) in ops)})

    # fancy-index sites in the array-handling functions
    sites = []
    for rel, cls, name in ARRAY_FUNCS:
        fn = None
        for qn, f in _functions(trees.get(rel) or _parse(rel)):
            if qn == f"{cls}.{name}":
                fn = f
        if fn is None:
            raise Unavailable(f"{rel}: {cls}.{name} not found")
        for n in ast.walk(fn):
            if isinstance(n, ast.Subscript):
                b = _name(n.value)
                if b is None or b not in ARRAY_NAMES:
                    continue
                sl = n.slice
                if isinstance(sl, ast.Constant):
                    continue
                if isinstance(sl, ast.Slice) and all(isinstance(p, (ast.Constant, type(None))) for p in (sl.lower, sl.upper, sl.step)):
                    continue
                sites.append((f"{cls}.{name}", b, _src(sl), "store" if isinstance(n.ctx, ast.Store) else "load", n.lineno, n.col_offset))
    t["fancySites"] = [(f, b, i, c) for f, b, i, c, _, _ in sorted(sites, key=lambda s: (ARRAY_FUNCS.index(next(a for a in ARRAY_FUNCS if f"{a[1]}.{a[2]}" == s[0])), s[4], s[5]))]

    # blob gates
    gates = []
    for rel, cls in (("tempest/steps/resample.py", "Resampler"), ("tempest/steps/mutate.py", "Mutator")):
        prop = None
        for qn, f in _functions(trees[rel]):
            if qn == f"{cls}.have_blobs":
                prop = f
        if prop is None:
            # a plain attribute: report what is assigned to it in __init__
            for qn, f in _functions(trees[rel]):
                if qn == f"{cls}.__init__":
                    for n in _own_nodes(f):
                        if isinstance(n, ast.Assign) and len(n.targets) == 1 and _name(n.targets[0]) == "self.have_blobs":
                            gates.append((f"{cls}.have_blobs", "attribute:" + _src(n.value)))
            if not any(g[0] == f"{cls}.have_blobs" for g in gates):
                gates.append((f"{cls}.have_blobs", "?"))
        else:
            is_prop = any(_name(d) == "property" for d in prop.decorator_list)
            rets = [_src(n.value) for n in _own_nodes(prop) if isinstance(n, ast.Return) and n.value is not None]
            others = [n for n in prop.body if not isinstance(n, (ast.Return, ast.Expr))]
            gates.append((f"{cls}.have_blobs", ("property:" if is_prop else "method:") + " | ".join(rets) + ("" if not others else " +stmts")))
        for qn, f in _functions(trees[rel]):
            if qn == f"{cls}.__init__":
                for n in _own_nodes(f):
                    if isinstance(n, ast.Assign) and len(n.targets) == 1 and _name(n.targets[0]) == "self._have_blobs":
                        gates.append((f"{cls}._have_blobs", _src(n.value)))
    core = trees["tempest/core.py"]
    for qn, f in _functions(core):
        if qn == "SamplerCore.__init__":
            for n in _own_nodes(f):
                if isinstance(n, ast.Call) and _name(n.func) in ("Resampler", "Mutator"):
                    for kw in n.keywords:
                        if kw.arg == "have_blobs":
                            gates.append((f"core:{_name(n.func)}(have_blobs=)", _src(kw.value)))
        if qn == "SamplerCore.compute_posterior":
            for n in ast.walk(f):
                if isinstance(n, ast.If):
                    for a in ast.walk(ast.Module(body=n.body, type_ignores=[])):
                        if isinstance(a, ast.Assign) and len(a.targets) == 1 and _name(a.targets[0]) == "blobs" \
                                and isinstance(a.value, ast.Call) and _src(a.value).startswith("self.state.get_history('blobs'"):
                            gates.append(("compute_posterior:fetch_blobs_if", _src(n.test)))
                    tst = _src(n.test)
                    if "blobs" in tst and tst != gates[-1][1] if gates else False:
                        gates.append(("compute_posterior:if", tst))
    # guards around every blob movement in the two steps and the runner: the test of the innermost `if` around each
    for rel, cls, name in ARRAY_FUNCS[:5]:
        for qn, f in _functions(trees[rel]):
            if qn != f"{cls}.{name}":
                continue

            def visit(body, guards):
                for n in body:
                    if isinstance(n, ast.If):
                        visit(n.body, guards + [_src(n.test)])
                        visit(n.orelse, guards + ["not (" + _src(n.test) + ")"])
                    elif isinstance(n, (ast.For, ast.While, ast.With, ast.Try)):
                        visit(getattr(n, "body", []), guards)
                        visit(getattr(n, "orelse", []), guards)
                    else:
                        s = _src(n)
                        if isinstance(n, ast.Expr) and not isinstance(n.value, ast.Call):
                            continue        # docstrings
                        if "blobs" in s and isinstance(n, (ast.Assign, ast.Expr)) and ("[" in s.split("=")[0] or "set_current('blobs'" in s):
                            g = [x for x in guards if "blobs" in x]
                            gates.append((f"{cls}.{name}:{s[:60]}", " & ".join(g) if g else "unguarded"))
            visit(f.body, [])
    t["blobGates"] = gates

    # _propose returns
    for qn, f in _functions(trees["tempest/mcmc.py"]):
        if qn in ("TPCNRunner._propose", "RWMRunner._propose"):
            for n in _own_nodes(f):
                if isinstance(n, ast.Return):
                    t["proposeReturns"].append((qn, _src(n.value)))
    t["proposeReturns"].sort()

    # skeleton of one pass of BaseMCMCRunner.run
    for qn, f in _functions(trees["tempest/mcmc.py"]):
        if qn == "BaseMCMCRunner.run":
            loop = next((n for n in f.body if isinstance(n, ast.While)), None)
            if loop is None:
                raise Unavailable("BaseMCMCRunner.run: no while loop")
            for n in loop.body:
                s = _src(n)
                if isinstance(n, (ast.Assign, ast.AugAssign)):
                    if any(k in s for k in ("u_prime", "x_prime", "logl_prime", "blobs_prime", "in_bounds", "mask_accept", "alpha", "u_rand")):
                        t["mcmcBody"].append(s[:110])
                elif isinstance(n, ast.For) and "u_prime" in s:
                    t["mcmcBody"].append("for: " + " ; ".join(_src(b) for b in n.body)[:90])
                elif isinstance(n, ast.If) and "blobs" in s:
                    t["mcmcBody"].append("if " + _src(n.test) + ": " + " ; ".join(_src(b) for b in n.body)[:90])
    # statement skeleton of Mutator.run's warm-up branch (`if beta == 0.0:`): the redraw loop, its cap, the guards of the copy
    t["warmupBody"] = []
    for qn, f in _functions(trees["tempest/steps/mutate.py"]):
        if qn != "Mutator.run":
            continue
        branch = next((n for n in f.body if isinstance(n, ast.If) and _src(n.test) == "beta == 0.0"), None)
        if branch is None:
            t["warmupBody"] = ["?"]
            continue

        def wshape(body, depth):
            for n in body:
                pad = "  " * depth
                if isinstance(n, ast.If):
                    t["warmupBody"].append(pad + "if " + _src(n.test)[:100])
                    wshape(n.body, depth + 1)
                    if n.orelse:
                        t["warmupBody"].append(pad + "else")
                        wshape(n.orelse, depth + 1)
                elif isinstance(n, ast.While):
                    t["warmupBody"].append(pad + "while " + _src(n.test)[:100])
                    wshape(n.body, depth + 1)
                elif isinstance(n, ast.Raise):
                    t["warmupBody"].append(pad + "raise " + (_src(n.exc.func) if isinstance(n.exc, ast.Call) else "?"))
                elif isinstance(n, ast.Return):
                    t["warmupBody"].append(pad + "return")
                elif isinstance(n, (ast.Assign, ast.AugAssign)):
                    t["warmupBody"].append(pad + _src(n)[:110])
                elif isinstance(n, ast.Expr) and isinstance(n.value, ast.Call):
                    s_ = _src(n.value)
                    t["warmupBody"].append(pad + (s_[:60] if "set_current" in s_ else s_.split("(")[0] + "(…)"))
                elif isinstance(n, (ast.For, ast.With, ast.Try)):
                    t["warmupBody"].append(pad + "?")
        wshape(branch.body, 0)
    if not t["warmupBody"]:
        t["warmupBody"] = ["?"]
    # how the record arrays are handed from Mutator.run down to the runner and back
    wiring = []
    for rel, names in (("tempest/steps/mutate.py", ("Mutator.run",)),
                       ("tempest/mcmc.py", ("parallel_mcmc", "parallel_t_preconditioned_crank_nicolson", "parallel_random_walk_metropolis"))):
        for qn, f in _functions(trees[rel]):
            if qn not in names:
                continue
            for n in ast.walk(f):
                if isinstance(n, ast.Call) and _name(n.func) in ("parallel_mcmc", "parallel_t_preconditioned_crank_nicolson",
                                                                 "parallel_random_walk_metropolis", "TPCNRunner", "RWMRunner"):
                    pos = ",".join(_src(a) for a in n.args[:5])
                    kw = ",".join(f"{k.arg}={_src(k.value)}" for k in n.keywords if k.arg in ("u", "x", "logl", "blobs", "assignments", "periodic", "reflective", "prior_transform", "log_likelihood"))
                    wiring.append((f"{qn}->{_name(n.func)}", "pos:" + pos + (" kw:" + kw if kw else "")))
            for n in _own_nodes(f):
                if isinstance(n, ast.Assign) and isinstance(n.targets[0], ast.Tuple) and isinstance(n.value, ast.Call) \
                        and _name(n.value.func) == "parallel_mcmc":
                    wiring.append((f"{qn}<-parallel_mcmc", ",".join(_src(e) for e in n.targets[0].elts[:4])))
    for qn, f in _functions(trees["tempest/mcmc.py"]):
        if qn in ("parallel_mcmc", "parallel_t_preconditioned_crank_nicolson", "parallel_random_walk_metropolis", "BaseMCMCRunner.__init__"):
            args = [a.arg for a in f.args.args if a.arg != "self"][:5]
            wiring.append((f"{qn}:params", ",".join(args)))
        if qn == "BaseMCMCRunner.__init__":
            for n in _own_nodes(f):
                if isinstance(n, ast.Assign) and _name(n.targets[0]) in ("self.u", "self.x", "self.logl", "self.blobs"):
                    wiring.append((f"{qn}:{_name(n.targets[0])}", _src(n.value)))
        if qn == "BaseMCMCRunner.run":
            for n in _own_nodes(f):
                if isinstance(n, ast.Return) and isinstance(n.value, ast.Tuple):
                    wiring.append((f"{qn}:return", ",".join(_src(e) for e in n.value.elts[:4])))
        if qn == "BaseMCMCRunner._evaluate_likelihood":
            for n in ast.walk(f):
                if isinstance(n, ast.If):
                    wiring.append((f"{qn}:if", _src(n.test) + ": " + " ; ".join(_src(b) for b in n.body) + " else: " + " ; ".join(_src(b) for b in n.orelse)))
                if isinstance(n, ast.Return):
                    wiring.append((f"{qn}:return", _src(n.value)))
    t["wiring"] = sorted(wiring)
    for qn, f in _functions(core):
        if qn == "SamplerCore.execute_iteration":
            t["iterationReturn"] = [_src(n.value) for n in _own_nodes(f) if isinstance(n, ast.Return) and n.value is not None]
        if qn == "SamplerCore._log_like":
            def shape(body, depth):
                for n in body:
                    if isinstance(n, ast.If):
                        t["logLikeShape"].append("  " * depth + "if " + _src(n.test)[:100])
                        shape(n.body, depth + 1)
                        if n.orelse:
                            if len(n.orelse) == 1 and isinstance(n.orelse[0], ast.If):
                                shape(n.orelse, depth)
                            else:
                                t["logLikeShape"].append("  " * depth + "else")
                                shape(n.orelse, depth + 1)
                    elif isinstance(n, ast.Return):
                        t["logLikeShape"].append("  " * depth + "return " + _src(n.value))
                    elif isinstance(n, ast.Assign) and _name(n.targets[0]) in ("results", "blob", "logl", "rows"):
                        t["logLikeShape"].append("  " * depth + _src(n)[:100])
                    elif isinstance(n, ast.Try):
                        t["logLikeShape"].append("  " * depth + "try")
                        shape(n.body, depth + 1)
                        for h in n.handlers:
                            t["logLikeShape"].append("  " * depth + "except " + (_src(h.type) if h.type is not None else ""))
                            shape(h.body, depth + 1)
                    elif isinstance(n, ast.Raise):
                        t["logLikeShape"].append("  " * depth + "raise")
                    elif isinstance(n, ast.For):
                        t["logLikeShape"].append("  " * depth + "for " + _src(n.target) + " in " + _src(n.iter)[:60] + ": " + " ; ".join(_src(b) for b in n.body)[:80])
            shape(f.body, 0)
    return t


def _q(s):
    return '"' + str(s).replace("\\", "\\\\").replace('"', '\\"') + '"'


def render(t):
    L = ["/- GENERATED by translate/g5_sites.py from /repo's current source — do not edit. -/",
         "namespace Gen.Sites", ""]
    for k in ("recordWriters", "writerCalls", "recordReaders", "storeInternals", "blobGates", "proposeReturns", "wiring"):
        L.append(f"def {k} : List (String × String) := [" + ", ".join(f"({_q(a)}, {_q(b)})" for a, b in t[k]) + "]")
    L.append("def fancySites : List (String × String × String × String) := ["
             + ", ".join(f"({_q(a)}, {_q(b)}, {_q(c)}, {_q(d)})" for a, b, c, d in t["fancySites"]) + "]")
    for k in ("mcmcBody", "iterationReturn", "logLikeShape", "warmupBody"):
        L.append(f"def {k} : List String := [" + ", ".join(_q(x) for x in t[k]) + "]")
    L += ["", "end Gen.Sites", ""]
    return "\n".join(L)


def generate():
    try:
        t = extract()
    except Unavailable as e:
        return ("G5-sites", "unavailable", str(e))
    except (SyntaxError, OSError) as e:
        return ("G5-sites", "unavailable", f"{type(e).__name__}: {e}")
    changed = common.write_if_changed(os.path.join(common.GEN, "Sites.lean"), render(t))
    return ("G5-sites", "ok", f"{'re' if changed else ''}generated Gen/Sites.lean ({sum(len(v) for v in t.values())} entries)")


if __name__ == "__main__":
    import json
    print(json.dumps(extract(), indent=1))
