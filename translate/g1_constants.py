"""G1 — module-level constants and literal tolerances, regenerated from /repo's source (Python `ast` only).

Emits lean/TempestVerif/Gen/Constants.lean.  Every float literal is emitted as the EXACT rational value of its
double (`…Num / …Den`, for Rat/ℝ) and as its IEEE bit pattern (`…Bits`, for Float); integers as `Nat`.
"""
import ast
import os
import struct
from fractions import Fraction

from harness import common


class Unavailable(Exception):
    pass


def _parse(rel):
    with open(os.path.join(common.REPO, rel)) as fh:
        return ast.parse(fh.read())


def _num(node):
    if isinstance(node, ast.Constant) and isinstance(node.value, (int, float)) and not isinstance(node.value, bool):
        return node.value
    if isinstance(node, ast.UnaryOp) and isinstance(node.op, ast.USub):
        v = _num(node.operand)
        return None if v is None else -v
    return None


def _module_const(tree, name):
    for node in tree.body:
        tgt = None
        if isinstance(node, ast.Assign) and len(node.targets) == 1 and isinstance(node.targets[0], ast.Name):
            tgt, val = node.targets[0].id, node.value
        elif isinstance(node, ast.AnnAssign) and isinstance(node.target, ast.Name) and node.value is not None:
            tgt, val = node.target.id, node.value
        if tgt == name:
            v = _num(val)
            if v is None:
                raise Unavailable(f"{name} is not a numeric literal")
            return v
    raise Unavailable(f"{name} not found")


def _func(tree, cls, name):
    for node in ast.walk(tree):
        if isinstance(node, ast.ClassDef) and node.name == cls:
            for f in node.body:
                if isinstance(f, ast.FunctionDef) and f.name == name:
                    return f
    for node in tree.body:
        if cls is None and isinstance(node, ast.FunctionDef) and node.name == name:
            return node
    raise Unavailable(f"{cls}.{name} not found")


def _dump(n):
    return ast.dump(n, annotate_fields=False)


def extract():
    c = {}
    cfg = _parse("tempest/config.py")
    for k in ("BETA_TOLERANCE", "ESS_TOLERANCE", "DOF_FALLBACK", "TRIM_ESS", "TRIM_BINS"):
        c[k] = _module_const(cfg, k)
    core = _parse("tempest/core.py")
    nt = _func(core, "SamplerCore", "_not_termination")
    # return 1.0 - beta >= <lit> or ess < getattr(self, "n_total", 0)
    ret = max((n for n in ast.walk(nt) if isinstance(n, ast.Return)), key=lambda n: n.lineno).value
    ok = (isinstance(ret, ast.BoolOp) and isinstance(ret.op, ast.Or) and len(ret.values) == 2)
    if not ok:
        raise Unavailable("_not_termination: return is not `A or B`")
    a, b = ret.values
    if not (isinstance(a, ast.Compare) and len(a.ops) == 1 and isinstance(a.ops[0], ast.GtE)
            and isinstance(a.left, ast.BinOp) and isinstance(a.left.op, ast.Sub) and _num(a.left.left) == 1.0
            and isinstance(a.left.right, ast.Name) and a.left.right.id == "beta" and _num(a.comparators[0]) is not None):
        raise Unavailable("_not_termination: first disjunct is not `1.0 - beta >= <literal>`")
    c["TERM_BETA_TOL"] = float(_num(a.comparators[0]))
    if not (isinstance(b, ast.Compare) and len(b.ops) == 1 and isinstance(b.ops[0], ast.Lt)
            and isinstance(b.left, ast.Name) and b.left.id == "ess"):
        raise Unavailable("_not_termination: second disjunct is not `ess < …`")
    c["TERM_ESS_CMP"] = "lt_n_total" if "n_total" in _dump(b.comparators[0]) else "other"
    # the ESS used by the guard is computed from the weights at beta = 1 over the whole history
    calls = [n for n in ast.walk(nt) if isinstance(n, ast.Call) and isinstance(n.func, ast.Attribute) and n.func.attr == "compute_logw_and_logz"]
    # (a fact, not a parse failure: when the guard asks for other weights the generated flag is 0 and C12's obligation breaks)
    c["GUARD_WEIGHTS_AT_ONE"] = int(len(calls) == 1 and len(calls[0].args) >= 1 and not calls[0].keywords
                                    and _num(calls[0].args[0]) == 1.0)
    # run_sampling epilogue: the evidence is recomputed at beta = 1 right after the loop
    rs = _func(core, "SamplerCore", "run_sampling")
    body = rs.body
    wi = [i for i, n in enumerate(body) if isinstance(n, ast.While)]
    if len(wi) != 1:
        raise Unavailable("run_sampling: expected exactly one while loop")
    w = body[wi[0]]
    if "_not_termination" not in _dump(w.test):
        raise Unavailable("run_sampling: loop guard is not _not_termination()")
    loop_calls = [n.func.attr for n in ast.walk(w) if isinstance(n, ast.Call) and isinstance(n.func, ast.Attribute)]
    c["RUN_LOOP_BODY"] = ",".join(x for x in loop_calls if x != "_not_termination")
    nxt = body[wi[0] + 1:wi[0] + 3]
    epi = _dump(ast.Module(body=nxt, type_ignores=[]))
    c["RUN_EPILOGUE_Z1"] = int("compute_logw_and_logz" in epi and "1.0" in epi and "set_current" in epi and "'logz'" in epi)
    tools = _parse("tempest/tools.py")
    for node in tools.body:
        if isinstance(node, ast.Assign) and isinstance(node.targets[0], ast.Name) and node.targets[0].id == "SQRTEPS":
            d = _dump(node.value)
            shape_ok = ("sqrt" in d and "finfo" in d and "float64" in d and "eps" in d)
            c["SQRTEPS_IS_SQRT_EPS"] = int(shape_ok)
    if "SQRTEPS_IS_SQRT_EPS" not in c:
        raise Unavailable("tools.SQRTEPS not found")
    return c


def _double_parts(x):
    fr = Fraction(float(x))
    bits = struct.unpack("<Q", struct.pack("<d", float(x)))[0]
    return fr.numerator, fr.denominator, bits


def render(c):
    L = ["/- GENERATED by translate/g1_constants.py from /repo's current source — do not edit. -/",
         "namespace Gen.Constants", ""]
    for k, v in c.items():
        name = k[0].lower() + k[1:] if False else k
        if isinstance(v, str):
            L.append(f'def {name} : String := "{v}"')
        elif isinstance(v, int) and not isinstance(v, bool):
            L.append(f"def {name} : Nat := {v}")
        else:
            n, d, b = _double_parts(v)
            sign = "-" if n < 0 else ""
            L.append(f"def {name}Num : Int := {sign}{abs(n)}")
            L.append(f"def {name}Den : Nat := {d}")
            L.append(f"def {name}Bits : Nat := {b}")
    L += ["", "end Gen.Constants", ""]
    return "\n".join(L)


def generate():
    try:
        c = extract()
    except Unavailable as e:
        return ("G1-constants", "unavailable", str(e))
    except (SyntaxError, OSError) as e:
        return ("G1-constants", "unavailable", f"{type(e).__name__}: {e}")
    changed = common.write_if_changed(os.path.join(common.GEN, "Constants.lean"), render(c))
    return ("G1-constants", "ok", f"{'re' if changed else ''}generated Gen/Constants.lean ({len(c)} constants)")


if __name__ == "__main__":
    print(extract())
    print(generate())
