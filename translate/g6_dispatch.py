"""G6 — likelihood dispatch tree and call accounting, regenerated from /repo's source (Python `ast` only).

Emits lean/TempestVerif/Gen/Dispatch.lean:
  * the branch structure of SamplerCore._log_like  (vectorize → one call on the batch; pool ≠ None → distribute; else map)
  * the branch structure of SamplerCore._get_distribute_func
  * every place where the call counter is advanced, with the increment expression and the size of the batch that is
    evaluated at that place.
"""
import ast
import os

from harness import common


class Unavailable(Exception):
    pass


def _src(node):
    return ast.unparse(node).replace('"', "'")


def _func(tree, cls, name):
    for node in ast.walk(tree):
        if isinstance(node, ast.ClassDef) and node.name == cls:
            for f in node.body:
                if isinstance(f, ast.FunctionDef) and f.name == name:
                    return f
    raise Unavailable(f"{cls}.{name} not found")


def _if_chain(fn):
    """top-level if/elif/else chain of a function -> [(test source or 'else', first significant statement source)]"""
    for st in fn.body:
        if isinstance(st, ast.If):
            out = []
            node = st
            while True:
                out.append((_src(node.test), _src(node.body[-1])))
                if len(node.orelse) == 1 and isinstance(node.orelse[0], ast.If):
                    node = node.orelse[0]
                else:
                    if node.orelse:
                        out.append(("else", _src(node.orelse[-1])))
                    break
            return out
    raise Unavailable(f"{fn.name}: no if-chain")


def extract():
    core = ast.parse(open(os.path.join(common.REPO, "tempest/core.py")).read())
    ll = _func(core, "SamplerCore", "_log_like")
    chain = _if_chain(ll)
    gd = _if_chain(_func(core, "SamplerCore", "_get_distribute_func"))

    def norm_ll(test, stmt):
        if test == "self.config.vectorize" and "self.config.log_likelihood(x)" in stmt and stmt.startswith("return"):
            return "vectorize", "direct"
        if test == "self.config.pool is not None" and "_get_distribute_func()(self.config.log_likelihood, x)" in stmt:
            return "pool", "distribute"
        if test == "else" and "map(self.config.log_likelihood, x)" in stmt:
            return "else", "map"
        raise Unavailable(f"_log_like branch not recognised: if {test}: {stmt}")

    def norm_gd(test, stmt):
        t = test.replace(" ", "")
        if stmt == "return map" and "self.config.poolisNone" in t:
            serial_int = "isinstance(self.config.pool,int)andself.config.pool<=1" in t
            return ("none_or_int_le_1" if serial_int else "none"), "map"
        if "isinstance(self.config.pool,int)" in t and "self.config.pool>1" in t and stmt == "return pool.map":
            return "int_gt_1", "Pool(k).map"
        if test == "else" and stmt == "return self.config.pool.map":
            return "else", "pool.map"
        raise Unavailable(f"_get_distribute_func branch not recognised: if {test}: {stmt}")
    t = {"logLike": [norm_ll(a, b) for a, b in chain], "distribute": [norm_gd(a, b) for a, b in gd]}

    # call accounting
    incs = []
    mu = ast.parse(open(os.path.join(common.REPO, "tempest/steps/mutate.py")).read())
    mrun = _func(mu, "Mutator", "run")
    for node in ast.walk(mrun):
        if isinstance(node, ast.Assign) and len(node.targets) == 1 and isinstance(node.targets[0], ast.Name) and node.targets[0].id == "calls":
            v = node.value
            if isinstance(v, ast.BinOp) and isinstance(v.op, ast.Add) and "get_current('calls')" in _src(v.left):
                incs.append((node.lineno, "Mutator.run", _src(v.right)))
            else:
                raise Unavailable(f"calls assignment not of the form get_current('calls') + e: {_src(node)}")
    incs.sort()
    if len(incs) != 2:
        raise Unavailable(f"expected two `calls = … + e` assignments in Mutator.run, found {len(incs)}")
    t["warmupIncrement"] = incs[0][2]
    t["mcmcIncrement"] = incs[1][2]
    # size of the batch evaluated in the warm-up branch: x built over range(self.n_particles)
    warm_sizes = [_src(n.args[0]) for n in ast.walk(mrun) if isinstance(n, ast.Call) and isinstance(n.func, ast.Name)
                  and n.func.id == "range" and n.args]
    t["warmupBatch"] = warm_sizes[0] if warm_sizes else "?"
    mc = ast.parse(open(os.path.join(common.REPO, "tempest/mcmc.py")).read())
    ev = _func(mc, "BaseMCMCRunner", "_evaluate_likelihood")
    aug = [n for n in ast.walk(ev) if isinstance(n, ast.AugAssign)]
    if len(aug) != 1 or not isinstance(aug[0].op, ast.Add) or _src(aug[0].target) != "self.n_calls":
        raise Unavailable("_evaluate_likelihood: expected exactly one `self.n_calls += e`")
    t["stepIncrement"] = _src(aug[0].value)
    ncalls = [n for n in ast.walk(ev) if isinstance(n, ast.Call) and _src(n.func) == "self.log_likelihood"]
    t["stepLikelihoodCalls"] = str(len({n.lineno for n in ncalls}))   # one per branch of the blobs if/else
    run = _func(mc, "BaseMCMCRunner", "run")
    evals = [n for n in ast.walk(run) if isinstance(n, ast.Call) and _src(n.func) == "self._evaluate_likelihood"]
    t["stepEvaluations"] = str(len(evals))
    t["stepBatch"] = "self.n_walkers" if "for k in range(self.n_walkers)" in _src(run) else "?"
    init = _func(mc, "BaseMCMCRunner", "__init__")
    t["nCallsInit"] = "0" if "self.n_calls = 0" in _src(init) else "?"
    rets = [n for n in ast.walk(run) if isinstance(n, ast.Return)]
    t["runReturnsNCalls"] = "1" if rets and _src(rets[-1].value).rstrip(")").endswith("self.n_calls") else "0"
    _extract_run_facts(t, core, mu, mc, ll, mrun, ev, run)
    return t


def _plain_func(tree, name):
    for node in ast.walk(tree):
        if isinstance(node, ast.FunctionDef) and node.name == name:
            return node
    raise Unavailable(f"function {name} not found")


def _calls_writes(path, rel):
    """every place of one file that writes the literal key 'calls' of the current state: (file:function:kind, value source)"""
    tree = ast.parse(open(path).read())
    out = []
    for fn in ast.walk(tree):
        if not isinstance(fn, ast.FunctionDef):
            continue
        for n in ast.walk(fn):
            if isinstance(n, ast.Call) and isinstance(n.func, ast.Attribute):
                if n.func.attr == "set_current" and n.args and isinstance(n.args[0], ast.Constant) and n.args[0].value == "calls":
                    out.append((n.lineno, f"{rel}:{fn.name}:set", _src(n.args[1]) if len(n.args) > 1 else "?"))
                if n.func.attr == "update_current" and n.args and isinstance(n.args[0], ast.Dict):
                    for k, v in zip(n.args[0].keys, n.args[0].values):
                        if isinstance(k, ast.Constant) and k.value == "calls":
                            out.append((n.lineno, f"{rel}:{fn.name}:update", _src(v)))
            if isinstance(n, ast.Assign) and isinstance(n.value, ast.Dict) and len(n.targets) == 1 and _src(n.targets[0]) == "required_keys":
                for k, v in zip(n.value.keys, n.value.values):
                    if isinstance(k, ast.Constant) and k.value == "calls":
                        out.append((n.lineno, f"{rel}:{fn.name}:default", _src(v)))
            if isinstance(n, (ast.Assign, ast.AugAssign)):
                tg = n.targets[0] if isinstance(n, ast.Assign) else n.target
                if isinstance(tg, ast.Subscript) and isinstance(tg.slice, ast.Constant) and tg.slice.value == "calls" \
                        and "_current" in _src(tg.value):
                    out.append((n.lineno, f"{rel}:{fn.name}:direct", _src(n.value)))
    return out


def _extract_run_facts(t, core, mu, mc, ll, mrun, ev, run):
    """facts used by the whole-run accounting model (Model/CallsRun.lean) and the value-level model (Model/LogLike.lean).
    Every fact is a NORMALISED token; a source shape that is not recognised raises Unavailable (policy of DESIGN §3.1)."""
    # -- every writer of state['calls'] in the package (frame condition of the accounting model)
    writes = []
    root = os.path.join(common.REPO, "tempest")
    for dp, _dn, fns in os.walk(root):
        for fname in sorted(fns):
            if fname.endswith(".py"):
                full = os.path.join(dp, fname)
                rel = os.path.relpath(full, root)
                writes += [(rel, ln, tag, val) for ln, tag, val in _calls_writes(full, rel)]
    writes.sort()
    t["callsWriters"] = [(tag, val) for _f, _ln, tag, val in writes]
    fresh = [v for tag, v in t["callsWriters"] if tag == "core.py:_initialize_fresh:set"]
    dflt = [v for tag, v in t["callsWriters"] if tag == "core.py:load_sampler_state:default"]
    if len(fresh) != 1 or len(dflt) != 1:
        raise Unavailable("initial value of 'calls' (fresh / resumed run) not found where expected")
    t["freshCalls"], t["resumeDefault"] = fresh[0], dflt[0]
    lsrc = _src(_func(core, "SamplerCore", "load_sampler_state"))
    if "self.state.update_from_dict(d)" not in lsrc:
        raise Unavailable("load_sampler_state: update_from_dict(d) not found")
    t["resumeDefaultOnlyIfNone"] = "1" if ("if self.state.get_current(key) is None:" in lsrc
                                           and "self.state.set_current(key, default_val)" in lsrc) else "0"
    # -- run_sampling: how a run starts (which branch initialises / keeps the counter)
    rs = _func(core, "SamplerCore", "run_sampling")
    chain = _if_chain(rs)

    def norm_start(test, last):
        body = None
        for st in rs.body:
            if isinstance(st, ast.If):
                node = st
                while True:
                    if _src(node.test) == test:
                        body = node.body
                    if len(node.orelse) == 1 and isinstance(node.orelse[0], ast.If):
                        node = node.orelse[0]
                    else:
                        if test == "else":
                            body = node.orelse
                        break
                break
        srcs = " ; ".join(_src(b) for b in (body or []))
        act = ("resume" if "self._initialize_from_resume(resume_state_path)" in srcs else
               "fresh" if "self._initialize_fresh()" in srcs else
               "continue" if ("_initialize" not in srcs and "set_current('calls'" not in srcs) else "?")
        return ({"resume_state_path is not None": "path", "self.state.get_history_length() > 0": "history", "else": "else"}.get(test, test), act)
    t["runStart"] = [norm_start(a, b) for a, b in chain]
    # -- _log_like: statements per dispatch branch, references to the user's function
    stmts = []
    for st in ll.body:
        if isinstance(st, ast.If):
            node = st
            while True:
                stmts.append(len(node.body))
                if len(node.orelse) == 1 and isinstance(node.orelse[0], ast.If):
                    node = node.orelse[0]
                else:
                    stmts.append(len(node.orelse))
                    break
            break
    t["logLikeBranchStmts"] = ",".join(map(str, stmts))
    t["logLikeUserRefs"] = str(sum(1 for n in ast.walk(ll) if isinstance(n, ast.Attribute) and _src(n) == "self.config.log_likelihood"))
    # -- FunctionWrapper
    tools = ast.parse(open(os.path.join(common.REPO, "tempest/tools.py")).read())
    wcall = _func(tools, "FunctionWrapper", "__call__")
    rets = [n for n in ast.walk(wcall) if isinstance(n, ast.Return)]
    par = [a.arg for a in wcall.args.args if a.arg != "self"]
    if len(rets) != 1 or len(par) != 1 or not isinstance(rets[0].value, ast.Call):
        raise Unavailable("FunctionWrapper.__call__: expected one parameter and one `return <call>`")
    c = rets[0].value
    ok = (_src(c.func) == "self.f" and len(c.args) == 2 and _src(c.args[0]) == par[0] and isinstance(c.args[1], ast.Starred)
          and _src(c.args[1].value) == "self.args" and len(c.keywords) == 1 and c.keywords[0].arg is None
          and _src(c.keywords[0].value) == "self.kwargs")
    t["wrapperCall"] = "f(x,*args,**kwargs)" if ok else _src(c)
    winit = _func(tools, "FunctionWrapper", "__init__")
    wi = []
    for st in winit.body:
        if isinstance(st, ast.Assign):
            src = _src(st)
            wi.append({"self.f = f": "f", "self.args = [] if args is None else args": "args:None->[]",
                       "self.kwargs = {} if kwargs is None else kwargs": "kwargs:None->{}"}.get(src, src))
    t["wrapperInit"] = wi
    # -- Mutator.run: where the likelihood is called, and on what
    warm_if = [st for st in mrun.body if isinstance(st, ast.If) and _src(st.test) == "beta == 0.0"]
    if len(warm_if) != 1:
        raise Unavailable("Mutator.run: `if beta == 0.0:` not found")

    def like_calls(nodes):
        out = []
        for st in nodes:
            for n in ast.walk(st):
                if isinstance(n, ast.Call) and _src(n.func) == "self.log_likelihood":
                    out.append(",".join(_src(a) for a in n.args))
        return out

    def batch_of(name, nodes):
        """normalised description of how the array `name` is built"""
        for st in nodes:
            for n in ast.walk(st):
                if isinstance(n, ast.Assign) and len(n.targets) == 1 and _src(n.targets[0]) == name:
                    v = n.value
                    if isinstance(v, ast.Call) and _src(v.func) == "np.array" and len(v.args) == 1 and isinstance(v.args[0], ast.ListComp):
                        lc = v.args[0]
                        g = lc.generators[0]
                        if len(lc.generators) == 1 and not g.ifs and isinstance(lc.elt, ast.Call) and _src(lc.elt.func) == "self.prior_transform":
                            return f"prior_transform over {_src(g.iter)}"
                    return _src(v)
        return "?"
    t["warmupLikelihoodArgs"] = [batch_of(a, warm_if[0].body) for a in like_calls(warm_if[0].body)]
    t["mutateOtherLikelihoodArgs"] = like_calls([st for st in mrun.body if st is not warm_if[0]])
    t["warmupEndsWithReturn"] = "1" if isinstance(warm_if[0].body[-1], ast.Return) else "0"
    # -- the warm-up redraw loop: `n_drawn = <init>`; `while <guard>: if n_drawn >= <cap>: raise …; …; logl, blobs = self.log_likelihood(x);
    #    n_drawn += <step>`; the counter then advances by `n_drawn`
    wb = warm_if[0].body
    loops = [st for st in wb if isinstance(st, ast.While)]
    inits = [st for st in wb if isinstance(st, ast.Assign) and len(st.targets) == 1 and _src(st.targets[0]) == "n_drawn"]
    if t["warmupIncrement"] == "n_drawn":
        if len(loops) != 1 or len(inits) != 1 or loops[0].orelse:
            raise Unavailable("Mutator.run warm-up: expected `n_drawn = e` and exactly one while loop")
        lp = loops[0]
        augs = [n for n in ast.walk(lp) if isinstance(n, ast.AugAssign) and _src(n.target) == "n_drawn"]
        others = [n for st in wb if st is not lp for n in ast.walk(st) if isinstance(n, ast.AugAssign) and _src(n.target) == "n_drawn"]
        reassign = [n for n in ast.walk(lp) if isinstance(n, ast.Assign) and any(_src(x) == "n_drawn" for x in n.targets)]
        if len(augs) != 1 or not isinstance(augs[0].op, ast.Add) or others or reassign or augs[0] not in lp.body:
            raise Unavailable("Mutator.run warm-up: expected exactly one top-level `n_drawn += e` inside the loop and none outside")
        caps = [st for st in lp.body if isinstance(st, ast.If) and any(isinstance(b, ast.Raise) for b in st.body)]
        cap = "none"
        if len(caps) == 1 and isinstance(caps[0].test, ast.Compare) and _src(caps[0].test.left) == "n_drawn" \
                and len(caps[0].test.ops) == 1 and isinstance(caps[0].test.ops[0], ast.GtE):
            cap = _src(caps[0].test.comparators[0])
        elif caps:
            raise Unavailable("Mutator.run warm-up: cap test not of the form `n_drawn >= e`")
        inside = like_calls(lp.body)
        before = like_calls([st for st in wb if st.lineno < lp.lineno])
        after = like_calls([st for st in wb if st.lineno > lp.lineno])
        order_ok = [type(st).__name__ for st in lp.body if st in (caps + [augs[0]]) or like_calls([st])]
        # each call is described by the construction of ITS OWN argument (before the loop / inside the loop body)
        t["warmupLikelihoodArgs"] = ([batch_of(a, [st for st in wb if st.lineno < lp.lineno]) for a in before]
                                     + [batch_of(a, lp.body) for a in inside] + [batch_of(a, wb) for a in after])
        t["warmupDrawnInit"] = _src(inits[0].value)
        t["warmupDrawnStep"] = _src(augs[0].value)
        t["warmupCap"] = cap
        t["warmupLoop"] = f"while {_src(lp.test)}"
        t["warmupLoopCalls"] = f"before={len(before)} inside={len(inside)} after={len(after)}"
        t["warmupLoopOrder"] = ",".join(order_ok)
    else:
        if loops or inits:
            raise Unavailable("Mutator.run warm-up: loop present but the counter does not advance by n_drawn")
        t["warmupDrawnInit"] = t["warmupIncrement"]
        t["warmupDrawnStep"] = "0"
        t["warmupCap"] = "none"
        t["warmupLoop"] = "none"
        t["warmupLoopCalls"] = f"before={len(like_calls(wb))} inside=0 after=0"
        t["warmupLoopOrder"] = ""
    kw = [k for n in ast.walk(mrun) if isinstance(n, ast.Call) and _src(n.func) == "parallel_mcmc" for k in n.keywords if k.arg == "log_likelihood"]
    if len(kw) != 1:
        raise Unavailable("Mutator.run: parallel_mcmc(log_likelihood=…) not found")
    t["mcmcLikelihoodArg"] = _src(kw[0].value)
    # -- _evaluate_likelihood: what is evaluated (normalised: the function's own parameter)
    epar = [a.arg for a in ev.args.args if a.arg != "self"]
    t["evaluateLikelihoodArgs"] = ["param" if (len(epar) == 1 and a == epar[0]) else a for a in like_calls(ev.body)]
    # -- BaseMCMCRunner.run: what `_evaluate_likelihood` receives; one `while True`, left only by `if _check_convergence(...): break`
    evargs = [",".join(_src(a) for a in n.args) for n in ast.walk(run) if isinstance(n, ast.Call) and _src(n.func) == "self._evaluate_likelihood"]
    t["stepBatchBuilt"] = [batch_of(a, run.body) for a in evargs]
    ups = [_src(st.value) for st in ast.walk(run) if isinstance(st, ast.Assign) and _src(st.targets[0]) == "u_prime"]
    t["proposalRows"] = ups
    whiles = [n for n in ast.walk(run) if isinstance(n, ast.While)]
    breaks = [n for n in ast.walk(run) if isinstance(n, ast.Break)]
    guards = [n for n in ast.walk(run) if isinstance(n, ast.If) and any(isinstance(b, ast.Break) for b in n.body)]
    if len(whiles) != 1:
        raise Unavailable("BaseMCMCRunner.run: expected exactly one while loop")
    gt = guards[0].test if len(guards) == 1 else None
    gname = _src(gt.func) if isinstance(gt, ast.Call) else "?"
    t["mcmcLoop"] = f"while {_src(whiles[0].test)}|breaks={len(breaks)}|guard={gname}"


def render(t):
    L = ["/- GENERATED by translate/g6_dispatch.py from /repo's current source — do not edit. -/",
         "namespace Gen.Dispatch", ""]
    L.append("def logLike : List (String × String) := [" + ", ".join(f'("{a}", "{b}")' for a, b in t["logLike"]) + "]")
    L.append("def distribute : List (String × String) := [" + ", ".join(f'("{a}", "{b}")' for a, b in t["distribute"]) + "]")
    for k in ("warmupIncrement", "mcmcIncrement", "warmupBatch", "stepIncrement", "stepLikelihoodCalls", "stepEvaluations",
              "stepBatch", "nCallsInit", "runReturnsNCalls"):
        L.append(f'def {k} : String := "{t[k]}"')
    def q(x):
        return '"' + x.replace('\\', '\\\\').replace('"', '\\"') + '"'
    for k in ("freshCalls", "resumeDefault", "resumeDefaultOnlyIfNone", "logLikeBranchStmts", "logLikeUserRefs", "wrapperCall",
              "warmupEndsWithReturn", "mcmcLikelihoodArg", "mcmcLoop", "warmupDrawnInit", "warmupDrawnStep", "warmupCap", "warmupLoop", "warmupLoopCalls", "warmupLoopOrder"):
        L.append(f"def {k} : String := {q(t[k])}")
    for k in ("wrapperInit", "warmupLikelihoodArgs", "mutateOtherLikelihoodArgs", "evaluateLikelihoodArgs", "stepBatchBuilt", "proposalRows"):
        L.append(f"def {k} : List String := [" + ", ".join(q(x) for x in t[k]) + "]")
    L.append("def runStart : List (String × String) := [" + ", ".join(f"({q(a)}, {q(b)})" for a, b in t["runStart"]) + "]")
    L.append("def callsWriters : List (String × String) := [" + ", ".join(f"({q(a)}, {q(b)})" for a, b in t["callsWriters"]) + "]")
    L += ["", "end Gen.Dispatch", ""]
    return "\n".join(L)


def generate():
    try:
        t = extract()
    except Unavailable as e:
        return ("G6-dispatch", "unavailable", str(e))
    except (SyntaxError, OSError) as e:
        return ("G6-dispatch", "unavailable", f"{type(e).__name__}: {e}")
    changed = common.write_if_changed(os.path.join(common.GEN, "Dispatch.lean"), render(t))
    return ("G6-dispatch", "ok", f"{'re' if changed else ''}generated Gen/Dispatch.lean")


if __name__ == "__main__":
    print(extract())
    print(generate())
