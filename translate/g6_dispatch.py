"""G6 — likelihood dispatch tree and call accounting, regenerated from /repo's source (Python `ast` only).

Emits lean/TempestVerif/Gen/Dispatch.lean:
  * the branch structure of SamplerCore._log_like  (vectorize → one call on the batch; pool ≠ None → distribute; else map)
  * the branch structure of SamplerCore._get_distribute_func
  * every place where the call counter is advanced, with the increment expression and the size of the batch that is
    evaluated at that place.
"""
import ast
import os

from harness import common


class Unavailable(Exception):
    pass


def _src(node):
    return ast.unparse(node).replace('"', "'")


def _func(tree, cls, name):
    for node in ast.walk(tree):
        if isinstance(node, ast.ClassDef) and node.name == cls:
            for f in node.body:
                if isinstance(f, ast.FunctionDef) and f.name == name:
                    return f
    raise Unavailable(f"{cls}.{name} not found")


def _if_chain(fn):
    """top-level if/elif/else chain of a function -> [(test source or 'else', first significant statement source)]"""
    for st in fn.body:
        if isinstance(st, ast.If):
            out = []
            node = st
            while True:
                out.append((_src(node.test), _src(node.body[-1])))
                if len(node.orelse) == 1 and isinstance(node.orelse[0], ast.If):
                    node = node.orelse[0]
                else:
                    if node.orelse:
                        out.append(("else", _src(node.orelse[-1])))
                    break
            return out
    raise Unavailable(f"{fn.name}: no if-chain")


def extract():
    core = ast.parse(open(os.path.join(common.REPO, "tempest/core.py")).read())
    ll = _func(core, "SamplerCore", "_log_like")
    chain = _if_chain(ll)
    gd = _if_chain(_func(core, "SamplerCore", "_get_distribute_func"))

    def norm_ll(test, stmt):
        if test == "self.config.vectorize" and "self.config.log_likelihood(x)" in stmt and stmt.startswith("return"):
            return "vectorize", "direct"
        if test == "self.config.pool is not None" and "_get_distribute_func()(self.config.log_likelihood, x)" in stmt:
            return "pool", "distribute"
        if test == "else" and "map(self.config.log_likelihood, x)" in stmt:
            return "else", "map"
        raise Unavailable(f"_log_like branch not recognised: if {test}: {stmt}")

    def norm_gd(test, stmt):
        t = test.replace(" ", "")
        if stmt == "return map" and "self.config.poolisNone" in t:
            serial_int = "isinstance(self.config.pool,int)andself.config.pool<=1" in t
            return ("none_or_int_le_1" if serial_int else "none"), "map"
        if "isinstance(self.config.pool,int)" in t and "self.config.pool>1" in t and stmt == "return pool.map":
            return "int_gt_1", "Pool(k).map"
        if test == "else" and stmt == "return self.config.pool.map":
            return "else", "pool.map"
        raise Unavailable(f"_get_distribute_func branch not recognised: if {test}: {stmt}")
    t = {"logLike": [norm_ll(a, b) for a, b in chain], "distribute": [norm_gd(a, b) for a, b in gd]}

    # call accounting
    incs = []
    mu = ast.parse(open(os.path.join(common.REPO, "tempest/steps/mutate.py")).read())
    mrun = _func(mu, "Mutator", "run")
    for node in ast.walk(mrun):
        if isinstance(node, ast.Assign) and len(node.targets) == 1 and isinstance(node.targets[0], ast.Name) and node.targets[0].id == "calls":
            v = node.value
            if isinstance(v, ast.BinOp) and isinstance(v.op, ast.Add) and "get_current('calls')" in _src(v.left):
                incs.append((node.lineno, "Mutator.run", _src(v.right)))
            else:
                raise Unavailable(f"calls assignment not of the form get_current('calls') + e: {_src(node)}")
    incs.sort()
    if len(incs) != 2:
        raise Unavailable(f"expected two `calls = … + e` assignments in Mutator.run, found {len(incs)}")
    t["warmupIncrement"] = incs[0][2]
    t["mcmcIncrement"] = incs[1][2]
    # size of the batch evaluated in the warm-up branch: x built over range(self.n_particles)
    warm_sizes = [_src(n.args[0]) for n in ast.walk(mrun) if isinstance(n, ast.Call) and isinstance(n.func, ast.Name)
                  and n.func.id == "range" and n.args]
    t["warmupBatch"] = warm_sizes[0] if warm_sizes else "?"
    mc = ast.parse(open(os.path.join(common.REPO, "tempest/mcmc.py")).read())
    ev = _func(mc, "BaseMCMCRunner", "_evaluate_likelihood")
    aug = [n for n in ast.walk(ev) if isinstance(n, ast.AugAssign)]
    if len(aug) != 1 or not isinstance(aug[0].op, ast.Add) or _src(aug[0].target) != "self.n_calls":
        raise Unavailable("_evaluate_likelihood: expected exactly one `self.n_calls += e`")
    t["stepIncrement"] = _src(aug[0].value)
    ncalls = [n for n in ast.walk(ev) if isinstance(n, ast.Call) and _src(n.func) == "self.log_likelihood"]
    t["stepLikelihoodCalls"] = str(len({n.lineno for n in ncalls}))   # one per branch of the blobs if/else
    run = _func(mc, "BaseMCMCRunner", "run")
    evals = [n for n in ast.walk(run) if isinstance(n, ast.Call) and _src(n.func) == "self._evaluate_likelihood"]
    t["stepEvaluations"] = str(len(evals))
    t["stepBatch"] = "self.n_walkers" if "for k in range(self.n_walkers)" in _src(run) else "?"
    init = _func(mc, "BaseMCMCRunner", "__init__")
    t["nCallsInit"] = "0" if "self.n_calls = 0" in _src(init) else "?"
    rets = [n for n in ast.walk(run) if isinstance(n, ast.Return)]
    t["runReturnsNCalls"] = "1" if rets and _src(rets[-1].value).rstrip(")").endswith("self.n_calls") else "0"
    return t


def render(t):
    L = ["/- GENERATED by translate/g6_dispatch.py from /repo's current source — do not edit. -/",
         "namespace Gen.Dispatch", ""]
    L.append("def logLike : List (String × String) := [" + ", ".join(f'("{a}", "{b}")' for a, b in t["logLike"]) + "]")
    L.append("def distribute : List (String × String) := [" + ", ".join(f'("{a}", "{b}")' for a, b in t["distribute"]) + "]")
    for k in ("warmupIncrement", "mcmcIncrement", "warmupBatch", "stepIncrement", "stepLikelihoodCalls", "stepEvaluations",
              "stepBatch", "nCallsInit", "runReturnsNCalls"):
        L.append(f'def {k} : String := "{t[k]}"')
    L += ["", "end Gen.Dispatch", ""]
    return "\n".join(L)


def generate():
    try:
        t = extract()
    except Unavailable as e:
        return ("G6-dispatch", "unavailable", str(e))
    except (SyntaxError, OSError) as e:
        return ("G6-dispatch", "unavailable", f"{type(e).__name__}: {e}")
    changed = common.write_if_changed(os.path.join(common.GEN, "Dispatch.lean"), render(t))
    return ("G6-dispatch", "ok", f"{'re' if changed else ''}generated Gen/Dispatch.lean")


if __name__ == "__main__":
    print(extract())
    print(generate())
