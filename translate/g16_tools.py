"""G16 — the weight utilities of `tempest/tools.py` COMPILED from /repo's current source (Python `ast` only), property C20.

Emits lean/TempestVerif/Gen/ToolsSrc.lean: the four functions `effective_sample_size`, `compute_ess`, `trim_weights` and
`volume_variation` as Lean definitions over the scalar interface `Sc α` / `ScT α` — whole function bodies, statement by
statement, as `let` chains in single-assignment form:

  * every arithmetic expression, comparison and literal (`1.0`, `2.0`, `0`, `99`, `1e10`, `1e-6`, `-1e6`, `1e6`, `0.5`),
    with numpy's broadcasting made explicit (`v / s` = `List.map (fun t => Sc.div t s) v`, `x * w[:, np.newaxis]` =
    `List.zipWith (fun r c => List.map (fun t => Sc.mul t c) r) x w`, `v >= s` = a `List Bool`, `v**2.0` = `t * t`, …);
  * control flow: early `return`s, `if w is None: w = …`, a conditional re-assignment (`if rank < n_dim: cov = …`) as a
    conditional expression, `try: … inv … except LinAlgError: return …` as a `match` on the partial model of the routine,
    the `while True: … if …: break … i -= 1` loop as `<f>_body` (one pass: exit flag and the variables it assigns) plus
    `<f>_loop` (the passes chained, with explicit fuel — Lean needs a terminating recursion);
  * numpy LIBRARY routines are not compiled: each call is replaced by the NAME of its hand-written model
    (`np.percentile` → `Model.Trim.percentile`, `np.linspace(0, b, n)` → `Model.Trim.linspace0 b n`, boolean-mask indexing →
    `Model.Trim.filterMask`, `np.max` → `Model.Ess.amax?`, `np.linalg.inv` → `Model.Student.inv`, `np.dot(a.T, b)`, `@`,
    `np.sum(·, axis=0)`, `np.eye`, `np.trace`, `np.clip` → `Model.VolVar.dotT / matmul / sumAxis0 / eye / trace / clip`);
    `np.linalg.matrix_rank(m) < k` has no model of its own and becomes a call of a function PARAMETER `rk m k`
    (the theorem about `volume_variation` states what it assumes of it);
  * the signatures (parameter names are keyword API, defaults included) as a string table.

`Props/C20Source.lean` proves that the hand-written executable models `Model.Ess.ess / computeEss`, `Model.Trim.step /
search / trim` and `Model.VolVar.volvar` ARE these generated functions, for every scalar type (so also at `Float`, which the
driver executes).  Local variable names never reach the generated file (parameters become `a0, a1, …`, every assignment a
fresh `v0, v1, …`), comments/docstrings/formatting are invisible to `ast`: pure renamings and re-formattings regenerate the
same file.  A changed literal, operator, operand order, statement order or branch shape regenerates a different term.

The translator never guesses: a construct outside its small language makes it return status `unavailable` with the
offending construct in the message.
"""
import ast
import decimal
import os

from harness import common
from .g5_tables import Unavailable, _parse, _name

NAME = "G16-tools-source"

# ------------------------------------------------------------------------------------------------ types
S, N, I, V, VB, X, B, P, G, OV, C = ("S",), ("N",), ("I",), ("V",), ("VB",), ("X",), ("B",), ("P",), ("G",), ("OV",), ("C",)


def M(cols):
    return ("M", cols)


def T(cols):
    return ("T", cols)


def _lean_ty(t):
    k = t[0]
    if k == "S":
        return "α"
    if k == "N":
        return "Nat"
    if k == "V":
        return "List α"
    if k == "VB":
        return "List Bool"
    if k == "X":
        return "List σ"
    if k == "B":
        return "Bool"
    if k == "G":
        return "Nat → α"
    if k == "OV":
        return "Option (List α)"
    if k == "M":
        return "List (List α)"
    if k == "TUP":
        return "(" + " × ".join(_lean_ty(x) for x in t[1]) + ")"
    raise Unavailable(f"a value of kind {k} cannot be stored or returned")


# the four functions and the kinds of their parameters (Python has no types; the ORDER is what counts, names are free)
FUNCS = [("effective_sample_size", [V]), ("compute_ess", [V]), ("trim_weights", [X, V, S, N]),
         ("volume_variation", [M("d"), OV])]

_ARITH = {ast.Add: "Sc.add", ast.Sub: "Sc.sub", ast.Mult: "Sc.mul", ast.Div: "Sc.div"}
_NATOP = {ast.Add: "+", ast.Sub: "-", ast.Mult: "*"}
_CMP_S = {ast.Lt: "Sc.lt", ast.LtE: "Sc.le", ast.Gt: "Sc.gt", ast.GtE: "Sc.ge"}
_CMP_N = {ast.Lt: "<", ast.LtE: "≤", ast.Gt: ">", ast.GtE: "≥"}


def _src(node, limit=150):
    """source text of a node, safe inside a Lean line comment / a Python message"""
    try:
        t = " ".join(ast.unparse(node).split())
    except Exception:  # noqa
        t = type(node).__name__
    t = "".join(ch if 32 <= ord(ch) < 127 else "?" for ch in t)
    return t[:limit].replace("-/", "- /").replace("/-", "/ -")


def _float_lit(f):
    """a non-negative Python float literal as an exact term of `Sc α`: `Sc.ofNat n` or `Sc.lit m e` (= m · 10^-e)"""
    if f != f or f in (float("inf"), float("-inf")) or f < 0:
        raise Unavailable(f"literal {f!r} outside the literal language")
    d = decimal.Decimal(repr(f))           # the shortest decimal that reads back as this double = what the source says
    sign, digits, exp = d.as_tuple()
    m = int("".join(map(str, digits)))
    if exp >= 0:
        n = m * 10 ** exp
        if n >= 10 ** 30:
            raise Unavailable(f"literal {f!r} too large")
        return f"(Sc.ofNat {n})"
    while m % 10 == 0 and exp < 0:
        m //= 10
        exp += 1
    if exp == 0:
        return f"(Sc.ofNat {m})"
    if -exp > 40:
        raise Unavailable(f"literal {f!r} too small")
    return f"(Sc.lit {m} {-exp})"


def _proj(r, k, n):
    """component k (0-based) of the n-tuple `r`"""
    return r + ".2" * k + (".1" if k < n - 1 else "")


class _Fn:
    """compiler state of one Python function"""

    def __init__(self, name):
        self.name = name
        self.k = 0
        self.needs_T = False
        self.needs_sigma = False
        self.needs_rk = False
        self.needs_d = False
        self.needs_fuel = False
        self.partial = False
        self.aux = []          # auxiliary defs emitted before the function (loop body, loop)
        self.ret_ty = None

    def fresh(self):
        self.k += 1
        return f"v{self.k - 1}"


class _Block:
    """compiles statements in continuation style; `env`: python name -> (lean name, type)"""

    def __init__(self, fn, env, in_loop=None):
        self.fn = fn
        self.env = dict(env)
        self.binds = []        # hoisted calls of partial numpy routines: (lean name, option term)
        self.in_loop = in_loop  # None or the list of loop output variables
        self.reads = []        # names read (for the free-variable order of a loop body)

    # ------------------------------------------------------------------ helpers
    def lookup(self, name, node):
        if name not in self.env:
            raise Unavailable(f"{self.fn.name}: name {name!r} is read before any assignment the translator follows ({_src(node)})")
        if name not in self.reads:
            self.reads.append(name)
        return self.env[name]

    def scalar(self, term, ty, node):
        if ty == S:
            return term
        if ty == I:
            if term.startswith("-"):
                return f"(Sc.neg (Sc.ofNat {term[1:]}))"
            return f"(Sc.ofNat {term})"
        if ty == N:
            return f"(Sc.ofNat {term})"
        raise Unavailable(f"{self.fn.name}: a scalar is expected in {_src(node)!r}")

    def nat(self, term, ty, node):
        if ty == N:
            return term
        if ty == I and not term.startswith("-"):
            return term
        raise Unavailable(f"{self.fn.name}: a natural number is expected in {_src(node)!r}")

    def hoist(self, optterm):
        v = self.fn.fresh()
        self.binds.append((v, optterm))
        self.fn.partial = True
        return v

    # ------------------------------------------------------------------ expressions
    def expr(self, n):
        fn = self.fn.name
        if isinstance(n, ast.Constant):
            v = n.value
            if isinstance(v, bool) or not isinstance(v, (int, float)):
                raise Unavailable(f"{fn}: constant {v!r}")
            if isinstance(v, int):
                if v < 0 or v >= 10 ** 30:
                    raise Unavailable(f"{fn}: integer literal {v!r}")
                return str(v), I
            return _float_lit(v), S
        if isinstance(n, ast.Name):
            return self.lookup(n.id, n)
        if isinstance(n, ast.UnaryOp) and isinstance(n.op, ast.USub):
            a, ta = self.expr(n.operand)
            if ta == I:
                return "-" + a, I
            if ta in (S, N):
                return f"(Sc.neg {self.scalar(a, ta, n)})", S
            if ta == V:
                return f"(List.map (fun t => Sc.neg t) {a})", V
            raise Unavailable(f"{fn}: negation of {_src(n.operand)!r}")
        if isinstance(n, ast.UnaryOp) and isinstance(n.op, ast.Not):
            return f"(!{self.boolean(n.operand)})", B
        if isinstance(n, ast.BoolOp):
            op = "||" if isinstance(n.op, ast.Or) else "&&"
            parts = [self.boolean(v) for v in n.values]
            return "(" + f" {op} ".join(parts) + ")", B
        if isinstance(n, ast.BinOp):
            return self.binop(n)
        if isinstance(n, ast.Compare):
            return self.compare(n)
        if isinstance(n, ast.Attribute):
            if n.attr == "T":
                a, ta = self.expr(n.value)
                if ta[0] == "M":
                    return a, T(ta[1])
            raise Unavailable(f"{fn}: attribute {_src(n)!r}")
        if isinstance(n, ast.Subscript):
            return self.subscript(n)
        if isinstance(n, ast.Call):
            return self.call(n)
        if isinstance(n, ast.Tuple):
            terms, tys = [], []
            for e in n.elts:
                t, ty = self.expr(e)
                if ty == I:
                    t, ty = self.scalar(t, ty, e), S
                _lean_ty(ty)
                terms.append(t)
                tys.append(ty)
            if len(terms) < 2:
                raise Unavailable(f"{fn}: tuple {_src(n)!r}")
            return "(" + ", ".join(terms) + ")", ("TUP", tys)
        raise Unavailable(f"{fn}: expression {_src(n)!r} outside the expression language")

    def boolean(self, n):
        t, ty = self.expr(n)
        if ty == B:
            return t
        if ty == P:
            return f"(decide {t})"
        raise Unavailable(f"{self.fn.name}: {_src(n)!r} is not a test")

    def binop(self, n):
        fn = self.fn.name
        a, ta = self.expr(n.left)
        if isinstance(n.op, ast.Pow):
            e = n.right
            if not (isinstance(e, ast.Constant) and not isinstance(e.value, bool) and isinstance(e.value, (int, float)) and e.value >= 0):
                raise Unavailable(f"{fn}: power {_src(n)!r} (only literal non-negative exponents are in the language)")
            if e.value != 2:
                # not numpy's squaring path: the general power `exp(y · log x)` (positive base) — never equal to a model's `x * x`
                y = f"(Sc.ofNat {e.value})" if isinstance(e.value, int) else _float_lit(e.value)
                self.fn.needs_T = True
                if ta in (S, N, I):
                    return f"(ScT.exp (Sc.mul {y} (ScT.log {self.scalar(a, ta, n)})))", S
                if ta == V:
                    return f"(List.map (fun t => ScT.exp (Sc.mul {y} (ScT.log t))) {a})", V
                raise Unavailable(f"{fn}: power of {_src(n.left)!r}")
            if ta in (S, N, I):
                s = self.scalar(a, ta, n)
                return f"(Sc.mul {s} {s})", S
            if ta == V:
                return f"(List.map (fun t => Sc.mul t t) {a})", V
            raise Unavailable(f"{fn}: power of {_src(n.left)!r}")
        b, tb = self.expr(n.right)
        if isinstance(n.op, ast.MatMult):
            if ta[0] == "M" and tb[0] == "M":
                return f"(Model.VolVar.matmul {tb[1]} {a} {b})", M(tb[1])
            raise Unavailable(f"{fn}: matrix product {_src(n)!r}")
        # natural-number arithmetic
        if ta in (N, I) and tb in (N, I) and N in (ta, tb):
            op = _NATOP.get(type(n.op))
            if op is None:
                raise Unavailable(f"{fn}: operator {type(n.op).__name__} on integers in {_src(n)!r}")
            return f"({self.nat(a, ta, n)} {op} {self.nat(b, tb, n)})", N
        op = _ARITH.get(type(n.op))
        if op is None:
            raise Unavailable(f"{fn}: operator {type(n.op).__name__} in {_src(n)!r}")
        sc = (S, N, I)
        if ta in sc and tb in sc:
            if ta == I and tb == I:
                raise Unavailable(f"{fn}: constant folding needed in {_src(n)!r}")
            return f"({op} {self.scalar(a, ta, n)} {self.scalar(b, tb, n)})", S
        if ta == V and tb in sc:
            return f"(List.map (fun t => {op} t {self.scalar(b, tb, n)}) {a})", V
        if ta in sc and tb == V:
            return f"(List.map (fun t => {op} {self.scalar(a, ta, n)} t) {b})", V
        if ta == V and tb == V:
            return f"(List.zipWith (fun t u => {op} t u) {a} {b})", V
        if ta[0] == "M" and tb == V:          # the vector is broadcast along the rows
            return f"(List.map (fun r => List.zipWith (fun t u => {op} t u) r {b}) {a})", ta
        if ta[0] == "M" and tb == C:          # one entry of the column per row
            return f"(List.zipWith (fun r c => List.map (fun t => {op} t c) r) {a} {b})", ta
        if ta[0] == "M" and tb in sc:
            return f"(List.map (fun r => List.map (fun t => {op} t {self.scalar(b, tb, n)}) r) {a})", ta
        if ta[0] == "M" and tb[0] == "M":
            if ta[1] != tb[1]:
                raise Unavailable(f"{fn}: shapes differ in {_src(n)!r}")
            return f"(List.zipWith (fun r s => List.zipWith (fun t u => {op} t u) r s) {a} {b})", ta
        raise Unavailable(f"{fn}: operands of {_src(n)!r} (kinds {ta[0]}, {tb[0]})")

    def compare(self, n):
        fn = self.fn.name
        if len(n.ops) != 1:
            raise Unavailable(f"{fn}: chained comparison {_src(n)!r}")
        opn = type(n.ops[0])
        l, r = n.left, n.comparators[0]
        # `np.linalg.matrix_rank(m) <op> k`
        if isinstance(l, ast.Call) and _name(l.func) == "np.linalg.matrix_rank":
            if len(l.args) != 1 or l.keywords:
                raise Unavailable(f"{fn}: {_src(l)!r}")
            m, tm = self.expr(l.args[0])
            k, tk = self.expr(r)
            if tm[0] != "M":
                raise Unavailable(f"{fn}: rank of {_src(l.args[0])!r}")
            k = self.nat(k, tk, n)
            self.fn.needs_rk = True
            form = {ast.Lt: f"(rk {m} {k})", ast.LtE: f"(rk {m} ({k} + 1))", ast.GtE: f"(!(rk {m} {k}))",
                    ast.Gt: f"(!(rk {m} ({k} + 1)))"}.get(opn)
            if form is None:
                raise Unavailable(f"{fn}: rank test {_src(n)!r}")
            return form, B
        a, ta = self.expr(l)
        b, tb = self.expr(r)
        if ta in (N, I) and tb in (N, I) and N in (ta, tb):
            a, b = self.nat(a, ta, n), self.nat(b, tb, n)
            if opn in _CMP_N:
                return f"({a} {_CMP_N[opn]} {b})", P
            if opn is ast.Eq:
                return f"({a} == {b})", B
            if opn is ast.NotEq:
                return f"({a} != {b})", B
            raise Unavailable(f"{fn}: comparison {_src(n)!r}")
        sc = (S, N, I)
        if ta in sc and tb in sc:
            a, b = self.scalar(a, ta, n), self.scalar(b, tb, n)
            if opn in _CMP_S:
                return f"({_CMP_S[opn]} {a} {b})", B
            if opn is ast.Eq:
                return f"(Sc.le {a} {b} && Sc.le {b} {a})", B
            raise Unavailable(f"{fn}: comparison {_src(n)!r}")
        if ta == V and tb in sc and opn in _CMP_S:
            return f"(List.map (fun t => {_CMP_S[opn]} t {self.scalar(b, tb, n)}) {a})", VB
        if ta in sc and tb == V and opn in _CMP_S:
            return f"(List.map (fun t => {_CMP_S[opn]} {self.scalar(a, ta, n)} t) {b})", VB
        raise Unavailable(f"{fn}: comparison {_src(n)!r} (kinds {ta[0]}, {tb[0]})")

    def subscript(self, n):
        fn = self.fn.name
        a, ta = self.expr(n.value)
        sl = n.slice
        if isinstance(sl, ast.Tuple):
            e = sl.elts
            newaxis = len(e) == 2 and isinstance(e[0], ast.Slice) and e[0].lower is None and e[0].upper is None and e[0].step is None \
                and (_name(e[1]) == "np.newaxis" or (isinstance(e[1], ast.Constant) and e[1].value is None))
            if newaxis and ta == V:
                return a, C
            raise Unavailable(f"{fn}: indexing {_src(n)!r}")
        i, ti = self.expr(sl)
        if ta == G and ti in (N, I):
            return f"({a} {self.nat(i, ti, n)})", S
        if ta == V and ti == VB:
            return f"(Model.Trim.filterMask {a} {i})", V
        if ta == X and ti == VB:
            return f"(Model.Trim.filterMask {a} {i})", X
        raise Unavailable(f"{fn}: indexing {_src(n)!r} (kinds {ta[0]}, {ti[0]})")

    def call(self, n):
        fn = self.fn.name
        f = _name(n.func)
        kw = {k.arg: k.value for k in n.keywords}
        if None in kw:
            raise Unavailable(f"{fn}: **kwargs in {_src(n)!r}")

        def args(k, kws=()):
            if len(n.args) != k or set(kw) - set(kws):
                raise Unavailable(f"{fn}: arguments of {_src(n)!r}")
            return [self.expr(x) for x in n.args]
        if f == "np.asarray":
            (a, ta), = args(1)
            return a, ta
        if f == "np.sum":
            (a, ta), = args(1, ("axis",))
            if "axis" in kw:
                ax = kw["axis"]
                if not (isinstance(ax, ast.Constant) and ax.value in (0, 1) and not isinstance(ax.value, bool)) or ta[0] != "M":
                    raise Unavailable(f"{fn}: {_src(n)!r}")
                if ax.value == 0:
                    return f"(Model.VolVar.sumAxis0 {ta[1]} {a})", V
                return f"(List.map (fun r => Sc.sum r) {a})", V
            if ta == V:
                return f"(Sc.sum {a})", S
            raise Unavailable(f"{fn}: sum of {_src(n.args[0])!r}")
        if f == "np.max":
            (a, ta), = args(1)
            if ta != V:
                raise Unavailable(f"{fn}: {_src(n)!r}")
            return self.hoist(f"(Model.Ess.amax? {a})"), S
        if f in ("np.exp", "np.sqrt", "np.log"):
            (a, ta), = args(1)
            g = "ScT." + f[3:]
            self.fn.needs_T = True
            if ta in (S, N, I):
                return f"({g} {self.scalar(a, ta, n)})", S
            if ta == V:
                return f"(List.map (fun t => {g} t) {a})", V
            raise Unavailable(f"{fn}: {_src(n)!r}")
        if f == "len":
            (a, ta), = args(1)
            if ta in (V, VB, X) or ta[0] == "M":
                return f"(List.length {a})", N
            raise Unavailable(f"{fn}: {_src(n)!r}")
        if f == "np.ones":
            (a, ta), = args(1)
            return f"(List.replicate {self.nat(a, ta, n)} (Sc.ofNat 1))", V
        if f == "np.linspace":
            (a, ta), (b, tb), (c, tc) = args(3)
            if ta == I and a == "0":     # numpy adds the start at the end; `+ 0` is dropped by the model of this case
                return f"(Model.Trim.linspace0 {self.scalar(b, tb, n)} {self.nat(c, tc, n)})", G
            return f"(Model.Trim.linspace {self.scalar(a, ta, n)} {self.scalar(b, tb, n)} {self.nat(c, tc, n)})", G
        if f == "np.percentile":
            (a, ta), (p, tp) = args(2)
            if ta != V:
                raise Unavailable(f"{fn}: {_src(n)!r}")
            return self.hoist(f"(Model.Trim.percentile {a} {self.scalar(p, tp, n)})"), S
        if f == "np.dot":
            (a, ta), (b, tb) = args(2)
            if ta[0] == "T" and tb[0] == "M" and ta[1] == tb[1]:
                return f"(Model.VolVar.dotT {ta[1]} {a} {b})", M(tb[1])
            raise Unavailable(f"{fn}: {_src(n)!r}: only `np.dot(a.T, b)` is modelled")
        if f == "np.trace":
            (a, ta), = args(1)
            if ta[0] != "M":
                raise Unavailable(f"{fn}: {_src(n)!r}")
            return f"(Model.VolVar.trace {a})", S
        if f == "np.eye":
            (a, ta), = args(1)
            k = self.nat(a, ta, n)
            return f"(Model.VolVar.eye {k})", M(k)
        if f == "np.linalg.inv":
            (a, ta), = args(1)
            if ta[0] != "M":
                raise Unavailable(f"{fn}: {_src(n)!r}")
            return self.hoist(f"(Model.Student.inv {a})"), ta
        if f == "np.clip":
            (a, ta), (lo, tl), (hi, th) = args(3)
            lo, hi = self.scalar(lo, tl, n), self.scalar(hi, th, n)
            if ta == V:
                return f"(List.map (fun t => Model.VolVar.clip t {lo} {hi}) {a})", V
            if ta in (S, N, I):
                return f"(Model.VolVar.clip {self.scalar(a, ta, n)} {lo} {hi})", S
            raise Unavailable(f"{fn}: {_src(n)!r}")
        raise Unavailable(f"{fn}: call {_src(n)!r} is not a routine the translator knows")

    # ------------------------------------------------------------------ statements
    def flush(self, rest):
        """wrap `rest` into the hoisted binds collected so far"""
        out = rest
        for v, t in reversed(self.binds):
            out = f"Option.bind {t} fun {v} =>\n" + out
        self.binds = []
        return out

    def bind_value(self, target, term, ty):
        """`target = term` -> (`let v := term`, env update); integer literals are stored as naturals"""
        if ty == I:
            ty = N
            if term.startswith("-"):
                raise Unavailable(f"{self.fn.name}: negative integer stored in {target!r}")
        if ty[0] in ("C", "T"):          # a view (`w[:, np.newaxis]`, `xc.T`) given a name: no value of its own
            self.env[target] = (term, ty)
            return ""
        if ty[0] in ("P", "TUP"):
            raise Unavailable(f"{self.fn.name}: a value of kind {ty[0]} is stored in {target!r}")
        if ty == X:
            self.fn.needs_sigma = True
        v = self.fn.fresh()
        self.env[target] = (v, ty)
        return f"let {v} := {term}\n"

    def block(self, stmts, tail):
        """lean text of `stmts` followed by `tail()` (the text of what comes after them, compiled in the final env)"""
        if not stmts:
            return tail()
        st, rest = stmts[0], stmts[1:]
        fn = self.fn.name

        def cont():
            return self.block(rest, tail)
        if isinstance(st, ast.Expr) and isinstance(st.value, ast.Constant) and isinstance(st.value.value, str):
            return cont()
        if isinstance(st, ast.Pass):
            return cont()
        note = f"-- {_src(st, 110)}\n" if not isinstance(st, (ast.If, ast.While, ast.Try)) else ""
        if isinstance(st, ast.Assign):
            if len(st.targets) != 1:
                raise Unavailable(f"{fn}: chained assignment {_src(st)!r}")
            tg = st.targets[0]
            if isinstance(tg, ast.Name):
                term, ty = self.expr(st.value)
                pre = self.flush_prefix()
                return pre + note + self.bind_value(tg.id, term, ty) + cont()
            if isinstance(tg, ast.Tuple) and len(tg.elts) == 2 and all(isinstance(e, ast.Name) for e in tg.elts) \
                    and isinstance(st.value, ast.Attribute) and st.value.attr == "shape":
                a, ta = self.expr(st.value.value)
                if ta[0] != "M":
                    raise Unavailable(f"{fn}: shape of {_src(st.value.value)!r}")
                line = self.bind_value(tg.elts[0].id, f"(List.length {a})", N)
                self.env[tg.elts[1].id] = (ta[1], N)      # the column count is the explicit parameter of the definition
                return note + line + cont()
            raise Unavailable(f"{fn}: assignment target in {_src(st)!r}")
        if isinstance(st, ast.AugAssign):
            if not isinstance(st.target, ast.Name):
                raise Unavailable(f"{fn}: {_src(st)!r}")
            fake = ast.BinOp(left=ast.Name(id=st.target.id, ctx=ast.Load()), op=st.op, right=st.value)
            ast.copy_location(fake, st)
            ast.fix_missing_locations(fake)
            term, ty = self.expr(fake)
            pre = self.flush_prefix()
            return pre + note + self.bind_value(st.target.id, term, ty) + cont()
        if isinstance(st, ast.Return):
            if self.in_loop is not None:
                raise Unavailable(f"{fn}: return inside the loop")
            if st.value is None:
                raise Unavailable(f"{fn}: bare return")
            term, ty = self.expr(st.value)
            if ty == I:
                term, ty = self.scalar(term, ty, st), S
            if ty == X or (ty[0] == "TUP" and X in ty[1]):
                self.fn.needs_sigma = True
            _lean_ty(ty)
            if self.fn.ret_ty is None:
                self.fn.ret_ty = ty
            elif self.fn.ret_ty != ty:
                raise Unavailable(f"{fn}: return values of different kinds")
            pre = self.flush_prefix()
            return pre + note + f"⟪RET⟫{term}⟪/RET⟫\n"
        if isinstance(st, ast.If):
            return self.if_stmt(st, rest, tail)
        if isinstance(st, ast.Try):
            return self.try_stmt(st, cont)
        if isinstance(st, ast.While):
            return self.while_stmt(st, rest, cont)
        raise Unavailable(f"{fn}: statement {type(st).__name__} ({_src(st, 60)!r})")

    def flush_prefix(self):
        out = "".join(f"Option.bind {t} fun {v} =>\n" for v, t in self.binds)
        self.binds = []
        return out

    @staticmethod
    def _ends_with_return(body):
        return bool(body) and isinstance(body[-1], ast.Return)

    def if_stmt(self, st, rest, tail):
        fn = self.fn.name

        def cont():
            return self.block(rest, tail)
        # `if <name> is None: <name> = <expr>`
        t = st.test
        if isinstance(t, ast.Compare) and len(t.ops) == 1 and isinstance(t.ops[0], ast.Is) and isinstance(t.left, ast.Name) \
                and isinstance(t.comparators[0], ast.Constant) and t.comparators[0].value is None:
            nm = t.left.id
            v0, ty0 = self.lookup(nm, t)
            if ty0 != OV:
                raise Unavailable(f"{fn}: `{nm} is None` on a value that is not an optional array")
            if not (len(st.body) == 1 and not st.orelse and isinstance(st.body[0], ast.Assign) and len(st.body[0].targets) == 1
                    and isinstance(st.body[0].targets[0], ast.Name) and st.body[0].targets[0].id == nm):
                raise Unavailable(f"{fn}: shape of `if {nm} is None:` (expected the single statement `{nm} = …`)")
            term, ty = self.expr(st.body[0].value)
            if ty != V or self.binds:
                raise Unavailable(f"{fn}: default of {nm!r}")
            line = self.bind_value(nm, f"(match {v0} with | none => {term} | some w => w)", V)
            return f"-- if {_src(t)}: {_src(st.body[0], 90)}\n" + line + cont()
        # loop exit
        if self.in_loop is not None and len(st.body) == 1 and isinstance(st.body[0], ast.Break) and not st.orelse:
            c = self.boolean(st.test)
            pre = self.flush_prefix()
            return pre + f"-- if {_src(st.test)}: break\nif {c} then {self.loop_exit(True)} else\n" + cont()
        test, tt = self.expr(st.test)
        if tt not in (B, P):
            raise Unavailable(f"{fn}: {_src(st.test)!r} is not a test")
        pre = self.flush_prefix()
        # early exit: the branch ends with `return`
        if self._ends_with_return(st.body) and not st.orelse:
            sub = _Block(self.fn, self.env, self.in_loop)
            body = sub.block(st.body, lambda: "")
            self.reads += [r for r in sub.reads if r not in self.reads]
            return pre + f"-- if {_src(st.test)}:\nif {test} then\n{body}else\n" + cont()
        if self._ends_with_return(st.body) and self._ends_with_return(st.orelse):
            s1 = _Block(self.fn, self.env, self.in_loop)
            b1 = s1.block(st.body, lambda: "")
            s2 = _Block(self.fn, self.env, self.in_loop)
            b2 = s2.block(st.orelse, lambda: "")
            if rest:
                raise Unavailable(f"{fn}: statements after an if/else that returns on both sides")
            return pre + f"-- if {_src(st.test)}:\nif {test} then\n{b1}else\n{b2}"
        # conditional re-assignment: the variables assigned under the `if` become conditional expressions
        s1 = _Block(self.fn, self.env, self.in_loop)
        s2 = _Block(self.fn, self.env, self.in_loop)
        marker = "⟪PHI⟫"
        b1 = s1.block(st.body, lambda: marker)
        b2 = s2.block(st.orelse, lambda: marker)
        if "⟪RET⟫" in b1 + b2 or "Option.bind" in b1 + b2:
            raise Unavailable(f"{fn}: `if {_src(st.test)}` mixes returns / partial routines with assignments")
        for s in (s1, s2):
            self.reads += [r for r in s.reads if r not in self.reads]
        changed = [k for k in self.env if s1.env.get(k) != self.env[k] or s2.env.get(k) != self.env[k]]
        changed += [k for k in s1.env if k not in self.env and k in s2.env and k not in changed]
        if not changed:
            raise Unavailable(f"{fn}: `if {_src(st.test)}` assigns nothing that is used later")
        tys = []
        for k in changed:
            if s1.env[k][1] != s2.env[k][1]:
                raise Unavailable(f"{fn}: {k!r} has different kinds on the two sides of `if {_src(st.test)}`")
            tys.append(s1.env[k][1])

        def pack(s):
            names = [s.env[k][0] for k in changed]
            return names[0] if len(names) == 1 else "(" + ", ".join(names) + ")"
        r = self.fn.fresh()
        out = pre + f"-- if {_src(st.test)}: … (conditional value of {', '.join(_src(ast.Name(id=k)) for k in changed)})\n"
        out += f"let {r} := (if {test} then\n{b1.replace(marker, pack(s1))}\nelse\n{b2.replace(marker, pack(s2))})\n"
        for j, (k, ty) in enumerate(zip(changed, tys)):
            if len(changed) == 1:
                self.env[k] = (r, ty)
            else:
                out += self.bind_value(k, _proj(r, j, len(changed)), ty)
        return out + cont()

    def try_stmt(self, st, cont):
        fn = self.fn.name
        ok = (len(st.body) == 1 and isinstance(st.body[0], ast.Assign) and len(st.body[0].targets) == 1
              and isinstance(st.body[0].targets[0], ast.Name) and len(st.handlers) == 1 and not st.orelse and not st.finalbody
              and len(st.handlers[0].body) == 1 and isinstance(st.handlers[0].body[0], ast.Return))
        if not ok:
            raise Unavailable(f"{fn}: shape of the try statement (expected `try: v = <routine>(…)` / `except <Error>: return …`)")
        a = st.body[0]
        if not (isinstance(a.value, ast.Call) and _name(a.value.func) == "np.linalg.inv"
                and (_name(st.handlers[0].type) or "").endswith("LinAlgError")):
            raise Unavailable(f"{fn}: try/except around {_src(a.value)!r} catching {_src(st.handlers[0].type) if st.handlers[0].type else 'everything'!r}")
        before = len(self.binds)
        was_partial = self.fn.partial
        term, ty = self.expr(a.value)
        v, opt = self.binds.pop()          # the routine's own hoisted bind becomes the match
        if len(self.binds) != before:
            raise Unavailable(f"{fn}: partial routine inside the argument of {_src(a.value)!r}")
        self.fn.partial = was_partial
        pre = self.flush_prefix()
        sub = _Block(self.fn, self.env, self.in_loop)
        handler = sub.block(st.handlers[0].body, lambda: "")
        self.env[a.targets[0].id] = (v, ty)
        return pre + f"-- try: {_src(a, 90)}\nmatch {opt} with\n| none =>\n{handler}| some {v} =>\n" + cont()

    # ------------------------------------------------------------------ loops
    def loop_exit(self, broke):
        outs = self.in_loop
        names = []
        for k in outs:
            if k not in self.env:
                raise Unavailable(f"{self.fn.name}: {k!r} may be undefined when the loop is left")
            names.append(self.env[k][0])
        return "⟪SOME⟫(" + ", ".join(["true" if broke else "false"] + names) + ")⟪/SOME⟫"

    def while_stmt(self, st, rest, cont):
        fn = self.fn.name
        if self.in_loop is not None:
            raise Unavailable(f"{fn}: nested loops")
        if not (isinstance(st.test, ast.Constant) and st.test.value is True) or st.orelse:
            raise Unavailable(f"{fn}: loop `while {_src(st.test)}` (only `while True:` with `break` is in the language)")
        for x in ast.walk(st):
            if isinstance(x, (ast.Continue, ast.Return, ast.For)) or (isinstance(x, ast.While) and x is not st):
                raise Unavailable(f"{fn}: {type(x).__name__} inside the loop")
        assigned = []
        for x in ast.walk(st):
            tg = []
            if isinstance(x, ast.Assign):
                tg = x.targets
            elif isinstance(x, ast.AugAssign):
                tg = [x.target]
            for t in tg:
                if not isinstance(t, ast.Name):
                    raise Unavailable(f"{fn}: assignment target {_src(t)!r} inside the loop")
                if t.id not in assigned:
                    assigned.append((t.id))
        order = {}
        for x in ast.walk(st):
            if isinstance(x, (ast.Assign, ast.AugAssign)):
                for t in (x.targets if isinstance(x, ast.Assign) else [x.target]):
                    order.setdefault(t.id, (x.lineno, x.col_offset))
        assigned.sort(key=lambda k: order[k])
        read_in = {x.id for x in ast.walk(st) if isinstance(x, ast.Name) and isinstance(x.ctx, ast.Load)}
        read_in |= {x.target.id for x in ast.walk(st) if isinstance(x, ast.AugAssign)}
        read_after = {x.id for s in rest for x in ast.walk(s) if isinstance(x, ast.Name) and isinstance(x.ctx, ast.Load)}
        carried = [k for k in assigned if k in self.env and k in read_in]
        outs = [k for k in assigned if k in carried or k in read_after]
        if not outs:
            raise Unavailable(f"{fn}: the loop computes nothing that is used")
        # one pass
        body = _Block(self.fn, self.env, in_loop=outs)
        text = body.block(st.body, lambda: body.loop_exit(False) + "\n")
        free = [k for k in body.reads if k in self.env]
        for k in carried:
            if k not in free:
                free.append(k)
        body_partial = "Option.bind" in text
        text = text.replace("⟪SOME⟫", "(some " if body_partial else "").replace("⟪/SOME⟫", ")" if body_partial else "")
        out_tys = [body.env[k][1] for k in outs]
        for k, ty in zip(outs, out_tys):
            if k in self.env and self.env[k][1] != ty:
                raise Unavailable(f"{fn}: {k!r} changes kind inside the loop")
        tup = "(" + " × ".join(["Bool"] + [_lean_ty(t) for t in out_tys]) + ")"
        params = " ".join(f"({self.env[k][0]} : {_lean_ty(self.env[k][1])})" for k in free)
        sigma = any(self.env[k][1] == X for k in free) or X in out_tys
        bname, lname = f"{fn}_body", f"{fn}_loop"
        self.fn.aux.append((bname, sigma, params, f"Option {tup}" if body_partial else tup, text,
                            f"one pass of the `while True` loop of `{fn}`: (left by `break`?, " + ", ".join(f"v{j}" for j in range(len(outs))) + ")"))
        inv = [k for k in free if k not in carried]
        lparams = " ".join(f"({self.env[k][0]} : {_lean_ty(self.env[k][1])})" for k in inv)
        otup = "(" + " × ".join(_lean_ty(t) for t in out_tys) + ")" if len(outs) > 1 else _lean_ty(out_tys[0])
        sig = " → ".join(["Nat"] + [_lean_ty(self.env[k][1]) for k in carried] + [f"Option {otup}"])
        call = f"{bname} " + " ".join(self.env[k][0] for k in free)
        nxt = " ".join(_proj("r", 1 + outs.index(k), 1 + len(outs)) for k in carried)
        inv_args = " ".join(self.env[k][0] for k in inv)
        pat0 = ", ".join(["0"] + ["_"] * len(carried))
        pat1 = ", ".join(["fuel + 1"] + [self.env[k][0] for k in carried])
        step = f"if r.1 then some r.2 else {lname} {inv_args} fuel {nxt}"
        ltext = f"| {pat0} => none\n| {pat1} =>\n" + (f"Option.bind ({call}) fun r =>\n{step}\n" if body_partial else f"let r := {call}\n{step}\n")
        self.fn.aux.append((lname, sigma, lparams, sig, ltext,
                            f"the passes of the loop chained (`fuel` bounds their number; out of fuel = `none`)"))
        self.fn.needs_fuel = True
        self.fn.partial = True
        r = self.fn.fresh()
        pre = self.flush_prefix()
        out = pre + f"-- while True: …\nOption.bind ({lname} {inv_args} fuel {' '.join(self.env[k][0] for k in carried)}) fun {r} =>\n"
        for j, (k, ty) in enumerate(zip(outs, out_tys)):
            out += self.bind_value(k, _proj(r, j, len(outs)), ty)
        return out + cont()


# ------------------------------------------------------------------------------------------------ functions
def _indent(text, n=2):
    return "".join(" " * n + l + "\n" for l in text.splitlines())


def _signature(f):
    a = f.args
    if a.vararg or a.kwarg or a.kwonlyargs or a.posonlyargs:
        raise Unavailable(f"{f.name}: parameter list")
    names = [x.arg for x in a.args]
    defaults = [None] * (len(names) - len(a.defaults)) + list(a.defaults)
    parts = []
    for nm, d in zip(names, defaults):
        parts.append(nm if d is None else f"{nm}={_src(d, 40)}")
    return f"{f.name}({', '.join(parts)})".replace('"', "'").replace("\\", "/")


def compile_function(f, kinds):
    if f.decorator_list or isinstance(f, ast.AsyncFunctionDef):
        raise Unavailable(f"{f.name}: decorated / async")
    if len(f.args.args) != len(kinds):
        raise Unavailable(f"{f.name}: {len(f.args.args)} parameters, the model has {len(kinds)}")
    fn = _Fn(f.name)
    env = {}
    params = []
    for j, (a, ty) in enumerate(zip(f.args.args, kinds)):
        env[a.arg] = (f"a{j}", ty)
        params.append(f"(a{j} : {_lean_ty(ty)})")
        if ty == X:
            fn.needs_sigma = True
        if ty[0] == "M":
            fn.needs_d = True
    blk = _Block(fn, env)
    text = blk.block(list(f.body), lambda: "⟪END⟫")
    if "⟪END⟫" in text:
        raise Unavailable(f"{f.name}: control can reach the end of the function without `return`")
    if fn.ret_ty is None:
        raise Unavailable(f"{f.name}: no return")
    some = fn.partial
    text = text.replace("⟪RET⟫", "(some " if some else "").replace("⟪/RET⟫", ")" if some else "")
    ret = _lean_ty(fn.ret_ty)
    if some:
        ret = f"Option {ret}"

    def header(name, sigma, ps, ty):
        cls = "ScT" if fn.needs_T else "Sc"
        sig = " {σ : Type}" if sigma else ""
        return f"def {name} {{α : Type}} [{cls} α]{sig} {ps} : {ty}"
    out = []
    for name, sigma, ps, ty, body, doc in fn.aux:
        if name.endswith("_loop"):
            out.append(f"/-- {doc} -/\n{header(name, sigma, ps, ty)}\n{_indent(body)}")
        else:
            out.append(f"/-- {doc} -/\n{header(name, sigma, ps, ty)} :=\n{_indent(body)}")
    extra = []
    if fn.needs_rk:
        extra.append("(rk : List (List α) → Nat → Bool)")
    if fn.needs_d:
        extra.append("(d : Nat)")
    ps = " ".join(extra + params + (["(fuel : Nat)"] if fn.needs_fuel else []))
    doc = f"`{_signature(f)}`" + (" — `rk m k` stands for `np.linalg.matrix_rank(m) < k`" if fn.needs_rk else "") \
        + (" — `d` is the number of columns (`x.shape[1]`)" if fn.needs_d else "") \
        + (" — `none`: a numpy routine raised (empty array) or the loop ran out of `fuel`" if some else "")
    out.append(f"/-- {doc} -/\n{header(f.name, fn.needs_sigma, ps, ret)} :=\n{_indent(text)}")
    return out, _signature(f)


def extract():
    tree = _parse("tempest/tools.py")
    funcs = {n.name: n for n in tree.body if isinstance(n, (ast.FunctionDef, ast.AsyncFunctionDef))}
    defs, sigs = [], []
    for name, kinds in FUNCS:
        if name not in funcs:
            raise Unavailable(f"tempest/tools.py has no top-level function {name}")
        d, s = compile_function(funcs[name], kinds)
        defs += d
        sigs.append(s)
    return defs, sigs


def render(defs, sigs):
    L = ["/- GENERATED by translate/g16_tools.py from /repo's current tempest/tools.py — do not edit. -/",
         "import TempestVerif.Model.Trim", "import TempestVerif.Model.VolVar", "set_option linter.unusedVariables false",
         "namespace Gen.ToolsSrc", ""]
    L += ["/-- the signatures as written (parameter names and defaults are keyword API) -/",
          "def signatures : List String :=\n  [" + ",\n   ".join('"' + s + '"' for s in sigs) + "]", ""]
    for d in defs:
        L += [d]
    L += ["end Gen.ToolsSrc", ""]
    return "\n".join(L)


def generate():
    try:
        defs, sigs = extract()
        text = render(defs, sigs)
    except Unavailable as e:
        return (NAME, "unavailable", str(e)[:300])
    except (SyntaxError, OSError, RecursionError, UnicodeError) as e:
        return (NAME, "unavailable", f"{type(e).__name__}: {e}"[:300])
    except Exception as e:  # noqa  — a source shape the compiler did not anticipate is `unavailable`, never a crash
        return (NAME, "unavailable", f"internal {type(e).__name__}: {e}"[:300])
    changed = common.write_if_changed(os.path.join(common.GEN, "ToolsSrc.lean"), text)
    return (NAME, "ok", f"{'re' if changed else ''}generated Gen/ToolsSrc.lean ({len(defs)} definitions, {text.count('let ')} bindings)")


if __name__ == "__main__":
    print(generate())
