"""G15 — `tempest/mcmc.py: apply_boundary_conditions, check_bounds` read from /repo's current source (Python `ast` only), property C16.

Emits lean/TempestVerif/Gen/BoundarySrc.lean as five independently regenerated SECTIONS:

  terms-apply / terms-check    the function COMPILED, statement by statement, into Lean definitions:
      * every scalar expression (the `% 1.0` wrap, `np.floor`, the reflection count / remainder / parity test / flip
        `np.where(np.mod(n, 2.0) == 0, r, 1.0 - r)`, the comparisons `>= 0`, `<= 1`) becomes a term over the scalar interface
        `Sc α` (`applyLoop0`, `applyLoop1`, `checkCmp0..3`) — operators, operand order and literals are the source's;
      * every statement becomes one line of `applySrc` / `checkSrc`: `if X is not None` → `Np.ifSome X`, `for idx in X` →
        `List.foldl`, the read-modify-write `u[..., idx] = f(u[..., idx])` → `Np.upd .ellLast idx f`, the set arithmetic,
        `len(..) == 0`, `u.ndim == 1`, `u.shape[-1]`, `u[..., strict]`, `np.all(.., axis=-1)`, `and`, `&`, `np.ones(.., dtype=bool)`,
        the early exits → the numpy dictionary `Model.Np` of Model/BoundaryPy.lean.
    `Props/C16Source.lean` proves that the executable model (`Model.Boundary.periodic/reflect/apply/apply2/inUnit/checkBounds/
    checkBounds2`, `Model.BoundaryPy.applyPy/checkPy/rowCheck/strictIdx`) IS these terms, for every scalar type (so also at
    Float / Rat / Float32, which the driver runs).
  table-applySkeleton / table-checkSkeleton / table-callSites
    the statement SKELETON of each function (signature with defaults, then `path: statement`, `ast.unparse` in program order;
    docstrings and comments dropped) and every call of the two functions in the package (callee + the names of the index
    arguments).  Compared by `decide` with the skeleton the model was written against: the catch-all for what the terms abstract.

Canonicalisation (so that pure renamings / re-formattings do not alarm): LOCAL variables (everything assigned in the function that
is not a parameter) are renamed `v0, v1, …` in order of first assignment; module-level helper functions with a straight-line body
(`a = …; b = …; return e`) are inlined at their call statement; in the terms the parameters are `p0, p1, p2` by position; no source
identifier is ever used as a Lean identifier, source text only appears inside string literals / doc comments, sanitised.

The translator never guesses and never crashes on a source it can parse: a construct outside its language (an un-inlinable helper
call, an unknown statement or expression shape) makes the section concerned `unavailable` — the section is KEPT from the previous
generation with a note saying which construct, the other sections are still regenerated; an unparsable file makes everything
`unavailable` and nothing is written.  A construct INSIDE the language that differs from what the model does is emitted as it is —
the theorems then fail (that is not the translator's call).
"""
import ast
import copy
import os
import re
from fractions import Fraction

from harness import common
from .g5_tables import Unavailable, _parse, _name

SRC = "tempest/mcmc.py"
APPLY, CHECK = "apply_boundary_conditions", "check_bounds"
OUT = "BoundarySrc.lean"


# ---------------------------------------------------------------------------------------------- sanitising
def _s(text, limit=300):
    """source text → safe inside a Lean string literal / doc comment (one line, no quotes, no comment brackets)"""
    t = " ".join(str(text).split())
    t = t.replace('"', "'").replace("/-", "/ -").replace("-/", "- /")
    t = "".join(ch if 32 <= ord(ch) < 127 else "?" for ch in t)
    return t[:limit]


def _lean_str_list(xs):
    return "[" + ",\n   ".join('"' + _s(x).replace("\\", "\\\\") + '"' for x in xs) + "]"


# ---------------------------------------------------------------------------------------------- normalisation of the AST
def _is_doc(st):
    return isinstance(st, ast.Expr) and isinstance(st.value, ast.Constant) and isinstance(st.value.value, str)


def _strip_docs(fn):
    class T(ast.NodeTransformer):
        def generic_visit(self, node):
            super().generic_visit(node)
            for f in ("body", "orelse"):
                b = getattr(node, f, None)
                if isinstance(b, list):
                    nb = [s for s in b if not _is_doc(s)]
                    setattr(node, f, nb)
            return node
    return T().visit(fn)


def _params(fn):
    a = fn.args
    if a.vararg or a.kwarg or a.kwonlyargs or a.posonlyargs:
        raise Unavailable(f"{fn.name}: signature with */** / keyword-only / positional-only parameters")
    return [x.arg for x in a.args]


def _stored_names(node):
    """names assigned inside `node`, in order of first assignment (source order)"""
    out = []

    class V(ast.NodeVisitor):
        def visit_Name(self, n):
            if isinstance(n.ctx, ast.Store) and n.id not in out:
                out.append(n.id)
    V().visit(node)
    return out


class _Rename(ast.NodeTransformer):
    def __init__(self, m):
        self.m = m

    def visit_Name(self, n):
        if n.id in self.m:
            return ast.copy_location(ast.Name(id=self.m[n.id], ctx=n.ctx), n)
        return n


class _Subst(ast.NodeTransformer):
    """replace loads of a name by an expression"""
    def __init__(self, m):
        self.m = m

    def visit_Name(self, n):
        if isinstance(n.ctx, ast.Load) and n.id in self.m:
            return copy.deepcopy(self.m[n.id])
        return n


def _simple_helper(h):
    """helper body = `name = expr`* ; `return expr`   (after dropping docstrings)"""
    body = [s for s in h.body if not _is_doc(s)]
    if not body or not isinstance(body[-1], ast.Return) or body[-1].value is None:
        return None
    for s in body[:-1]:
        if not (isinstance(s, ast.Assign) and len(s.targets) == 1 and isinstance(s.targets[0], ast.Name)):
            return None
    a = h.args
    if a.vararg or a.kwarg or a.kwonlyargs or a.posonlyargs:
        return None
    for n in ast.walk(h):
        if isinstance(n, (ast.Lambda, ast.ListComp, ast.SetComp, ast.DictComp, ast.GeneratorExp, ast.FunctionDef)) and n is not h:
            return None
    return body


def _expand_call(call, helpers, counter):
    """statements + expression equivalent to `helper(args)`, or None"""
    if not (isinstance(call, ast.Call) and isinstance(call.func, ast.Name) and call.func.id in helpers):
        return None
    h = helpers[call.func.id]
    body = _simple_helper(h)
    if body is None:
        return None
    params = [x.arg for x in h.args.args]
    defaults = dict(zip(params[len(params) - len(h.args.defaults):], h.args.defaults))
    bound = {}
    if len(call.args) > len(params) or any(isinstance(a, ast.Starred) for a in call.args):
        return None
    for p, a in zip(params, call.args):
        bound[p] = a
    for kw in call.keywords:
        if kw.arg is None or kw.arg not in params or kw.arg in bound:
            return None
        bound[kw.arg] = kw.value
    for p in params:
        if p not in bound:
            if p not in defaults:
                return None
            bound[p] = defaults[p]
    counter[0] += 1
    pre = f"{h.name}__{counter[0]}__"
    stmts, sub = [], {}
    for p in params:
        a = bound[p]
        if isinstance(a, (ast.Name, ast.Constant)) or _name(a) is not None:
            sub[p] = a
        else:
            nm = pre + p
            stmts.append(ast.Assign(targets=[ast.Name(id=nm, ctx=ast.Store())], value=copy.deepcopy(a), lineno=call.lineno))
            sub[p] = ast.Name(id=nm, ctx=ast.Load())
    if any(t in params for t in _stored_names(ast.Module(body=body, type_ignores=[]))):
        return None                       # the helper re-assigns a parameter
    loc = {n: pre + n for n in _stored_names(ast.Module(body=body, type_ignores=[]))}
    for s in body[:-1]:
        s2 = _Rename(loc).visit(_Subst(sub).visit(copy.deepcopy(s)))
        stmts.append(s2)
    ret = _Rename(loc).visit(_Subst(sub).visit(copy.deepcopy(body[-1].value)))
    return stmts, ret


def _inline_helpers(fn, helpers):
    """statement-level inlining of straight-line module helpers (`x = helper(..)`, `return helper(..)`); at most 3 rounds"""
    counter = [0]

    def block(stmts):
        out, changed = [], False
        for st in stmts:
            for f in ("body", "orelse"):
                b = getattr(st, f, None)
                if isinstance(b, list) and b and isinstance(b[0], ast.stmt):
                    nb, ch = block(b)
                    setattr(st, f, nb)
                    changed = changed or ch
            ex = None
            if isinstance(st, ast.Assign) and len(st.targets) == 1:
                ex = _expand_call(st.value, helpers, counter)
                if ex:
                    out += ex[0] + [ast.copy_location(ast.Assign(targets=st.targets, value=ex[1]), st)]
            elif isinstance(st, ast.Return) and st.value is not None:
                ex = _expand_call(st.value, helpers, counter)
                if ex:
                    out += ex[0] + [ast.copy_location(ast.Return(value=ex[1]), st)]
            if ex:
                changed = True
            else:
                out.append(st)
        return out, changed
    for _ in range(3):
        fn.body, ch = block(fn.body)
        if not ch:
            break
    return fn


def _normalise(fn, helpers):
    """docstrings dropped, helpers inlined, locals renamed v0, v1, … by first assignment"""
    fn = _strip_docs(copy.deepcopy(fn))
    others = {k: v for k, v in helpers.items() if k != fn.name}
    fn = _inline_helpers(fn, others)
    left = sorted({n.func.id for n in ast.walk(fn) if isinstance(n, ast.Call) and isinstance(n.func, ast.Name) and n.func.id in others})
    if left:
        raise Unavailable(f"{fn.name} calls the module function(s) {', '.join(_s(x) for x in left)} that cannot be inlined (not a straight-line "
                          f"`x = ..; return e` body, or not called as a whole statement): the function's logic is no longer in one place")
    params = _params(fn)
    locs = [n for n in _stored_names(ast.Module(body=fn.body, type_ignores=[])) if n not in params]
    clash = {n.id for n in ast.walk(fn) if isinstance(n, ast.Name)} - set(locs)
    m, k = {}, 0
    for n in locs:
        while f"v{k}" in clash or f"v{k}" in params:
            k += 1
        m[n] = f"v{k}"
        k += 1
    fn = _Rename(m).visit(fn)
    ast.fix_missing_locations(fn)
    return fn


# ---------------------------------------------------------------------------------------------- skeleton tables
def _signature(fn):
    a = fn.args
    names = [x.arg for x in a.args]
    d = [None] * (len(names) - len(a.defaults)) + list(a.defaults)
    return f"def {fn.name}(" + ", ".join(n if v is None else f"{n}={ast.unparse(v)}" for n, v in zip(names, d)) + ")"


def _skeleton(fn):
    out = [_signature(fn)]

    def emit(path, text):
        out.append(f"{path}: {text}")

    def block(stmts, path):
        for k, st in enumerate(stmts):
            p = f"{path}{k}"
            if isinstance(st, ast.If):
                emit(p, f"if {ast.unparse(st.test)}")
                block(st.body, p + "t.")
                if st.orelse:
                    block(st.orelse, p + "e.")
            elif isinstance(st, (ast.For, ast.While)):
                if st.orelse:
                    raise Unavailable(f"{fn.name}: loop with an else block")
                head = f"for {ast.unparse(st.target)} in {ast.unparse(st.iter)}" if isinstance(st, ast.For) else f"while {ast.unparse(st.test)}"
                emit(p, head)
                block(st.body, p + ".")
            elif isinstance(st, (ast.Assign, ast.AugAssign, ast.AnnAssign, ast.Return, ast.Expr, ast.Pass, ast.Raise, ast.Assert)):
                emit(p, ast.unparse(st))
            else:
                raise Unavailable(f"{fn.name}: statement {type(st).__name__} (line {getattr(st, 'lineno', '?')}) outside the skeleton language")
    block(fn.body, "")
    return out


def _call_sites():
    """every call of the two functions in the package: `file callee(#, <name of 2nd arg>, <name of 3rd arg>)`
    (last component of the dotted name; for `check_bounds`, which is symmetric in the two lists, in sorted order)"""
    root = os.path.join(common.REPO, "tempest")
    out = []
    for dirpath, _dirs, files in os.walk(root):
        for fname in sorted(files):
            if not fname.endswith(".py"):
                continue
            rel = os.path.relpath(os.path.join(dirpath, fname), common.REPO)
            tree = _parse(rel)
            for n in ast.walk(tree):
                if not isinstance(n, ast.Call):
                    continue
                callee = n.func.id if isinstance(n.func, ast.Name) else n.func.attr if isinstance(n.func, ast.Attribute) else None
                if callee not in (APPLY, CHECK):
                    continue
                parts = []
                for a in n.args[1:]:
                    nm = _name(a)
                    parts.append(nm.split(".")[-1] if nm else ast.unparse(a))
                for kw in n.keywords:
                    nm = _name(kw.value)
                    parts.append(f"{kw.arg}=" + (nm.split(".")[-1] if nm else ast.unparse(kw.value)))
                if callee == CHECK:
                    parts = sorted(parts)     # check_bounds is symmetric in the two index lists (Props.C16Src.C16_src_check_symm)
                out.append((rel, n.lineno, f"{rel} {callee}(" + ", ".join(["#"] + parts) + ")"))
    return [t for _, _, t in sorted(out)]


# ---------------------------------------------------------------------------------------------- literals
def _num(n):
    """numeric constant (int / float, possibly negated) → python number, else None"""
    if isinstance(n, ast.Constant) and isinstance(n.value, (int, float)) and not isinstance(n.value, bool):
        return n.value
    if isinstance(n, ast.UnaryOp) and isinstance(n.op, ast.USub):
        v = _num(n.operand)
        return None if v is None else -v
    return None


def _dec(v):
    """non-negative finite number → ('nat', n) | ('dec', m, e), exact"""
    f = float(v)
    if f != f or f in (float("inf"), float("-inf")) or f < 0:
        raise Unavailable(f"literal {v!r} outside the literal language")
    if f == int(f) and f < 2 ** 53:
        return ("nat", int(f))
    r = repr(f)
    if "e" in r or "E" in r:
        raise Unavailable(f"literal {v!r}: exponent form of a non-integer")
    whole, frac = r.split(".")
    m, e = int(whole + frac), len(frac)
    if Fraction(m, 10 ** e) != Fraction(r):
        raise Unavailable(f"literal {v!r}: decimal expansion not exact")
    return ("dec", m, e)


def _sc_lit(v):
    d = _dec(abs(v))
    t = f"(Sc.ofNat {d[1]})" if d[0] == "nat" else f"(Sc.lit {d[1]} {d[2]})"
    return f"(Sc.neg {t})" if v < 0 else t


def _np_lit(v):
    if v < 0:
        raise Unavailable(f"negative literal {v!r} as a modulus / remainder")
    d = _dec(v)
    return f"(.nat {d[1]})" if d[0] == "nat" else f"(.dec {d[1]} {d[2]})"


def _int_lit(n, what):
    v = _num(n)
    if v is None or isinstance(v, float) or isinstance(v, bool):
        raise Unavailable(f"{what}: {ast.unparse(n)!r} is not an integer literal")
    return f"({v})" if v < 0 else str(v)


# ---------------------------------------------------------------------------------------------- scalar (element-wise) expressions
_NP = ("np.", "numpy.")


def _np_call(n):
    """name of a numpy function call without the module prefix, else None"""
    if not isinstance(n, ast.Call):
        return None
    nm = _name(n.func)
    if nm is None:
        return None
    for p in _NP:
        if nm.startswith(p):
            return nm[len(p):]
    return None


class _Scalar:
    """element-wise expression over `Sc α`: `env` maps python names to Lean names; `elem(node)` recognises the element read"""

    def __init__(self, env, elem):
        self.env, self.elem = env, elem

    def mod(self, a, m, fn="Np.mod"):
        v = _num(m)
        if v is not None:
            return f"({fn} {self.term(a)} {_np_lit(v)})"
        if fn != "Np.mod":
            raise Unavailable(f"{fn} with a computed modulus")
        return f"(Np.modG {self.term(a)} {self.term(m)})"

    def term(self, n):
        e = self.elem(n)
        if e is not None:
            return e
        v = _num(n)
        if v is not None:
            return _sc_lit(v)
        if isinstance(n, ast.Name):
            if n.id in self.env:
                return self.env[n.id]
            raise Unavailable(f"name {_s(n.id)!r} is not an element-wise local")
        if isinstance(n, ast.UnaryOp) and isinstance(n.op, ast.USub):
            return f"(Sc.neg {self.term(n.operand)})"
        if isinstance(n, ast.BinOp):
            if isinstance(n.op, ast.Mod):
                return self.mod(n.left, n.right)
            if isinstance(n.op, ast.FloorDiv):
                return f"(Sc.floor (Sc.div {self.term(n.left)} {self.term(n.right)}))"
            op = {ast.Add: "Sc.add", ast.Sub: "Sc.sub", ast.Mult: "Sc.mul", ast.Div: "Sc.div"}.get(type(n.op))
            if op is None:
                raise Unavailable(f"operator {type(n.op).__name__} in {_s(ast.unparse(n))!r}")
            a = self.term(n.left)
            b = self.term(n.right)
            return f"({op} {a} {b})"
        f = _np_call(n)
        if f is not None and not n.keywords:
            if f == "floor" and len(n.args) == 1:
                return f"(Sc.floor {self.term(n.args[0])})"
            if f == "ceil" and len(n.args) == 1:
                return f"(Np.ceil {self.term(n.args[0])})"
            if f in ("abs", "absolute", "fabs") and len(n.args) == 1:
                return f"(Sc.abs {self.term(n.args[0])})"
            if f in ("mod", "remainder") and len(n.args) == 2:
                return self.mod(n.args[0], n.args[1])
            if f == "fmod" and len(n.args) == 2:
                return self.mod(n.args[0], n.args[1], "Np.fmod")
            if f == "where" and len(n.args) == 3:
                c = self.test(n.args[0])
                a = self.term(n.args[1])
                b = self.term(n.args[2])
                return f"(Np.where_ {c} {a} {b})"
        raise Unavailable(f"expression {_s(ast.unparse(n))!r} outside the element-wise language")

    def test(self, n):
        if isinstance(n, ast.UnaryOp) and isinstance(n.op, (ast.Not, ast.Invert)):
            return f"(!{self.test(n.operand)})"
        if not (isinstance(n, ast.Compare) and len(n.ops) == 1):
            raise Unavailable(f"test {_s(ast.unparse(n))!r} is not a single comparison")
        l, r, op = n.left, n.comparators[0], type(n.ops[0])
        if op in (ast.Eq, ast.NotEq) and _num(r) is not None and _num(r) >= 0:
            # `np.mod(a, m) == z` / `a % m == z` with literal m, z
            ma = None
            if isinstance(l, ast.BinOp) and isinstance(l.op, ast.Mod):
                ma = (l.left, l.right)
            elif _np_call(l) in ("mod", "remainder") and len(l.args) == 2 and not l.keywords:
                ma = (l.args[0], l.args[1])
            if ma is not None and _num(ma[1]) is not None and _num(ma[1]) >= 0:
                t = f"(Np.modEq {self.term(ma[0])} {_np_lit(_num(ma[1]))} {_np_lit(_num(r))})"
                return t if op is ast.Eq else f"(!{t})"
        a = self.term(l)
        b = self.term(r)
        if op is ast.Eq:
            return f"(Sc.le {a} {b} && Sc.le {b} {a})"
        if op is ast.NotEq:
            return f"(!(Sc.le {a} {b} && Sc.le {b} {a}))"
        f = {ast.Lt: "Sc.lt", ast.LtE: "Sc.le", ast.Gt: "Sc.gt", ast.GtE: "Sc.ge"}.get(op)
        if f is None:
            raise Unavailable(f"comparison {op.__name__}")
        return f"({f} {a} {b})"


# ---------------------------------------------------------------------------------------------- statements → Lean
KIND_TY = {"arr": "Arr α", "optlist": "Option (List Nat)", "res": "Res"}


class _Fn:
    """one function compiled into `<prefix>Src` + its element-wise definitions"""

    def __init__(self, fn, prefix, param_kinds, result):
        self.fn, self.prefix, self.result = fn, prefix, result
        ps = _params(fn)
        if len(ps) != len(param_kinds):
            raise Unavailable(f"{fn.name}: {len(ps)} parameters, expected {len(param_kinds)}")
        self.env0 = {p: (f"p{i}", k) for i, (p, k) in enumerate(zip(ps, param_kinds))}
        self.param_kinds = param_kinds
        self.defs = []          # auxiliary element-wise definitions (text)
        self.nloop = 0
        self.ncmp = 0

    # ---- expressions with a kind
    def lean_local(self, name):
        if not re.fullmatch(r"v\d+", name):
            raise Unavailable(f"{self.fn.name}: assignment to {_s(name)!r}, which is not a local variable")
        return name

    def ex(self, n, env):
        """(text, kind)"""
        if isinstance(n, ast.Constant) and isinstance(n.value, bool):
            return f"Np.const {'true' if n.value else 'false'}", "res"
        v = _num(n)
        if v is not None and not isinstance(v, float):
            return (f"({v})" if v < 0 else str(v)), "nat" if v >= 0 else "int"
        if isinstance(n, ast.Name):
            if n.id in env:
                if env[n.id][1] == "none":
                    raise Unavailable(f"{self.fn.name}: {_s(n.id)!r} is used on the path where it is None (line {n.lineno})")
                return env[n.id]
            raise Unavailable(f"{self.fn.name}: name {_s(n.id)!r} is neither a parameter nor a local")
        if isinstance(n, ast.Attribute) and n.attr == "ndim":
            t, k = self.ex(n.value, env)
            self.want(k, "arr", n)
            return f"(Np.ndim {t})", "nat"
        if isinstance(n, ast.Subscript):
            if isinstance(n.value, ast.Attribute) and n.value.attr == "shape":
                t, k = self.ex(n.value.value, env)
                self.want(k, "arr", n)
                return f"(Np.shapeAt {t} {_int_lit(n.slice, 'shape index')})", "nat"
            t, k = self.ex(n.value, env)
            sl = n.slice
            if (k == "arr" and isinstance(sl, ast.Tuple) and len(sl.elts) == 2 and isinstance(sl.elts[0], ast.Constant)
                    and sl.elts[0].value is Ellipsis):
                i, ki = self.ex(sl.elts[1], env)
                if ki == "list":
                    return f"(Np.take {t} {i})", "arr"
            raise Unavailable(f"{self.fn.name}: subscript {_s(ast.unparse(n))!r} outside the language")
        if isinstance(n, ast.BinOp):
            a, ka = self.ex(n.left, env)
            b, kb = self.ex(n.right, env)
            if isinstance(n.op, ast.Sub) and ka == kb == "set":
                return f"(Np.setDiff {a} {b})", "set"
            if isinstance(n.op, ast.BitOr) and ka == kb == "set":
                return f"(Np.setUnion {a} {b})", "set"
            if isinstance(n.op, ast.BitAnd) and ka == kb == "res":
                return f"(Np.andBit {a} {b})", "res"
            raise Unavailable(f"{self.fn.name}: {_s(ast.unparse(n))!r}: operator {type(n.op).__name__} on {ka}, {kb}")
        if isinstance(n, ast.BoolOp) and isinstance(n.op, ast.And):
            parts = [self.ex(v, env) for v in n.values]
            if all(k == "res" for _, k in parts):
                t = parts[0][0]
                for p, _ in parts[1:]:
                    t = f"(Np.andPy {t} {p})"
                return t, "res"
            raise Unavailable(f"{self.fn.name}: `and` on {[k for _, k in parts]}")
        if isinstance(n, ast.Compare) and len(n.ops) == 1:
            l, r = n.left, n.comparators[0]
            # array CMP literal  /  literal CMP array   →  boolean array
            for arr_side, other, flip in ((l, r, False), (r, l, True)):
                if _num(other) is not None and _num(arr_side) is None:
                    t, k = self.ex(arr_side, env)
                    if k == "arr":
                        x = ast.Name(id="__x__", ctx=ast.Load())
                        cmp_node = ast.Compare(left=other if flip else x, ops=n.ops, comparators=[x if flip else other])
                        body = _Scalar({}, lambda m: "x" if isinstance(m, ast.Name) and m.id == "__x__" else None).test(cmp_node)
                        name = f"{self.prefix}Cmp{self.ncmp}"
                        self.ncmp += 1
                        self.defs.append(f"/-- `{_s(ast.unparse(n))}` on one element `x` -/\ndef {name} (x : α) : Bool := {body}")
                        return f"(Np.cmp {name} {t})", "barr"
            a, ka = self.ex(l, env)
            b, kb = self.ex(r, env)
            if ka == kb == "nat":
                op = {ast.Eq: "{a} == {b}", ast.NotEq: "{a} != {b}", ast.Lt: "decide ({a} < {b})", ast.LtE: "decide ({a} ≤ {b})",
                      ast.Gt: "decide ({a} > {b})", ast.GtE: "decide ({a} ≥ {b})"}.get(type(n.ops[0]))
                if op:
                    return "(" + op.format(a=a, b=b) + ")", "bool"
            raise Unavailable(f"{self.fn.name}: comparison {_s(ast.unparse(n))!r} on {ka}, {kb}")
        if isinstance(n, ast.Call):
            f = _np_call(n)
            kw = {k.arg: k.value for k in n.keywords}
            if f == "all" and len(n.args) == 1 and set(kw) <= {"axis"}:
                t, k = self.ex(n.args[0], env)
                self.want(k, "barr", n)
                if "axis" in kw:
                    return f"(Np.allAxis {t} {_int_lit(kw['axis'], 'axis')})", "res"
                return f"(Np.allFlat {t})", "res"
            if f == "ones" and len(n.args) == 1 and set(kw) == {"dtype"} and _name(kw["dtype"]) in ("bool", "np.bool_", "numpy.bool_"):
                t, k = self.ex(n.args[0], env)
                self.want(k, "nat", n)
                return f"(Np.ones {t})", "res"
            g = n.func.id if isinstance(n.func, ast.Name) else None
            if g is not None and not n.keywords:
                if g == "set" and not n.args:
                    return "Np.setEmpty", "set"
                if len(n.args) == 1:
                    t, k = self.ex(n.args[0], env)
                    if g == "set" and k in ("list", "set"):
                        return (f"(Np.setOf {t})" if k == "list" else t), "set"
                    if g == "range" and k == "nat":
                        return f"(List.range {t})", "list"
                    if g == "list" and k == "set":
                        return f"(Np.toList {t})", "list"
                    if g == "list" and k == "list":
                        return t, "list"
                    if g == "len" and k in ("list", "set"):
                        return f"(List.length {t})", "nat"
        raise Unavailable(f"{self.fn.name}: expression {_s(ast.unparse(n))!r} outside the language")

    def want(self, k, kind, n):
        if k != kind:
            raise Unavailable(f"{self.fn.name}: {_s(ast.unparse(n))!r}: operand is {k}, expected {kind}")

    # ---- None tests
    @staticmethod
    def none_test(test):
        """(name, positive) for `X is not None` (True) / `X is None` (False), else None"""
        if (isinstance(test, ast.Compare) and len(test.ops) == 1 and isinstance(test.left, ast.Name)
                and isinstance(test.comparators[0], ast.Constant) and test.comparators[0].value is None):
            if isinstance(test.ops[0], ast.IsNot):
                return test.left.id, True
            if isinstance(test.ops[0], ast.Is):
                return test.left.id, False
        return None

    # ---- mutation blocks: statements that update exactly one variable; result = its new value
    def mutated(self, stmts, in_loop=False):
        """the variables a block updates (element stores, `.update(..)`, assignments; temporaries of a loop body do not count)"""
        vs = []
        for st in stmts:
            if isinstance(st, ast.Assign) and len(st.targets) == 1:
                t = st.targets[0]
                if isinstance(t, ast.Name):
                    if in_loop:
                        continue
                    v = t.id
                else:
                    v = t.value.id if isinstance(t, ast.Subscript) and isinstance(t.value, ast.Name) else None
            elif isinstance(st, ast.Expr) and isinstance(st.value, ast.Call) and isinstance(st.value.func, ast.Attribute) \
                    and isinstance(st.value.func.value, ast.Name):
                v = st.value.func.value.id
            elif isinstance(st, (ast.For, ast.If)):
                vs += self.mutated(st.body + st.orelse, in_loop or isinstance(st, ast.For))
                continue
            else:
                raise Unavailable(f"{self.fn.name}: statement {_s(ast.unparse(st))!r} in an updating block")
            if v is None:
                raise Unavailable(f"{self.fn.name}: cannot tell what {_s(ast.unparse(st))!r} updates")
            vs.append(v)
        return vs

    def elementwise(self, stmts, env, idx_name):
        """`v = f(X[sub])`* ; `X[sub] = g(..)`  →  (X, ix-constructor, definition name), registering the definition"""
        last = stmts[-1]
        if not (isinstance(last, ast.Assign) and len(last.targets) == 1 and isinstance(last.targets[0], ast.Subscript)
                and isinstance(last.targets[0].value, ast.Name)):
            return None
        tgt = last.targets[0]
        arr = tgt.value.id
        if env.get(arr, (None, None))[1] != "arr":
            raise Unavailable(f"{self.fn.name}: store into {_s(arr)!r}, which is not an array")
        sl = tgt.slice
        if (isinstance(sl, ast.Tuple) and len(sl.elts) == 2 and isinstance(sl.elts[0], ast.Constant) and sl.elts[0].value is Ellipsis
                and isinstance(sl.elts[1], ast.Name) and sl.elts[1].id == idx_name):
            ix = ".ellLast"
        elif isinstance(sl, ast.Name) and sl.id == idx_name:
            ix = ".first"
        else:
            raise Unavailable(f"{self.fn.name}: store {_s(ast.unparse(tgt))!r}: index shape outside the language")
        key = ast.dump(sl)

        def elem(m):
            if isinstance(m, ast.Subscript) and isinstance(m.value, ast.Name) and m.value.id == arr:
                if ast.dump(m.slice) == key:
                    return "x0"
                raise Unavailable(f"{self.fn.name}: {_s(ast.unparse(m))!r} reads a different location than the store {_s(ast.unparse(tgt))!r}")
            return None
        loc, lines = {}, []
        for st in stmts[:-1]:
            if not (isinstance(st, ast.Assign) and len(st.targets) == 1 and isinstance(st.targets[0], ast.Name)):
                raise Unavailable(f"{self.fn.name}: statement {_s(ast.unparse(st))!r} in an element-wise loop body")
            nm = self.lean_local(st.targets[0].id)
            lines.append(f"  let {nm} := {_Scalar(loc, elem).term(st.value)}")
            loc = dict(loc, **{st.targets[0].id: nm})
        lines.append(f"  {_Scalar(loc, elem).term(last.value)}")
        name = f"{self.prefix}Loop{self.nloop}"
        self.nloop += 1
        src = "; ".join(ast.unparse(s) for s in stmts)
        head = f"/-- element-wise body `{_s(src)}` with x0 = `{_s(ast.unparse(tgt))}` -/\ndef {name} (x0 : α) : α :="
        self.defs.append(head + (" " + lines[0].strip() if len(lines) == 1 else "\n" + "\n".join(lines)))
        return arr, ix, name

    def mut(self, stmts, env, var, ind, idx_name=None):
        """lines of an expression whose value is the new value of `var` after `stmts`"""
        lv, kind = env[var]
        if idx_name is not None:
            ew = self.elementwise(stmts, env, idx_name)
            if ew is not None:
                arr, ix, name = ew
                if arr != var:
                    raise Unavailable(f"{self.fn.name}: loop body stores into {_s(arr)!r}")
                return [f"{ind}Np.upd {ix} {env[idx_name][0]} {name} {lv}"]
        if len(stmts) == 1:
            st = stmts[0]
            if isinstance(st, ast.For):
                if st.orelse or not isinstance(st.target, ast.Name):
                    raise Unavailable(f"{self.fn.name}: loop form {_s(ast.unparse(st.target))!r}")
                it, k = self.ex(st.iter, env)
                self.want(k, "list", st.iter)
                i = self.lean_local(st.target.id)
                env2 = dict(env, **{st.target.id: (i, "idx")})
                body = self.mut(st.body, env2, var, ind + "  ", idx_name=st.target.id)
                return [f"{ind}{it}.foldl (fun {lv} {i} =>"] + body[:-1] + [body[-1] + f") {lv}"]
            if isinstance(st, ast.Expr):
                c = st.value
                if (isinstance(c, ast.Call) and isinstance(c.func, ast.Attribute) and c.func.attr == "update" and len(c.args) == 1
                        and not c.keywords and kind == "set"):
                    a, ka = self.ex(c.args[0], env)
                    if ka in ("list", "set"):
                        return [f"{ind}Np.setUpdate {lv} {a}"]
                raise Unavailable(f"{self.fn.name}: call {_s(ast.unparse(c))!r} on a {kind}")
            if isinstance(st, ast.If):
                return self.mut_if(st, env, var, ind)
            if isinstance(st, ast.Assign) and isinstance(st.targets[0], ast.Name):
                t, k = self.ex(st.value, env)
                self.want(k, kind, st.value)
                return [f"{ind}{t}"]
            raise Unavailable(f"{self.fn.name}: statement {_s(ast.unparse(st))!r} in an updating block")
        out = []
        for st in stmts:
            one = self.mut([st], env, var, ind + "  ")
            out += [f"{ind}let {lv} := ("] + one[:-1] + [one[-1] + ")"]
        return out + [f"{ind}{lv}"]

    def mut_if(self, st, env, var, ind):
        lv, _ = env[var]
        nt = self.none_test(st.test)
        if nt is not None and env.get(nt[0], (None, None))[1] == "optlist":
            p = env[nt[0]][0]
            env_some = dict(env, **{nt[0]: (p, "list")})
            env_none = dict(env, **{nt[0]: (p, "none")})
            pos, neg = (st.body, st.orelse) if nt[1] else (st.orelse, st.body)
            some = self.mut(pos, env_some, var, ind + "    ") if pos else [f"{ind}    {lv}"]
            none = self.mut(neg, env_none, var, ind + "    ") if neg else [f"{ind}    {lv}"]
            # `if P is not None: BODY [else: ELSE]`  →  Np.ifSome P (ELSE) (fun P => BODY);  `if P is None:` →  Np.ifNone
            return ([f"{ind}{'Np.ifSome' if nt[1] else 'Np.ifNone'} {p} ("] + none + [f"{ind}  ) (fun {p} =>"] + some[:-1] + [some[-1] + ")"])
        c, k = self.ex(st.test, env)
        self.want(k, "bool", st.test)
        a = self.mut(st.body, env, var, ind + "  ") if st.body else [f"{ind}  {lv}"]
        b = self.mut(st.orelse, env, var, ind + "  ") if st.orelse else [f"{ind}  {lv}"]
        return [f"{ind}if {c} then ("] + a + [f"{ind}) else ("] + b + [f"{ind})"]

    # ---- blocks that end in `return`
    @staticmethod
    def returns(stmts):
        if not stmts:
            return False
        last = stmts[-1]
        if isinstance(last, ast.Return):
            return True
        if isinstance(last, ast.If) and last.orelse:
            return _Fn.returns(last.body) and _Fn.returns(last.orelse)
        return False

    def block(self, stmts, env, ind):
        if not stmts:
            raise Unavailable(f"{self.fn.name}: a path falls off the end without `return`")
        st, rest = stmts[0], stmts[1:]
        if isinstance(st, ast.Return):
            if rest:
                raise Unavailable(f"{self.fn.name}: statements after `return`")
            if st.value is None:
                raise Unavailable(f"{self.fn.name}: bare `return`")
            t, k = self.ex(st.value, env)
            self.want(k, self.result, st.value)
            return [f"{ind}{t}"]
        if isinstance(st, ast.If) and self.returns(st.body):
            c, k = self.ex(st.test, env)
            self.want(k, "bool", st.test)
            a = self.block(st.body, env, ind + "  ")
            b = self.block(st.orelse + rest, env, ind + "  ")
            return [f"{ind}if {c} then ("] + a + [f"{ind}) else ("] + b + [f"{ind})"]
        if isinstance(st, ast.Assign) and len(st.targets) == 1 and isinstance(st.targets[0], ast.Name):
            nm = st.targets[0].id
            v = st.value
            if nm in self.env0:
                # re-binding of a parameter: only `p = p.copy()`
                if (isinstance(v, ast.Call) and isinstance(v.func, ast.Attribute) and v.func.attr == "copy" and not v.args and not v.keywords
                        and isinstance(v.func.value, ast.Name) and v.func.value.id == nm and env[nm][1] == "arr"):
                    lv = env[nm][0]
                    return [f"{ind}let {lv} := Np.copy {lv}"] + self.block(rest, env, ind)
                raise Unavailable(f"{self.fn.name}: parameter {_s(nm)!r} re-assigned by {_s(ast.unparse(v))!r}")
            lv = self.lean_local(nm)
            t, k = self.ex(v, env)
            if k in ("bool", "none", "idx", "int"):
                raise Unavailable(f"{self.fn.name}: local {_s(ast.unparse(st))!r} of kind {k}")
            return [f"{ind}let {lv} := {t}"] + self.block(rest, dict(env, **{nm: (lv, k)}), ind)
        if isinstance(st, (ast.If, ast.For, ast.Expr)):
            vs = set(self.mutated([st]))
            if len(vs) != 1:
                raise Unavailable(f"{self.fn.name}: statement at line {st.lineno} updates {sorted(vs)}")
            var = vs.pop()
            if var not in env:
                raise Unavailable(f"{self.fn.name}: update of {_s(var)!r} before its definition")
            one = self.mut([st], env, var, ind + "  ")
            lv = env[var][0]
            return [f"{ind}let {lv} := ("] + one[:-1] + [one[-1] + ")"] + self.block(rest, env, ind)
        raise Unavailable(f"{self.fn.name}: statement {_s(ast.unparse(st))!r} (line {st.lineno}) outside the statement language")

    def compile(self):
        body = self.block(self.fn.body, dict(self.env0), "  ")
        ps = " ".join(f"(p{i} : {KIND_TY[k]})" for i, k in enumerate(self.param_kinds))
        head = (f"/-- `{_s(_signature(self.fn))}` compiled statement by statement -/\n"
                f"def {self.prefix}Src {ps} : {KIND_TY[self.result]} :=")
        return self.defs + [head + "\n" + "\n".join(body)]


# ---------------------------------------------------------------------------------------------- driver
# The generated file is a sequence of SECTIONS `-- BEGIN <name> (<note>)` … `-- END <name>`, each regenerated on its own: a section
# the translator cannot produce from the current source is KEPT from the previous generation (its note says why), the others are fresh.
SECTIONS = ["terms-apply", "terms-check", "table-applySkeleton", "table-checkSkeleton", "table-callSites"]
PARTS = {"apply": (APPLY, ["arr", "optlist", "optlist"], "arr"), "check": (CHECK, ["arr", "optlist", "optlist"], "res")}


def _old_sections(path):
    try:
        with open(path) as fh:
            s = fh.read()
    except OSError:
        return {}
    out = {}
    for name in SECTIONS:
        m = re.search(r"^-- BEGIN " + re.escape(name) + r" \([^\n]*\n(.*?)^-- END " + re.escape(name) + r"$", s, re.M | re.S)
        if m:
            out[name] = m.group(1)
    return out


def _table(name, rows):
    return f"def {name} : List String :=\n  {_lean_str_list(rows)}\n"


def sections():
    """{section: (text | None, note)}; raises Unavailable / SyntaxError / OSError when the file itself cannot be read"""
    tree = _parse(SRC)
    funcs = {n.name: n for n in tree.body if isinstance(n, ast.FunctionDef)}
    out = {}
    for key, (fname, kinds, result) in PARTS.items():
        try:
            if fname not in funcs:
                raise Unavailable(f"{SRC}: module-level function {fname} not found")
            fn = _normalise(funcs[fname], funcs)
            out[f"table-{key}Skeleton"] = (_table(f"{key}Skeleton", _skeleton(fn)), "fresh")
        except (Unavailable, KeyError, IndexError, AttributeError, TypeError, ValueError, RecursionError) as e:
            out[f"table-{key}Skeleton"] = (None, str(e))
            out[f"terms-{key}"] = (None, "no skeleton: " + str(e))
            continue
        try:
            out[f"terms-{key}"] = ("\n\n".join(_Fn(fn, key, kinds, result).compile()) + "\n", "fresh")
        except Unavailable as e:
            out[f"terms-{key}"] = (None, str(e))
        except (KeyError, IndexError, AttributeError, TypeError, ValueError, RecursionError) as e:   # a shape nobody thought of
            out[f"terms-{key}"] = (None, f"{fname}: shape outside the term language ({type(e).__name__}: {_s(e, 120)})")
    try:
        out["table-callSites"] = (_table("callSites", _call_sites()), "fresh")
    except (Unavailable, SyntaxError) as e:
        out["table-callSites"] = (None, f"{type(e).__name__}: {e}")
    return out


def render(secs):
    L = ["/- GENERATED by translate/g15_boundary.py from /repo's current source (tempest/mcmc.py) — do not edit. -/",
         "import TempestVerif.Model.BoundaryPy", "namespace Gen.BoundarySrc", "open Model Model.BoundaryPy",
         "variable {α : Type} [Sc α]", ""]
    for name in SECTIONS:
        text, note = secs[name]
        L += [f"-- BEGIN {name} ({_s(note, 240)})", text.rstrip("\n"), f"-- END {name}", ""]
    L += ["end Gen.BoundarySrc", ""]
    return "\n".join(L)


def generate():
    """two status tuples: the tables (statement skeletons, call sites) and the compiled terms.  `ok` = every section of that kind was
    regenerated from the current source; `unavailable` = at least one was not (it is kept from the previous generation and the
    detail says why; the sections that could be regenerated still are)"""
    NT, NE = "G15-boundary-skeleton", "G15-boundary-terms"
    path = os.path.join(common.GEN, OUT)
    try:
        secs = sections()
    except Unavailable as e:
        return [(NT, "unavailable", str(e)), (NE, "unavailable", str(e))]
    except (SyntaxError, OSError, RecursionError, ValueError) as e:
        msg = f"{SRC} cannot be read: {type(e).__name__}: {e}"
        return [(NT, "unavailable", msg), (NE, "unavailable", msg)]
    old = _old_sections(path)
    final, kept = {}, {}
    for name in SECTIONS:
        text, note = secs[name]
        if text is None:
            if name not in old:
                msg = f"section {name} unavailable ({note}) and no previous Gen/{OUT} to keep it from"
                return [(NT, "unavailable", msg), (NE, "unavailable", msg)]
            kept[name] = note
            final[name] = (old[name], "KEPT from the previous generation: the current source is outside the translator's language: " + note)
        else:
            final[name] = (text, "compiled from the current source")
    changed = common.write_if_changed(path, render(final))
    res = []
    for label, prefix, what in ((NT, "table-", "tables"), (NE, "terms-", "terms")):
        mine = [n for n in SECTIONS if n.startswith(prefix)]
        bad = [n for n in mine if n in kept]
        if bad:
            res.append((label, "unavailable", "; ".join(f"{n}: {kept[n]}" for n in bad)
                        + (f" (regenerated: {', '.join(n for n in mine if n not in kept)})" if len(bad) < len(mine) else "")))
        else:
            body = "".join(final[n][0] for n in mine)
            cnt = f"{len(re.findall(r'^def ', body, re.M))} definitions" if prefix == "terms-" else f"{body.count(chr(10) + '   ') + len(mine)} rows"
            res.append((label, "ok", f"{'re' if changed else ''}generated Gen/{OUT} {what} ({cnt})"))
    return res


if __name__ == "__main__":
    for g in generate():
        print(g)
