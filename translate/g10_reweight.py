"""G10 — `tempest/steps/reweight.py` read from /repo's current source (Python `ast` only), property C05.

Emits lean/TempestVerif/Gen/ReweightSrc.lean:

  * every DECISION EXPRESSION and every arithmetic expression on temperatures of `_find_beta_upper_limit`,
    `_find_beta_bisection` and `Reweighter.run`, compiled to a term over the scalar interface `Sc α` (so that the literal
    constants `1e10`, `0.5`, `1.0`, `0.0` and the comparison operators `<`, `<=`, `>`, `>=`, `==` are taken from the source):
    `upStayTest`, `upOneTest`, `upWhileTest`, `upMid`, `upRaiseTest`, `bisMid`, `bisNonfiniteDyn/Ess`, `bisMetricConv`,
    `bisBetaConv`, `bisOneTest`, `bisEssTest`, `bisDynTest`, `firstBeta/Logz/Ess`, `runTarget`, `essStayTest`, `essUpperTest`,
    `dynStuckTest`, `dynUpperTest`, `dynStayTest`.  `Props/C05Source.lean` proves (by `rfl`, for every scalar type — Float
    included) that the executable model `Model.Reweight` is built from exactly these terms.
  * the statement SKELETON of the five methods (`ast.unparse` of every statement in program order, with its nesting path;
    docstrings, comments and progress-bar statements dropped) as `List String` tables; `Props/C05Source.lean` compares them
    with the skeleton the model was written against (which branch assigns which variable, what is returned, the order and the
    arguments of the `_compute_metric_and_weights` / `compute_logw_and_logz` calls, the state keys written).

The translator never guesses: a construct outside its small expression language makes it return status `unavailable`.
"""
import ast
import os
from fractions import Fraction

from harness import common
from .g5_tables import Unavailable, _parse, _find_func, _name


# ---------------------------------------------------------------------------------------------- expressions → Sc terms
def _lit(v):
    """a Python numeric literal as a term of `Sc α` (exact)"""
    if isinstance(v, bool) or not isinstance(v, (int, float)):
        raise Unavailable(f"literal {v!r} is not numeric")
    f = float(v)
    if f != f or f in (float("inf"), float("-inf")) or f < 0:
        raise Unavailable(f"literal {v!r} outside the literal language")
    if f == int(f) and f < 2 ** 53:
        return f"(Sc.ofNat {int(f)})"
    r = repr(f)
    if "e" in r or "E" in r:
        raise Unavailable(f"literal {v!r}: exponent form of a non-integer")
    whole, frac = r.split(".")
    m, e = int(whole + frac), len(frac)
    if Fraction(m, 10 ** e) != Fraction(r):
        raise Unavailable(f"literal {v!r}: decimal expansion not exact")
    return f"(Sc.lit {m} {e})"


class _Comp:
    """compiles one Python expression; parameters = free names in order of first appearance"""

    def __init__(self):
        self.params = []

    def var(self, name):
        name = name[5:] if name.startswith("self.") else name
        if not name.isidentifier():
            raise Unavailable(f"name {name!r}")
        if name not in self.params:
            self.params.append(name)
        return name

    def term(self, n):
        if isinstance(n, ast.Constant):
            return _lit(n.value)
        nm = _name(n)
        if nm is not None:
            return self.var(nm)
        if isinstance(n, ast.UnaryOp) and isinstance(n.op, ast.USub):
            return f"(Sc.neg {self.term(n.operand)})"
        if isinstance(n, ast.BinOp):
            op = {ast.Add: "Sc.add", ast.Sub: "Sc.sub", ast.Mult: "Sc.mul", ast.Div: "Sc.div"}.get(type(n.op))
            if op is None:
                raise Unavailable(f"operator {type(n.op).__name__}")
            a = self.term(n.left)
            b = self.term(n.right)
            return f"({op} {a} {b})"
        if isinstance(n, ast.Call) and _name(n.func) in ("np.abs", "abs") and len(n.args) == 1 and not n.keywords:
            return f"(Sc.abs {self.term(n.args[0])})"
        raise Unavailable(f"expression {ast.unparse(n)!r} outside the expression language")

    def test(self, n):
        if not (isinstance(n, ast.Compare) and len(n.ops) == 1):
            raise Unavailable(f"test {ast.unparse(n)!r} is not a single comparison")
        a = self.term(n.left)
        b = self.term(n.comparators[0])
        op = type(n.ops[0])
        if op is ast.Eq:
            return f"(Sc.le {a} {b} && Sc.le {b} {a})"
        f = {ast.Lt: "Sc.lt", ast.LtE: "Sc.le", ast.Gt: "Sc.gt", ast.GtE: "Sc.ge"}.get(op)
        if f is None:
            raise Unavailable(f"comparison {op.__name__}")
        return f"({f} {a} {b})"


_ATTR_ORDER = []      # `self.X` attributes in the order `__init__` assigns them (set by extract)


def _binding_order(fn):
    """names in the order the SOURCE binds them in `fn`: parameters in signature order (without `self`), then locals by the
       position of their first assignment (tuple targets and nested `def` parameters included), then the `self.X` attributes in the
       order `__init__` assigns them.  The parameter list of a generated term follows THIS order — not the order of appearance in
       the expression — so swapping two operands in the source changes the term instead of silently renaming its parameters."""
    order = [a.arg for a in fn.args.args if a.arg != "self"]
    stores = []
    for n in ast.walk(fn):
        if isinstance(n, ast.Name) and isinstance(n.ctx, ast.Store):
            stores.append((n.lineno, n.col_offset, n.id))
        elif isinstance(n, ast.FunctionDef) and n is not fn:
            stores += [(a.lineno, a.col_offset, a.arg) for a in n.args.args if a.arg != "self"]
    for _l, _c, nm in sorted(stores):
        if nm not in order:
            order.append(nm)
    return order + [a for a in _ATTR_ORDER if a not in order]


def _def_term(name, node, kind, comment, fn):
    c = _Comp()
    body = c.test(node) if kind == "test" else c.term(node)
    ty = "Bool" if kind == "test" else "α"
    order = _binding_order(fn)
    unknown = [q for q in c.params if q not in order]
    if unknown:
        raise Unavailable(f"{name}: {unknown} are bound neither in {fn.name} nor in __init__")
    ps = sorted(c.params, key=order.index)
    params = f" ({' '.join(ps)} : α)" if ps else ""
    return f"/-- `{comment}` -/\ndef {name}{params} : {ty} := {body}"


# ---------------------------------------------------------------------------------------------- skeletons
def _is_doc(st):
    return isinstance(st, ast.Expr) and isinstance(st.value, ast.Constant) and isinstance(st.value.value, str)


def _mentions_pbar(st):
    return any(_name(n) in ("self.pbar",) for n in ast.walk(st))


def _skeleton(fn):
    """program-order list of `path: statement` (compound statements contribute their header, then their blocks)"""
    out = []

    def emit(path, text):
        out.append(f"{path}: {' '.join(text.split())}".replace('"', "'"))

    def block(stmts, path):
        k = 0
        for st in stmts:
            if _is_doc(st):
                continue
            if isinstance(st, ast.If) and _mentions_pbar(st.test):
                continue                      # `if self.pbar is not None: …`
            if isinstance(st, ast.FunctionDef):
                emit(f"{path}{k}", f"def {st.name}({', '.join(a.arg for a in st.args.args)})")
                block(st.body, f"{path}{k}.")
            elif isinstance(st, ast.If):
                emit(f"{path}{k}", f"if {ast.unparse(st.test)}")
                block(st.body, f"{path}{k}t.")
                if st.orelse:
                    block(st.orelse, f"{path}{k}e.")
            elif isinstance(st, ast.While):
                emit(f"{path}{k}", f"while {ast.unparse(st.test)}")
                block(st.body, f"{path}{k}.")
                if st.orelse:
                    raise Unavailable("while … else")
            elif isinstance(st, (ast.Assign, ast.Return, ast.Expr, ast.AugAssign)):
                emit(f"{path}{k}", ast.unparse(st))
            else:
                raise Unavailable(f"statement {type(st).__name__} in {fn.name}")
            k += 1
    block(fn.body, "")
    return out


# ---------------------------------------------------------------------------------------------- locating the sites
def _body(fn):
    return [s for s in fn.body if not _is_doc(s)]


def _only(nodes, what):
    nodes = list(nodes)
    if len(nodes) != 1:
        raise Unavailable(f"expected exactly one {what}, found {len(nodes)}")
    return nodes[0]


def _assign_value(stmts, target):
    hits = [s for s in stmts if isinstance(s, ast.Assign) and len(s.targets) == 1 and _name(s.targets[0]) == target]
    return _only(hits, f"assignment to {target}").value


def _ifs(stmts):
    return [s for s in stmts if isinstance(s, ast.If) and not _mentions_pbar(s.test)]


def _strip_not(n):
    if isinstance(n, ast.UnaryOp) and isinstance(n.op, ast.Not):
        return n.operand
    return None


def extract():
    tree = _parse("tempest/steps/reweight.py")
    defs, tabs = [], {}
    init0 = _find_func(tree, "Reweighter", "__init__")
    _ATTR_ORDER[:] = []
    for n in sorted((n for n in ast.walk(init0) if isinstance(n, ast.Attribute) and isinstance(n.ctx, ast.Store)
                     and _name(n.value) == "self"), key=lambda n: (n.lineno, n.col_offset)):
        if n.attr not in _ATTR_ORDER:
            _ATTR_ORDER.append(n.attr)

    # ---- _find_beta_upper_limit
    up = _find_func(tree, "Reweighter", "_find_beta_upper_limit")
    ub = _body(up)
    defs.append(_def_term("upInitHigh", _assign_value(ub, "beta_high"), "term", "beta_high = …", up))
    uifs = _ifs(ub)
    if len(uifs) != 2:
        raise Unavailable("_find_beta_upper_limit: expected two top-level ifs")
    defs.append(_def_term("upStayTest", uifs[0].test, "test", ast.unparse(uifs[0].test), up))
    defs.append(_def_term("upOneTest", uifs[1].test, "test", ast.unparse(uifs[1].test), up))
    ret1 = _only([s for s in uifs[1].body if isinstance(s, ast.Return)], "return in the second if")
    defs.append(_def_term("upOneReturn", ret1.value, "term", "return …", up))
    calls = [n for n in ast.walk(up) if isinstance(n, ast.Call) and (_name(n.func) or "").endswith("_compute_metric_and_weights")]
    if len(calls) != 3:
        raise Unavailable("_find_beta_upper_limit: expected three oracle calls")
    calls.sort(key=lambda n: n.lineno)
    defs.append(_def_term("upSecondArg", calls[1].args[0], "term", "the argument of the second oracle call", up))
    wh = _only([s for s in ub if isinstance(s, ast.While)], "while loop")
    defs.append(_def_term("upWhileTest", wh.test, "test", ast.unparse(wh.test), up))
    defs.append(_def_term("upMid", _assign_value(wh.body, "beta_mid"), "term", "beta_mid = …", up))
    wi = _only(_ifs(wh.body), "if in the loop")
    defs.append(_def_term("upRaiseTest", wi.test, "test", ast.unparse(wi.test), up))
    tabs["upperLimitSkeleton"] = _skeleton(up)

    # ---- _find_beta_bisection
    bis = _find_func(tree, "Reweighter", "_find_beta_bisection")
    wh = _only([s for s in _body(bis) if isinstance(s, ast.While)], "while loop")
    if not (isinstance(wh.test, ast.Constant) and wh.test.value is True):
        raise Unavailable("_find_beta_bisection: loop is not `while True`")
    wb = wh.body
    defs.append(_def_term("bisMid", _assign_value(wb, "beta"), "term", "beta = …", bis))
    bifs = _ifs(wb)
    if len(bifs) != 2:
        raise Unavailable("_find_beta_bisection: expected two ifs in the loop")
    guard = _strip_not(bifs[0].test)
    if not (guard is not None and isinstance(guard, ast.Call) and _name(guard.func) == "np.isfinite"
            and len(guard.args) == 1 and _name(guard.args[0]) == "metric_val"):
        raise Unavailable("_find_beta_bisection: first if is not `if not np.isfinite(metric_val)`")
    inner = _only(_ifs(bifs[0].body), "mode test under the finiteness guard")
    if ast.unparse(inner.test) != "self.volume_variation is not None":
        raise Unavailable("_find_beta_bisection: replacement is not split on `self.volume_variation is not None`")
    defs.append(_def_term("bisNonfiniteDyn", _assign_value(inner.body, "metric_val"), "term", "metric_val = … (volume-variation mode)", bis))
    defs.append(_def_term("bisNonfiniteEss", _assign_value(inner.orelse, "metric_val"), "term", "metric_val = … (ESS mode)", bis))
    defs.append(_def_term("bisMetricConv", _assign_value(wb, "metric_converged"), "test", "metric_converged = …", bis))
    defs.append(_def_term("bisBetaConv", _assign_value(wb, "beta_converged"), "test", "beta_converged = …", bis))
    stop = bifs[1].test
    if not (isinstance(stop, ast.BoolOp) and isinstance(stop.op, ast.Or) and len(stop.values) == 3
            and _name(stop.values[0]) == "metric_converged" and _name(stop.values[1]) == "beta_converged"):
        raise Unavailable("_find_beta_bisection: stop test is not `metric_converged or beta_converged or <test>`")
    defs.append(_def_term("bisOneTest", stop.values[2], "test", ast.unparse(stop.values[2]), bis))
    rest = bifs[1].orelse
    if not (len(rest) == 1 and isinstance(rest[0], ast.If) and ast.unparse(rest[0].test) == "self.volume_variation is None"):
        raise Unavailable("_find_beta_bisection: update is not split on `self.volume_variation is None`")
    e_if = _only(_ifs(rest[0].body), "ESS-mode update test")
    d_if = _only(_ifs(rest[0].orelse), "volume-variation update test")
    defs.append(_def_term("bisEssTest", e_if.test, "test", ast.unparse(e_if.test) + "  (ESS mode)", bis))
    defs.append(_def_term("bisDynTest", d_if.test, "test", ast.unparse(d_if.test) + "  (volume-variation mode)", bis))
    tabs["bisectionSkeleton"] = _skeleton(bis)

    # ---- run
    run = _find_func(tree, "Reweighter", "run")
    rb = _body(run)
    first = _only([s for s in _ifs(rb) if "get_history_length" in ast.unparse(s.test)], "first-iteration test")
    upd = _only([n for n in ast.walk(first) if isinstance(n, ast.Call) and (_name(n.func) or "").endswith("update_current")],
                "update_current in the first-iteration branch")
    if not (len(upd.args) == 1 and isinstance(upd.args[0], ast.Dict)):
        raise Unavailable("run: first-iteration update_current is not a dict literal")
    d = {k.value: v for k, v in zip(upd.args[0].keys, upd.args[0].values) if isinstance(k, ast.Constant)}
    if sorted(d) != ["beta", "ess", "logz"]:
        raise Unavailable(f"run: first iteration writes {sorted(d)}")
    defs.append(_def_term("firstBeta", d["beta"], "term", "'beta': …", run))
    defs.append(_def_term("firstLogz", d["logz"], "term", "'logz': …", run))
    defs.append(_def_term("firstEss", d["ess"], "term", "'ess': …", run))
    defs.append(_def_term("runTarget", _assign_value(rb, "ess_max"), "term", "ess_max = …", run))
    mode = _only([s for s in _ifs(rb) if ast.unparse(s.test) == "self.volume_variation is None"], "mode test in run")
    defs.append(_def_term("essTarget", _assign_value(mode.body, "target_ess"), "term", "target_ess = …", run))
    e0 = _only(_ifs(mode.body), "boundary test chain (ESS mode)")
    defs.append(_def_term("essStayTest", e0.test, "test", ast.unparse(e0.test), run))
    if not (len(e0.orelse) == 1 and isinstance(e0.orelse[0], ast.If)):
        raise Unavailable("run: ESS-mode boundary chain is not if/elif/else")
    defs.append(_def_term("essUpperTest", e0.orelse[0].test, "test", ast.unparse(e0.orelse[0].test), run))
    d0 = _only(_ifs(mode.orelse), "stuck test (volume-variation mode)")
    defs.append(_def_term("dynStuckTest", d0.test, "test", ast.unparse(d0.test), run))
    d1 = [s for s in _ifs(d0.orelse) if "weights is None" not in ast.unparse(s.test)]
    d1 = _only(d1, "boundary test chain (volume-variation mode)")
    defs.append(_def_term("dynUpperTest", d1.test, "test", ast.unparse(d1.test), run))
    if not (len(d1.orelse) == 1 and isinstance(d1.orelse[0], ast.If)):
        raise Unavailable("run: volume-variation boundary chain is not if/elif/else")
    defs.append(_def_term("dynStayTest", d1.orelse[0].test, "test", ast.unparse(d1.orelse[0].test), run))
    tabs["runSkeleton"] = _skeleton(run)
    tabs["finalizeSkeleton"] = _skeleton(_find_func(tree, "Reweighter", "_finalize_iteration"))
    tabs["metricSkeleton"] = _skeleton(_find_func(tree, "Reweighter", "_compute_metric_and_weights"))
    init = _find_func(tree, "Reweighter", "__init__")
    tm = _only([s for s in _ifs(_body(init)) if "volume_variation" in ast.unparse(s.test)], "target_metric test in __init__")
    tabs["initTargetSkeleton"] = _skeleton(ast.FunctionDef(name="__init__", args=init.args, body=[tm], decorator_list=[]))
    tabs["betaWriters"], tabs["dynamicKeyWriters"] = _beta_writers()
    return defs, tabs


def _beta_writers():
    """every place of the package that can write the current value of `beta`:
       literal-key writers  set_current('beta', …) / update_current({… 'beta': …}) / _current['beta'] = …
       and writers whose key is not a literal (set_current(<expr>, …), update_current(<non-literal>), _current[<expr>] = …,
       _current.update(…), _current = …) — listed with their source text so that the theorem pins them"""
    root = os.path.join(common.REPO, "tempest")
    lit, dyn = [], []
    for dirpath, _dirs, files in os.walk(root):
        for fn in sorted(files):
            if not fn.endswith(".py"):
                continue
            rel = os.path.relpath(os.path.join(dirpath, fn), common.REPO)
            tree = _parse(rel)
            funcs = []
            for node in tree.body:
                if isinstance(node, ast.ClassDef):
                    funcs += [(f"{node.name}.{f.name}", f) for f in node.body if isinstance(f, ast.FunctionDef)]
                elif isinstance(node, ast.FunctionDef):
                    funcs.append((node.name, node))
            for qn, f in funcs:
                where = f"{rel}:{qn}"
                for n in ast.walk(f):
                    if isinstance(n, ast.Call) and isinstance(n.func, ast.Attribute) and n.func.attr == "set_current" and n.args:
                        k = n.args[0]
                        if isinstance(k, ast.Constant):
                            if k.value == "beta":
                                lit.append((n.lineno, where, "set_current"))
                        else:
                            dyn.append((n.lineno, where, " ".join(ast.unparse(n).split()).replace('"', "'")))
                    elif isinstance(n, ast.Call) and isinstance(n.func, ast.Attribute) and n.func.attr == "update_current" and n.args:
                        a = n.args[0]
                        if isinstance(a, ast.Dict) and all(isinstance(k, ast.Constant) for k in a.keys):
                            if any(k.value == "beta" for k in a.keys):
                                lit.append((n.lineno, where, "update_current"))
                        else:
                            dyn.append((n.lineno, where, " ".join(ast.unparse(n).split()).replace('"', "'")))
                    elif isinstance(n, (ast.Assign, ast.AugAssign)):
                        tgts = n.targets if isinstance(n, ast.Assign) else [n.target]
                        for t in tgts:
                            if isinstance(t, ast.Subscript) and (_name(t.value) or "").endswith("_current"):
                                if isinstance(t.slice, ast.Constant):
                                    if t.slice.value == "beta":
                                        lit.append((n.lineno, where, "_current[...] ="))
                                else:
                                    dyn.append((n.lineno, where, " ".join(ast.unparse(n).split()).replace('"', "'")[:120]))
                            elif (_name(t) or "").endswith("._current"):
                                dyn.append((n.lineno, where, " ".join(ast.unparse(n).split()).replace('"', "'")[:120]))
                    elif (isinstance(n, ast.Call) and isinstance(n.func, ast.Attribute) and n.func.attr == "update"
                          and (_name(n.func.value) or "").endswith("_current")):
                        dyn.append((n.lineno, where, " ".join(ast.unparse(n).split()).replace('"', "'")[:120]))
    key = lambda x: (x[1].split(":")[0], x[0])   # noqa
    return ([f"{w} {how}" for _, w, how in sorted(lit, key=key)], [f"{w} {src}" for _, w, src in sorted(dyn, key=key)])


def _lean_str_list(xs):
    return "[" + ",\n   ".join('"' + x.replace("\\", "\\\\") + '"' for x in xs) + "]"


def render(defs, tabs):
    L = ["/- GENERATED by translate/g10_reweight.py from /repo's current source — do not edit. -/",
         "import TempestVerif.Sc", "namespace Gen.ReweightSrc", "variable {α : Type} [Sc α]", ""]
    for d in defs:
        L += [d, ""]
    for k, v in tabs.items():
        L += [f"def {k} : List String :=\n  {_lean_str_list(v)}", ""]
    L += ["end Gen.ReweightSrc", ""]
    return "\n".join(L)


def generate():
    try:
        defs, tabs = extract()
    except Unavailable as e:
        return ("G10-reweight-source", "unavailable", str(e))
    except (SyntaxError, OSError) as e:
        return ("G10-reweight-source", "unavailable", f"{type(e).__name__}: {e}")
    changed = common.write_if_changed(os.path.join(common.GEN, "ReweightSrc.lean"), render(defs, tabs))
    return ("G10-reweight-source", "ok",
            f"{'re' if changed else ''}generated Gen/ReweightSrc.lean ({len(defs)} terms, {sum(len(v) for v in tabs.values())} statements)")


if __name__ == "__main__":
    print(generate())
