"""G2 — `SamplerConfig.__post_init__` / `validate()` and the constructor wiring, regenerated from /repo's current source.

Emits (Python `ast` only, nothing is executed):

  lean/TempestVerif/Gen/Validate.lean   (generate_rules)
      pre      statements of `__post_init__` before `self.validate()`   (early raise, default assignments)
      rules    the ORDERED rule table of `validate()`: (condition expression, error-message template)
      post     statements after `self.validate()`                       (the dynamic-mode warning)
      defaults the defaults of `Sampler.__init__`'s options
      wrapped  options that reach `SamplerConfig` wrapped in a `FunctionWrapper` (hence always callable)

  lean/TempestVerif/Gen/Ctor.lean       (generate_ctor)
      ctorCalls    for every constructor on the path of `Sampler(...)`: the calls it makes, in source order
      likelihoodCalls   calls inside those constructors whose callee is (an alias of) the likelihood
      wiring       the keyword expressions `SamplerCore.__init__` passes to `HierarchicalGaussianMixture(...)`
                   and the sign check of `HierarchicalGaussianMixture.__init__`

The condition language is exactly the one of `Model/ConfigSpec.lean` (`Expr`).  The translator never guesses:
a statement or expression shape it does not know makes it return status `unavailable` (DESIGN §3.1) and leaves
the previously generated file untouched; the dynamic twin (harness/c18.py regime X) then carries the tie alone.
"""
import ast
import os
import re
from fractions import Fraction

from harness import common

FIELDS = ["prior_transform", "log_likelihood", "n_dim", "n_particles", "ess_ratio", "volume_variation",
          "log_likelihood_args", "log_likelihood_kwargs", "vectorize", "blobs_dtype", "periodic", "reflective", "pool",
          "clustering", "normalize", "cluster_every", "split_threshold", "n_max_clusters",
          "sample", "n_steps", "n_max_steps", "resample", "output_dir", "output_label", "random_state"]

CMP = {ast.Lt: "lt", ast.LtE: "le", ast.Gt: "gt", ast.GtE: "ge"}


class Unavailable(Exception):
    pass


def _src(node):
    try:
        return ast.unparse(node)[:80]
    except Exception:  # pragma: no cover
        return type(node).__name__


def _parse(rel):
    path = os.path.join(common.REPO, rel)
    with open(path) as fh:
        return ast.parse(fh.read(), filename=path)


def _find_class(tree, cls):
    for node in tree.body:
        if isinstance(node, ast.ClassDef) and node.name == cls:
            return node
    raise Unavailable(f"class {cls} not found")


def _find_func(tree, cls, name):
    for f in _find_class(tree, cls).body:
        if isinstance(f, ast.FunctionDef) and f.name == name:
            return f
    raise Unavailable(f"{cls}.{name} not found")


def _dotted(node):
    if isinstance(node, ast.Name):
        return node.id
    if isinstance(node, ast.Attribute):
        b = _dotted(node.value)
        return "<expr>." + node.attr if b is None else b + "." + node.attr
    if isinstance(node, ast.Call):           # set(x).intersection -> "set().intersection"
        b = _dotted(node.func)
        return None if b is None else b + "()"
    return None


def _self_field(node, owner="self"):
    """`self.<field>` -> field name (must be a known option), else None"""
    if isinstance(node, ast.Attribute) and isinstance(node.value, ast.Name) and node.value.id == owner:
        if node.attr not in FIELDS:
            raise Unavailable(f"unknown configuration field {node.attr!r}")
        return node.attr
    return None


def _need_field(node, owner="self"):
    f = _self_field(node, owner)
    if f is None:
        raise Unavailable(f"expected {owner}.<field>, got `{_src(node)}`")
    return f


def _is_int_const(node, value=None):
    ok = isinstance(node, ast.Constant) and type(node.value) is int
    return ok and (value is None or node.value == value)


def _int_lit(node):
    if _is_int_const(node):
        return node.value
    if isinstance(node, ast.UnaryOp) and isinstance(node.op, ast.USub) and _is_int_const(node.operand):
        return -node.operand.value
    raise Unavailable(f"expected an int literal, got `{_src(node)}`")


# ------------------------------------------------------------------ conditions
def tr(node, env):
    """condition expression -> nested tuple mirroring Model.ConfigSpec.Expr"""
    if isinstance(node, ast.Name):
        if node.id in env:
            return tr(env[node.id], env)
        raise Unavailable(f"free name `{node.id}` in a condition")
    f = _self_field(node)
    if f is not None:
        return ("truthy", f)
    if isinstance(node, ast.UnaryOp) and isinstance(node.op, ast.Not):
        return ("not", tr(node.operand, env))
    if isinstance(node, ast.BoolOp):
        parts = [tr(v, env) for v in node.values]
        k = "and" if isinstance(node.op, ast.And) else "or"
        out = parts[-1]
        for p in reversed(parts[:-1]):
            out = (k, p, out)
        return out
    if isinstance(node, ast.Call):
        fn = _dotted(node.func)
        if node.keywords:
            raise Unavailable(f"keyword arguments in `{_src(node)}`")
        if fn == "callable" and len(node.args) == 1:
            return ("isCallable", _need_field(node.args[0]))
        if fn == "isinstance" and len(node.args) == 2:
            f = _need_field(node.args[0])
            t = node.args[1]
            tn = _dotted(t)
            if tn == "int":
                return ("isInt", f)
            if tn == "bool":
                return ("isBool", f)
            if tn == "str":
                return ("isStr", f)
            if tn == "Path":
                return ("isPath", f)
            if isinstance(t, ast.Tuple) and sorted(_dotted(e) or "?" for e in t.elts) == ["float", "int"]:
                return ("isNum", f)
            raise Unavailable(f"isinstance against `{_src(t)}`")
        if fn == "math.isfinite" and len(node.args) == 1:
            return ("isFinite", _need_field(node.args[0]))
        if fn == "set().intersection" and len(node.args) == 1:
            inner = node.func.value
            other = node.args[0]
            if (isinstance(inner, ast.Call) and _dotted(inner.func) == "set" and len(inner.args) == 1 and not inner.keywords
                    and isinstance(other, ast.Call) and _dotted(other.func) == "set" and len(other.args) == 1 and not other.keywords):
                return ("overlap", _need_field(inner.args[0]), _need_field(other.args[0]))
        if fn == "all" and len(node.args) == 1 and isinstance(node.args[0], ast.GeneratorExp):
            return _all_idx(node.args[0])
        raise Unavailable(f"call `{_src(node)}` in a condition")
    if isinstance(node, ast.Compare) and len(node.ops) == 1:
        op, lhs, rhs = node.ops[0], node.left, node.comparators[0]
        if isinstance(op, (ast.Is, ast.IsNot)) and isinstance(rhs, ast.Constant) and rhs.value is None:
            e = ("isNone", _need_field(lhs))
            return e if isinstance(op, ast.Is) else ("not", e)
        if type(op) in CMP and _is_int_const(rhs, 0):
            return ("cmp0", CMP[type(op)], _need_field(lhs))
        if isinstance(op, (ast.In, ast.NotIn)) and isinstance(rhs, (ast.List, ast.Tuple)):
            lits = []
            for e in rhs.elts:
                if not (isinstance(e, ast.Constant) and isinstance(e.value, str)):
                    raise Unavailable(f"membership in a list with a non-string element: `{_src(node)}`")
                lits.append(e.value)
            e = ("notIn", _need_field(lhs), tuple(lits))
            return e if isinstance(op, ast.NotIn) else ("not", e)
        if type(op) in CMP and isinstance(rhs, ast.BinOp) and isinstance(rhs.op, ast.Add):
            return ("ltAdd", CMP[type(op)], _need_field(lhs), _need_field(rhs.left), _int_lit(rhs.right))
    raise Unavailable(f"condition `{_src(node)}`")


def _all_idx(gen):
    """all(isinstance(i, int) and <lo> <op> i <op> self.<hi> for i in self.<f>)"""
    if len(gen.generators) != 1:
        raise Unavailable("generator with several loops")
    g = gen.generators[0]
    if g.ifs or g.is_async or not isinstance(g.target, ast.Name):
        raise Unavailable("filtered / async / destructuring generator")
    var = g.target.id
    f = _need_field(g.iter)
    e = gen.elt
    if not (isinstance(e, ast.BoolOp) and isinstance(e.op, ast.And) and len(e.values) in (2, 3)):
        raise Unavailable(f"index test `{_src(e)}`")
    a, b = e.values[0], e.values[-1]
    strict = False
    if len(e.values) == 3:
        # `… and not isinstance(i, bool) and …`: Python bools are excluded from the int instances
        m = e.values[1]
        ok = (isinstance(m, ast.UnaryOp) and isinstance(m.op, ast.Not) and isinstance(m.operand, ast.Call)
              and _dotted(m.operand.func) == "isinstance" and len(m.operand.args) == 2 and not m.operand.keywords
              and isinstance(m.operand.args[0], ast.Name) and m.operand.args[0].id == var and _dotted(m.operand.args[1]) == "bool")
        if not ok:
            raise Unavailable(f"index test `{_src(m)}`")
        strict = True
    if not (isinstance(a, ast.Call) and _dotted(a.func) == "isinstance" and len(a.args) == 2 and not a.keywords
            and isinstance(a.args[0], ast.Name) and a.args[0].id == var and _dotted(a.args[1]) == "int"):
        raise Unavailable(f"index type test `{_src(a)}`")
    if not (isinstance(b, ast.Compare) and len(b.ops) == 2 and type(b.ops[0]) in CMP and type(b.ops[1]) in CMP
            and isinstance(b.comparators[0], ast.Name) and b.comparators[0].id == var):
        raise Unavailable(f"index range test `{_src(b)}`")
    lo = _int_lit(b.left)
    hi = _need_field(b.comparators[1])
    return ("allIdxStrict" if strict else "allIdx", f, CMP[type(b.ops[0])], lo, CMP[type(b.ops[1])], hi)


INT_GUARDED = set()     # fields whose `isinstance(.., int)` is established by an early raise (filled by extract_post_init)


def _safe_formatted(node):
    """formatted values inside a message must not be able to raise (they are not part of the model)"""
    v = node.value
    if node.format_spec is not None:
        raise Unavailable("format spec inside a message")
    if isinstance(v, ast.Name) or _self_field(v) is not None:
        return
    if isinstance(v, ast.Call) and _dotted(v.func) == "type" and len(v.args) == 1 and _self_field(v.args[0]) is not None:
        return
    if isinstance(v, ast.Attribute) and v.attr == "__name__" and isinstance(v.value, ast.Call) \
            and _dotted(v.value.func) == "type" and len(v.value.args) == 1 and _self_field(v.value.args[0]) is not None:
        return
    if isinstance(v, ast.BinOp) and isinstance(v.op, (ast.Add, ast.Sub)) and _is_int_const(v.right) \
            and _self_field(v.left) in INT_GUARDED:
        return          # int arithmetic on a field already known to be an int
    raise Unavailable(f"formatted value `{_src(v)}` inside a message")


def _template(node):
    """error message -> template with `{}` for every formatted value"""
    if isinstance(node, ast.Constant) and isinstance(node.value, str):
        t = node.value
    elif isinstance(node, ast.JoinedStr):
        t = ""
        for v in node.values:
            if isinstance(v, ast.Constant) and isinstance(v.value, str):
                if "{}" in v.value:
                    raise Unavailable("literal `{}` inside a message")
                t += v.value
            elif isinstance(v, ast.FormattedValue):
                _safe_formatted(v)
                t += "{}"
            else:
                raise Unavailable("message part of unknown kind")
    else:
        raise Unavailable(f"error message `{_src(node)}`")
    if "|" in t or "\n" in t or '"' in t or "\\" in t:
        raise Unavailable(f"message template with a reserved character: {t!r}")
    return t


def _conj(guard, cond):
    return cond if guard is None else ("and", guard, cond)


def _flatten_rules(stmts, guard, env, out):
    for st in stmts:
        if isinstance(st, ast.If):
            cond = tr(st.test, env)
            _flatten_rules(st.body, _conj(guard, cond), dict(env), out)
            if st.orelse:
                _flatten_rules(st.orelse, _conj(guard, ("not", cond)), dict(env), out)
        elif isinstance(st, ast.Assign) and len(st.targets) == 1 and isinstance(st.targets[0], ast.Name):
            # pure local (`overlap = set(..).intersection(..)`): inlined at its use, which must follow immediately in
            # this block so the evaluation point is the same
            env[st.targets[0].id] = st.value
        elif (isinstance(st, ast.Expr) and isinstance(st.value, ast.Call) and _dotted(st.value.func) == "errors.append"
              and len(st.value.args) == 1 and not st.value.keywords):
            if guard is None:
                raise Unavailable("unconditional errors.append")
            out.append((guard, _template(st.value.args[0])))
        else:
            raise Unavailable(f"statement `{_src(st)}` in validate()")


def _check_local_use(stmts):
    """a local assigned in a block must be used only by the `if` that immediately follows (same evaluation point)"""
    for blk in ast.walk(ast.Module(body=list(stmts), type_ignores=[])):
        body = getattr(blk, "body", None)
        if not isinstance(body, list):
            continue
        for i, st in enumerate(body):
            if isinstance(st, ast.Assign) and len(st.targets) == 1 and isinstance(st.targets[0], ast.Name) \
                    and st.targets[0].id != "errors":
                nm = st.targets[0].id
                nxt = body[i + 1] if i + 1 < len(body) else None
                if not (isinstance(nxt, ast.If) and isinstance(nxt.test, ast.Name) and nxt.test.id == nm):
                    raise Unavailable(f"local `{nm}` is not consumed by the next `if`")
                for later in body[i + 2:]:
                    if any(isinstance(n, ast.Name) and n.id == nm for n in ast.walk(later)):
                        raise Unavailable(f"local `{nm}` reused later")


def _strip_doc(body):
    if body and isinstance(body[0], ast.Expr) and isinstance(body[0].value, ast.Constant) and isinstance(body[0].value.value, str):
        return body[1:]
    return body


def extract_validate(cfg_tree):
    fn = _find_func(cfg_tree, "SamplerConfig", "validate")
    body = _strip_doc(fn.body)
    if not (body and isinstance(body[0], ast.Assign) and _dotted(body[0].targets[0]) == "errors"
            and isinstance(body[0].value, ast.List) and not body[0].value.elts):
        raise Unavailable("validate() does not start with `errors = []`")
    last = body[-1]
    ok_last = (isinstance(last, ast.If) and isinstance(last.test, ast.Name) and last.test.id == "errors" and not last.orelse
               and len(last.body) == 1 and isinstance(last.body[0], ast.Raise) and isinstance(last.body[0].exc, ast.Call)
               and _dotted(last.body[0].exc.func) == "ValueError")
    if not ok_last:
        raise Unavailable("validate() does not end with `if errors: raise ValueError(...)`")
    # the first line of the final message is what the harness recognises a rejection by
    head = None
    for n in ast.walk(last.body[0].exc):
        if isinstance(n, ast.Constant) and isinstance(n.value, str) and n.value.strip():
            head = n.value.split("\n")[0]
            break
    if not head:
        raise Unavailable("final ValueError without a literal head line")
    mid = body[1:-1]
    _check_local_use(mid)
    rules = []
    _flatten_rules(mid, None, {}, rules)
    return rules, head


def _setattr_stmt(st):
    """object.__setattr__(self, "f", <value>) -> (field, vexpr)"""
    if not (isinstance(st, ast.Expr) and isinstance(st.value, ast.Call) and _dotted(st.value.func) == "object.__setattr__"
            and len(st.value.args) == 3 and not st.value.keywords):
        return None
    a0, a1, a2 = st.value.args
    if not (isinstance(a0, ast.Name) and a0.id == "self" and isinstance(a1, ast.Constant) and a1.value in FIELDS):
        raise Unavailable(f"assignment `{_src(st)}`")
    return a1.value, _vexpr(a2)


def _vexpr(node):
    if isinstance(node, ast.Constant):
        return ("const", _const(node.value))
    if isinstance(node, ast.Call) and _dotted(node.func) == "Path" and len(node.args) == 1 and not node.keywords:
        a = node.args[0]
        if isinstance(a, ast.Constant) and isinstance(a.value, str):
            return ("const", ("path",))
        return ("pathOf", _need_field(a))
    if isinstance(node, ast.BinOp) and isinstance(node.op, ast.Mult):
        if _is_int_const(node.left):
            return ("mulInt", node.left.value, _need_field(node.right))
        if _is_int_const(node.right):
            return ("mulInt", node.right.value, _need_field(node.left))
    raise Unavailable(f"assigned value `{_src(node)}`")


def _const(v):
    if v is None:
        return ("none",)
    if isinstance(v, bool):
        return ("bool", v)
    if isinstance(v, int):
        return ("int", v)
    if isinstance(v, float):
        if v != v or v in (float("inf"), float("-inf")):
            raise Unavailable("non-finite literal")
        return ("float", Fraction(v))
    if isinstance(v, str):
        if not re.fullmatch(r"[A-Za-z0-9_]*", v):
            raise Unavailable(f"string literal {v!r} outside the modelled alphabet")
        return ("str", v)
    raise Unavailable(f"literal {v!r}")


def extract_post_init(cfg_tree):
    fn = _find_func(cfg_tree, "SamplerConfig", "__post_init__")
    pre, post, seen_validate = [], [], False
    for st in _strip_doc(fn.body):
        tgt = post if seen_validate else pre
        if isinstance(st, ast.Expr) and isinstance(st.value, ast.Call) and _dotted(st.value.func) == "self.validate" \
                and not st.value.args and not st.value.keywords:
            if seen_validate:
                raise Unavailable("self.validate() called twice")
            seen_validate = True
            continue
        if not isinstance(st, ast.If):
            raise Unavailable(f"statement `{_src(st)}` in __post_init__")
        # raise
        if len(st.body) == 1 and isinstance(st.body[0], ast.Raise) and not st.orelse:
            exc = st.body[0].exc
            if not (isinstance(exc, ast.Call) and _dotted(exc.func) == "ValueError" and len(exc.args) == 1):
                raise Unavailable(f"raise of `{_src(exc)}`")
            cond = tr(st.test, {})
            tgt.append(("raiseIf", cond, _template(exc.args[0])))
            if not seen_validate and cond[0] == "not" and cond[1][0] == "isInt":
                INT_GUARDED.add(cond[1][1])
            continue
        # warning
        if len(st.body) == 1 and isinstance(st.body[0], ast.Expr) and isinstance(st.body[0].value, ast.Call) \
                and _dotted(st.body[0].value.func) == "warnings.warn" and not st.orelse:
            tgt.append(("warnIf", tr(st.test, {})))
            continue
        # if / elif chain of single default assignments
        branches = []
        cur = st
        while True:
            if len(cur.body) != 1:
                raise Unavailable(f"branch with several statements: `{_src(cur)}`")
            sa = _setattr_stmt(cur.body[0])
            if sa is None:
                raise Unavailable(f"statement `{_src(cur.body[0])}` in __post_init__")
            branches.append((tr(cur.test, {}), sa[0], sa[1]))
            if not cur.orelse:
                break
            if len(cur.orelse) == 1 and isinstance(cur.orelse[0], ast.If):
                cur = cur.orelse[0]
            else:
                raise Unavailable("`else:` branch in __post_init__")
        tgt.append(("chain", tuple(branches)))
    if not seen_validate:
        raise Unavailable("__post_init__ does not call self.validate()")
    return pre, post


def extract_sampler_binding(s_tree, tools_tree):
    fn = _find_func(s_tree, "Sampler", "__init__")
    params = [a.arg for a in fn.args.args][1:]
    defaults = fn.args.defaults
    if fn.args.vararg or fn.args.kwarg or fn.args.kwonlyargs or fn.args.posonlyargs:
        raise Unavailable("Sampler.__init__ signature with */** parameters")
    if sorted(params) != sorted(FIELDS):
        raise Unavailable(f"Sampler.__init__ options differ from the modelled ones: {sorted(set(params) ^ set(FIELDS))}")
    dflt = {}
    for name, d in zip(params[len(params) - len(defaults):], defaults):
        if not isinstance(d, ast.Constant):
            raise Unavailable(f"default of {name} is not a literal")
        dflt[name] = _const(d.value)
    # locals bound to FunctionWrapper(<param>, …)
    wrappers = {}
    call = None
    for st in _strip_doc(fn.body):
        if isinstance(st, ast.Assign) and len(st.targets) == 1 and isinstance(st.targets[0], ast.Name) \
                and isinstance(st.value, ast.Call) and _dotted(st.value.func) == "FunctionWrapper" \
                and st.value.args and isinstance(st.value.args[0], ast.Name):
            wrappers[st.targets[0].id] = st.value.args[0].id
        elif isinstance(st, ast.Assign) and isinstance(st.value, ast.Call) and _dotted(st.value.func) == "SamplerConfig":
            call = st.value
            break
        else:
            raise Unavailable(f"statement `{_src(st)}` before SamplerConfig(...) in Sampler.__init__")
    if call is None or call.args:
        raise Unavailable("SamplerConfig(...) not called with keywords only")
    wrapped, seen = [], set()
    for kw in call.keywords:
        if kw.arg not in FIELDS or not isinstance(kw.value, ast.Name):
            raise Unavailable(f"SamplerConfig keyword `{kw.arg}={_src(kw.value)}`")
        seen.add(kw.arg)
        if kw.value.id == kw.arg:
            continue
        if wrappers.get(kw.value.id) == kw.arg:
            wrapped.append(kw.arg)
        else:
            raise Unavailable(f"SamplerConfig keyword `{kw.arg}` bound to `{kw.value.id}`")
    if seen != set(FIELDS):
        raise Unavailable(f"options not forwarded to SamplerConfig: {sorted(set(FIELDS) - seen)}")
    if wrapped:
        fw = _find_class(tools_tree, "FunctionWrapper")
        if not any(isinstance(f, ast.FunctionDef) and f.name == "__call__" for f in fw.body):
            raise Unavailable("FunctionWrapper has no __call__")
    # the dataclass defaults are never used by Sampler (all 25 keywords are passed) — nothing to extract from them
    return dflt, wrapped


def extract_rules():
    cfg = _parse("tempest/config.py")
    cls = _find_class(cfg, "SamplerConfig")
    if not any((_dotted(d.func) if isinstance(d, ast.Call) else _dotted(d)) == "dataclass" for d in cls.decorator_list):
        raise Unavailable("SamplerConfig is not a @dataclass (who calls __post_init__?)")
    if any(isinstance(f, ast.FunctionDef) and f.name in ("__init__", "__new__", "__setattr__") for f in cls.body):
        raise Unavailable("SamplerConfig defines its own __init__/__new__/__setattr__")
    INT_GUARDED.clear()
    pre, post = extract_post_init(cfg)
    rules, head = extract_validate(cfg)
    dflt, wrapped = extract_sampler_binding(_parse("tempest/sampler.py"), _parse("tempest/tools.py"))
    return {"pre": pre, "rules": rules, "post": post, "defaults": dflt, "wrapped": wrapped, "head": head}


# ------------------------------------------------------------------ constructors
CTORS = [("tempest/sampler.py", "Sampler", "__init__"),
         ("tempest/config.py", "SamplerConfig", "__post_init__"),
         ("tempest/config.py", "SamplerConfig", "validate"),
         ("tempest/state_manager.py", "StateManager", "__init__"),
         ("tempest/core.py", "SamplerCore", "__init__"),
         ("tempest/steps/reweight.py", "Reweighter", "__init__"),
         ("tempest/steps/train.py", "Trainer", "__init__"),
         ("tempest/steps/resample.py", "Resampler", "__init__"),
         ("tempest/steps/mutate.py", "Mutator", "__init__"),
         ("tempest/cluster.py", "HierarchicalGaussianMixture", "__init__"),
         ("tempest/tools.py", "FunctionWrapper", "__init__")]
LIKE_SEEDS = {"log_likelihood", "_log_like"}


def _calls(fn):
    out = []
    for node in ast.walk(fn):
        if isinstance(node, ast.Call):
            n = _dotted(node.func)
            out.append((node.lineno, node.col_offset, n if n is not None else "<expr>", node))
    out.sort(key=lambda t: (t[0], t[1]))
    return out


def _mentions(node, names):
    for n in ast.walk(node):
        if isinstance(n, ast.Name) and n.id in names:
            return True
        if isinstance(n, ast.Attribute) and n.attr in names:
            return True
    return False


def _wexpr(node, owner="config"):
    if _is_int_const(node):
        return ("lit", node.value)
    if isinstance(node, ast.Constant) and node.value is None:
        return ("noneLit",)
    f = _self_field(node, owner)
    if f is not None:
        return ("fld", f)
    if isinstance(node, ast.BinOp) and isinstance(node.op, ast.Sub) and _is_int_const(node.right):
        return ("subK", _wexpr(node.left, owner), node.right.value)
    if isinstance(node, ast.BinOp) and isinstance(node.op, ast.Mult) and _is_int_const(node.left):
        return ("mulK", node.left.value, _wexpr(node.right, owner))
    if isinstance(node, ast.IfExp):
        t = node.test
        if isinstance(t, ast.Compare) and len(t.ops) == 1 and isinstance(t.ops[0], ast.Is) \
                and isinstance(t.comparators[0], ast.Constant) and t.comparators[0].value is None:
            return ("ifNone", _need_field(t.left, owner), _wexpr(node.body, owner), _wexpr(node.orelse, owner))
    raise Unavailable(f"wiring expression `{_src(node)}`")


def extract_ctor():
    trees = {}
    table, like = [], []
    for rel, cls, name in CTORS:
        if rel not in trees:
            trees[rel] = _parse(rel)
        fn = _find_func(trees[rel], cls, name)
        carriers = set(LIKE_SEEDS)
        if cls == "FunctionWrapper":
            carriers.add("f")
        changed = True
        while changed:        # aliases: anything assigned from an expression that mentions a carrier
            changed = False
            for node in ast.walk(fn):
                if isinstance(node, ast.Assign) and _mentions(node.value, carriers):
                    for t in node.targets:
                        nm = t.id if isinstance(t, ast.Name) else (t.attr if isinstance(t, ast.Attribute) else None)
                        if nm and nm not in carriers:
                            carriers.add(nm)
                            changed = True
        names = []
        for _, _, n, node in _calls(fn):
            names.append(n)
            last = n.rstrip("()").split(".")[-1]
            if last in carriers:
                like.append(f"{cls}.{name}: {n}")
        table.append((cls, name, names))

    core = _find_func(trees["tempest/core.py"], "SamplerCore", "__init__")
    guard, call = None, None
    for node in ast.walk(core):
        if isinstance(node, ast.If):
            for sub in ast.walk(node):
                if isinstance(sub, ast.Call) and _dotted(sub.func) == "HierarchicalGaussianMixture":
                    if call is not None:
                        raise Unavailable("HierarchicalGaussianMixture constructed twice")
                    guard, call = node.test, sub
    if call is None:
        raise Unavailable("HierarchicalGaussianMixture(...) not constructed under an `if` in SamplerCore.__init__")
    gf = _self_field(guard, "config")
    if gf is None:
        raise Unavailable(f"clusterer guard `{_src(guard)}`")
    if call.args:
        raise Unavailable("positional arguments to HierarchicalGaussianMixture")
    kws = {k.arg: k.value for k in call.keywords}
    order = [k.arg for k in call.keywords]
    for need in ("max_iterations", "min_points", "threshold_modifier"):
        if need not in kws:
            raise Unavailable(f"HierarchicalGaussianMixture(...) without {need}")
    if not (order.index("max_iterations") < order.index("min_points") < order.index("threshold_modifier")):
        raise Unavailable("keyword order changed (evaluation order of the wiring expressions)")
    for k, v in kws.items():       # the other keywords must not be able to raise: literals or plain config fields
        if k in ("max_iterations", "min_points", "threshold_modifier"):
            continue
        if not (isinstance(v, ast.Constant) or _self_field(v, "config") is not None):
            raise Unavailable(f"keyword {k}=`{_src(v)}`")
    wiring = {"guard": gf, "maxIter": _wexpr(kws["max_iterations"]), "minPoints": _wexpr(kws["min_points"]),
              "threshold": _wexpr(kws["threshold_modifier"])}
    # HierarchicalGaussianMixture.__init__:  modifier = float(threshold_modifier);  if modifier <op> 0: raise ValueError
    h = _find_func(trees["tempest/cluster.py"], "HierarchicalGaussianMixture", "__init__")
    op = None
    var = None
    for st in h.body:
        if isinstance(st, ast.Assign) and isinstance(st.value, ast.Call) and _dotted(st.value.func) == "float" \
                and len(st.value.args) == 1 and isinstance(st.value.args[0], ast.Name) and st.value.args[0].id == "threshold_modifier" \
                and isinstance(st.targets[0], ast.Name):
            var = st.targets[0].id
        elif isinstance(st, ast.If) and var is not None and isinstance(st.test, ast.Compare) and len(st.test.ops) == 1 \
                and isinstance(st.test.left, ast.Name) and st.test.left.id == var and type(st.test.ops[0]) in CMP \
                and _is_int_const(st.test.comparators[0], 0) and len(st.body) == 1 and isinstance(st.body[0], ast.Raise) \
                and isinstance(st.body[0].exc, ast.Call) and _dotted(st.body[0].exc.func) == "ValueError":
            op = CMP[type(st.test.ops[0])]
        elif isinstance(st, ast.Expr) and isinstance(st.value, ast.Constant):
            continue        # docstring
        elif isinstance(st, ast.Assign) and isinstance(st.value, (ast.Name, ast.Constant, ast.List)) \
                and all(isinstance(t, ast.Attribute) and isinstance(t.value, ast.Name) and t.value.id == "self" for t in st.targets):
            continue        # plain attribute store of a parameter / literal: cannot raise
        else:
            raise Unavailable(f"statement `{_src(st)}` in HierarchicalGaussianMixture.__init__")
    if op is None:
        raise Unavailable("sign check of threshold_modifier not found")
    wiring["rejectOp"] = op
    return {"ctorCalls": table, "likelihoodCalls": like, "wiring": wiring}


# ------------------------------------------------------------------ rendering
def _lean_str(s):
    return '"' + s + '"'


def _lean_int(n):
    return f"({n})" if n < 0 else str(n)


def _lean_v(v):
    k = v[0]
    if k == "none":
        return "V.none"
    if k == "bool":
        return f"V.bool {'true' if v[1] else 'false'}"
    if k == "int":
        return f"V.int {_lean_int(v[1])}"
    if k == "float":
        q = v[1]
        num = f"({q.numerator} : Rat)"
        return f"V.float (FV.fin {num})" if q.denominator == 1 else f"V.float (FV.fin ({num} / ({q.denominator} : Rat)))"
    if k == "str":
        return f"V.str {_lean_str(v[1])}"
    if k == "path":
        return "V.path"
    raise Unavailable(f"value {v!r}")


def _lean_expr(e):
    k = e[0]
    if k in ("truthy", "isNone", "isInt", "isBool", "isFinite", "isNum", "isStr", "isPath", "isCallable"):
        return f"(.{k} .{e[1]})"
    if k == "cmp0":
        return f"(.cmp0 .{e[1]} .{e[2]})"
    if k == "notIn":
        return f"(.notIn .{e[1]} [{', '.join(_lean_str(s) for s in e[2])}])"
    if k == "overlap":
        return f"(.overlap .{e[1]} .{e[2]})"
    if k in ("allIdx", "allIdxStrict"):
        return f"(.{k} .{e[1]} .{e[2]} {_lean_int(e[3])} .{e[4]} .{e[5]})"
    if k == "ltAdd":
        return f"(.ltAdd .{e[1]} .{e[2]} .{e[3]} {_lean_int(e[4])})"
    if k == "not":
        return f"(.not {_lean_expr(e[1])})"
    if k in ("and", "or"):
        return f"(.{k} {_lean_expr(e[1])} {_lean_expr(e[2])})"
    raise Unavailable(f"expr {e!r}")


def _lean_vexpr(v):
    if v[0] == "const":
        return f"(.const ({_lean_v(v[1])}))"
    if v[0] == "mulInt":
        return f"(.mulInt {_lean_int(v[1])} .{v[2]})"
    if v[0] == "pathOf":
        return f"(.pathOf .{v[1]})"
    raise Unavailable(f"vexpr {v!r}")


def _lean_stmt(s):
    if s[0] == "raiseIf":
        return f".raiseIf {_lean_expr(s[1])} {_lean_str(s[2])}"
    if s[0] == "warnIf":
        return f".warnIf {_lean_expr(s[1])}"
    if s[0] == "chain":
        return ".chain [" + ", ".join(f"({_lean_expr(c)}, .{f}, {_lean_vexpr(v)})" for c, f, v in s[1]) + "]"
    raise Unavailable(f"stmt {s!r}")


def _lean_wexpr(w):
    k = w[0]
    if k == "lit":
        return f"(.lit {_lean_int(w[1])})"
    if k == "noneLit":
        return ".noneLit"
    if k == "fld":
        return f"(.fld .{w[1]})"
    if k == "subK":
        return f"(.subK {_lean_wexpr(w[1])} {_lean_int(w[2])})"
    if k == "mulK":
        return f"(.mulK {_lean_int(w[1])} {_lean_wexpr(w[2])})"
    if k == "ifNone":
        return f"(.ifNone .{w[1]} {_lean_wexpr(w[2])} {_lean_wexpr(w[3])})"
    raise Unavailable(f"wexpr {w!r}")


def render_rules(t):
    L = ["/- GENERATED by translate/g2_validate.py from /repo's current source — do not edit. -/",
         "import TempestVerif.Model.ConfigSpec",
         "namespace Gen.Validate",
         "open Model.ConfigSpec", "",
         "/-- `SamplerConfig.__post_init__` before `self.validate()` -/",
         "def pre : List Stmt := ["]
    L.append(",\n".join("  " + _lean_stmt(s) for s in t["pre"]))
    L += ["]", "", "/-- `SamplerConfig.validate()`: ordered (condition, message template) table -/", "def rules : List Rule := ["]
    L.append(",\n".join(f"  ⟨{_lean_expr(c)},\n     {_lean_str(tag)}⟩" for c, tag in t["rules"]))
    L += ["]", "", "/-- `SamplerConfig.__post_init__` after `self.validate()` -/", "def post : List Stmt := ["]
    L.append(",\n".join("  " + _lean_stmt(s) for s in t["post"]))
    L += ["]", "", "def spec : Spec := ⟨pre, rules, post⟩", "",
          "/-- defaults of `Sampler.__init__`'s optional parameters -/",
          "def defaults : List (Field × V) := ["]
    L.append(",\n".join(f"  (.{f}, {_lean_v(t['defaults'][f])})" for f in FIELDS if f in t["defaults"]))
    L += ["]", "", "/-- options wrapped in a `FunctionWrapper` before they reach `SamplerConfig` -/",
          "def wrapped : List Field := [" + ", ".join("." + f for f in t["wrapped"]) + "]", "",
          "end Gen.Validate", ""]
    return "\n".join(L)


def render_ctor(t):
    L = ["/- GENERATED by translate/g2_validate.py from /repo's current source — do not edit. -/",
         "import TempestVerif.Model.ConfigSpec",
         "namespace Gen.Ctor",
         "open Model.ConfigSpec", "",
         "/-- every call made by the constructors on the path of `Sampler(...)`, in source order -/",
         "def ctorCalls : List (String × String × List String) := ["]
    L.append(",\n".join(f"  ({_lean_str(c)}, {_lean_str(n)}, [{', '.join(_lean_str(x) for x in calls)}])" for c, n, calls in t["ctorCalls"]))
    L += ["]", "", "/-- calls in those constructors whose callee is (an alias of) the likelihood -/",
          "def likelihoodCalls : List String := [" + ", ".join(_lean_str(c) for c in t["likelihoodCalls"]) + "]", ""]
    w = t["wiring"]
    L += ["/-- `SamplerCore.__init__` → `HierarchicalGaussianMixture(...)` -/",
          "def wiring : Wiring :=",
          f"  {{ guard := .{w['guard']},",
          f"    maxIter := {_lean_wexpr(w['maxIter'])},",
          f"    minPoints := {_lean_wexpr(w['minPoints'])},",
          f"    threshold := {_lean_wexpr(w['threshold'])},",
          f"    rejectOp := .{w['rejectOp']} }}", "",
          "end Gen.Ctor", ""]
    return "\n".join(L)


def generate_rules():
    try:
        t = extract_rules()
        text = render_rules(t)
    except Unavailable as e:
        return ("G2-validate", "unavailable", str(e))
    except (SyntaxError, OSError) as e:
        return ("G2-validate", "unavailable", f"{type(e).__name__}: {e}")
    changed = common.write_if_changed(os.path.join(common.GEN, "Validate.lean"), text)
    return ("G2-validate", "ok", f"{'re' if changed else ''}generated Gen/Validate.lean ({len(t['pre'])} pre, "
                                  f"{len(t['rules'])} rules, {len(t['post'])} post)")


def generate_ctor():
    try:
        t = extract_ctor()
        text = render_ctor(t)
    except Unavailable as e:
        return ("G2-ctor", "unavailable", str(e))
    except (SyntaxError, OSError) as e:
        return ("G2-ctor", "unavailable", f"{type(e).__name__}: {e}")
    changed = common.write_if_changed(os.path.join(common.GEN, "Ctor.lean"), text)
    return ("G2-ctor", "ok", f"{'re' if changed else ''}generated Gen/Ctor.lean ({len(t['ctorCalls'])} constructors, "
                              f"{len(t['likelihoodCalls'])} likelihood calls)")


if __name__ == "__main__":
    import pprint
    pprint.pprint(extract_rules(), width=160)
    pprint.pprint(extract_ctor(), width=160)
    print(generate_rules())
    print(generate_ctor())
