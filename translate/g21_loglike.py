"""G21 — the likelihood-evaluation path read from /repo's current source (Python `ast` only), property C13.

    tempest/tools.py        FunctionWrapper.__init__ / __call__
    tempest/core.py         SamplerCore._get_distribute_func, SamplerCore._log_like, SamplerCore.run_sampling (how a run starts),
                            SamplerCore._initialize_fresh / load_sampler_state (initial value of `calls`)
    tempest/mcmc.py         BaseMCMCRunner.__init__ (n_calls), _evaluate_likelihood, the slot of `n_calls` in what `run` returns
    tempest/steps/mutate.py Mutator.run: `n_drawn` arithmetic of the warm-up redraw loop, the cap test, both `calls` updates

Emits lean/TempestVerif/Gen/LogLikeSrc.lean: every TEST and every piece of ARITHMETIC of those functions compiled to a Lean
term over the model's value domains (vocabulary: Model/LLPy.lean — one hand-written definition per Python primitive).
`Props/C13Source.lean` proves that the executable model (`Model.LLEval`, `Model.CallsRun`, `Model.Dispatch`, run with the tables
of G6) computes exactly these terms, for every input.

HOW the source is read.  A small symbolic evaluator walks a function body: every local name is replaced by the expression it
holds over the function's INPUTS (parameters, `self.*`), `if` statements with a `return` / `raise` inside split the evaluation
into a decision tree (guard clauses and if/elif/else chains give the same tree up to the shape of the tests), `if` statements
without one are merged into conditional expressions, private helpers (methods of the same class, module-level functions) are
inlined, a `while` loop is evaluated once over fresh loop-carried atoms, and statements the evaluator does not interpret (`try`,
`for`, `with`) make the names they assign opaque functions of what they read.  Consequently local names, temporaries, comments,
formatting, guard clauses versus else-chains and the extraction of helpers do not change the MEANING of the generated terms
(the theorems are equalities for every input, proved by case analysis, so an equivalent test shape is accepted), while a literal,
an operator, an operand, a comparison, an index, a swapped branch or a dropped / duplicated counter statement changes them.

The translator never guesses: a construct outside its small language makes it return status `unavailable` with the construct
named.  It decides nothing about correctness: a readable but different source yields different terms and a failing theorem.
"""
import ast
import copy
import os

from harness import common
from .g5_tables import Unavailable, _parse, _name

NAME = "G21-loglike-source"
AT = "§"                                   # prefix of translator-made atoms (cannot occur in a Python identifier)


# ------------------------------------------------------------------------------------------------------------ small helpers
def _dump(n):
    return ast.dump(n, annotate_fields=False)


def _show(n):
    """one-line source text, safe inside a Lean comment or string (no newline, no double quote, no comment brackets)"""
    s = " ".join(ast.unparse(n).split()).replace(AT, "")
    return _safe(s)


def _safe(s):
    s = " ".join(str(s).split()).replace(AT, "")
    return s.replace('"', "'").replace("\\", "/").replace("/-", "/ -").replace("-/", "- /")[:300]


def _atom(s):
    return ast.Name(id=AT + s, ctx=ast.Load())


def _is_atom(n, s=None):
    return isinstance(n, ast.Name) and n.id.startswith(AT) and (s is None or n.id == AT + s)


def _call(fname, *args):
    return ast.Call(func=ast.Name(id=fname, ctx=ast.Load()), args=list(args), keywords=[])


def _is_call(n, fname, nargs=None):
    return (isinstance(n, ast.Call) and isinstance(n.func, ast.Name) and n.func.id == fname and not n.keywords
            and (nargs is None or len(n.args) == nargs))


def _is_doc(st):
    return isinstance(st, ast.Expr) and isinstance(st.value, ast.Constant) and isinstance(st.value.value, str)


def _is_none(n):
    return isinstance(n, ast.Constant) and n.value is None


def _int_lit(n):
    """value of an integer literal (possibly negated), else None"""
    if isinstance(n, ast.Constant) and isinstance(n.value, int) and not isinstance(n.value, bool):
        return n.value
    if isinstance(n, ast.UnaryOp) and isinstance(n.op, ast.USub):
        v = _int_lit(n.operand)
        return None if v is None else -v
    return None


class Leaf:
    def __init__(self, kind, value, env, path, eff):
        self.kind, self.value, self.env, self.path, self.eff = kind, value, env, list(path), list(eff)


class Node:
    def __init__(self, test, yes, no):
        self.test, self.yes, self.no = test, yes, no


def _leaves(t):
    if isinstance(t, Leaf):
        return [t]
    return _leaves(t.yes) + _leaves(t.no)


_EXITS = (ast.Return, ast.Raise)
_SCOPES = (ast.FunctionDef, ast.AsyncFunctionDef, ast.Lambda, ast.ClassDef)


def _walk_same_scope(st):
    """nodes of a statement, not descending into nested function / class definitions"""
    todo = [st]
    while todo:
        n = todo.pop()
        yield n
        for c in ast.iter_child_nodes(n):
            if not isinstance(c, _SCOPES):
                todo.append(c)


# ------------------------------------------------------------------------------------------------------- symbolic evaluator
class Ev:
    """symbolic evaluation of one function body → decision tree of leaves (return value, final environment, effects)"""

    MAX_DEPTH = 4

    def __init__(self, methods=None, funcs=None, inline=lambda name: True, tracked=("self.log_likelihood",), where="?",
                 branch_all=False):
        self.methods, self.funcs, self.inline, self.tracked, self.where = methods or {}, funcs or {}, inline, set(tracked), where
        self.branch_all = branch_all           # every `if` splits the evaluation into paths (small functions)
        self.loops = []
        self.imports = {}
        self.nop = 0
        self.depth = 0
        self.mguards = []
        self.budget = 4000                     # statements evaluated (guards against path explosion)

    # ---- expressions
    def subst(self, n, env, bound=frozenset(), ctx=None):
        if isinstance(n, ast.Name):
            if n.id not in bound and n.id in env and isinstance(n.ctx, ast.Load):
                return copy.deepcopy(env[n.id])
            return ast.Name(id=n.id, ctx=ast.Load())
        if isinstance(n, ast.Attribute):
            dn = _name(n)
            if dn is not None and dn.split(".")[0] not in bound and dn in env:
                return copy.deepcopy(env[dn])
            return ast.Attribute(value=self.subst(n.value, env, bound, ctx), attr=n.attr, ctx=ast.Load())
        if isinstance(n, (ast.ListComp, ast.SetComp, ast.GeneratorExp, ast.DictComp, ast.Lambda)) and ctx is not None:
            new = self.subst(n, env, bound, None)
            k = sum(1 for x in ast.walk(new) if isinstance(x, ast.Call) and _name(x.func) in self.tracked)
            if k:
                ctx[1].append((tuple(ctx[0]) + tuple(self.mguards), "opaque", n, k))
            return new
        if isinstance(n, (ast.ListComp, ast.SetComp, ast.GeneratorExp, ast.DictComp)):
            b = set(bound)
            gens = []
            for g in n.generators:
                it = self.subst(g.iter, env, frozenset(b), ctx)
                b |= {x.id for x in ast.walk(g.target) if isinstance(x, ast.Name)}
                gens.append(ast.comprehension(target=copy.deepcopy(g.target), iter=it,
                                              ifs=[self.subst(i, env, frozenset(b), ctx) for i in g.ifs], is_async=g.is_async))
            fb = frozenset(b)
            if isinstance(n, ast.DictComp):
                return ast.DictComp(key=self.subst(n.key, env, fb, ctx), value=self.subst(n.value, env, fb, ctx), generators=gens)
            return type(n)(elt=self.subst(n.elt, env, fb, ctx), generators=gens)
        if isinstance(n, ast.Lambda):
            a = n.args
            b = set(bound) | {x.arg for x in a.posonlyargs + a.args + a.kwonlyargs} | {x.arg for x in (a.vararg, a.kwarg) if x}
            return ast.Lambda(args=copy.deepcopy(n.args), body=self.subst(n.body, env, frozenset(b), ctx))
        if isinstance(n, (ast.NamedExpr, ast.Await, ast.Yield, ast.YieldFrom)):
            raise Unavailable(f"{self.where}: {type(n).__name__} is outside the expression language")
        if isinstance(n, ast.Call):
            new = ast.Call(func=self.subst(n.func, env, bound, ctx), args=[self.subst(a, env, bound, ctx) for a in n.args],
                           keywords=[ast.keyword(arg=k.arg, value=self.subst(k.value, env, bound, ctx)) for k in n.keywords])
            if ctx is not None and _name(new.func) in self.tracked:
                # a call of the likelihood written in the statement being evaluated (values taken from the environment are
                # never substituted again, so this is not a copy of an earlier call)
                ctx[1].append((tuple(ctx[0]) + tuple(self.mguards), "eval", new, 1))
            return self._maybe_inline_expr(new, n, env, ctx)
        new = copy.copy(n)
        for field, old in ast.iter_fields(n):
            if isinstance(old, list):
                setattr(new, field, [self.subst(x, env, bound, ctx) if isinstance(x, ast.AST) else x for x in old])
            elif isinstance(old, ast.AST) and not isinstance(old, (ast.expr_context, ast.operator, ast.unaryop, ast.boolop, ast.cmpop)):
                setattr(new, field, self.subst(old, env, bound, ctx))
        return new

    def _target(self, call):
        """the FunctionDef a call refers to when it may be inlined: (fdef, bound_self) or None"""
        fn = _name(call.func)
        if fn is None:
            return None
        if fn.startswith("self.") and fn.count(".") == 1 and fn[5:] in self.methods and self.inline(fn[5:]):
            return self.methods[fn[5:]], True
        if "." not in fn and fn in self.funcs and self.inline(fn):
            return self.funcs[fn], False
        return None

    def _bind_params(self, fdef, call, bound_self):
        a = fdef.args
        if a.vararg or a.kwarg or a.posonlyargs or a.kwonlyargs or fdef.decorator_list:
            raise Unavailable(f"helper `{fdef.name}`: signature outside the language")
        params = [x.arg for x in a.args]
        if bound_self:
            params = params[1:]
        defaults = dict(zip(params[len(params) - len(a.defaults):], a.defaults)) if a.defaults else {}
        env = {}
        if len(call.args) > len(params) or any(isinstance(x, ast.Starred) for x in call.args):
            raise Unavailable(f"helper `{fdef.name}`: argument list outside the language")
        for p, v in zip(params, call.args):
            env[p] = v
        for k in call.keywords:
            if k.arg is None or k.arg not in params or k.arg in env:
                raise Unavailable(f"helper `{fdef.name}`: keyword {k.arg!r}")
            env[k.arg] = k.value
        for p in params:
            if p not in env:
                if p not in defaults:
                    raise Unavailable(f"helper `{fdef.name}`: parameter {p!r} unbound")
                env[p] = copy.deepcopy(defaults[p])
        return env

    def _maybe_inline_expr(self, new, orig, env, ctx):
        """a helper called inside an expression: inlined when it is free of effects (else the call stays as it is)"""
        tgt = self._target(new)
        if tgt is None or self.depth >= self.MAX_DEPTH or ctx is None:
            return new
        fdef, bound_self = tgt
        saved = (list(self.loops), dict(self.imports), self.nop, list(self.mguards))
        try:
            cenv = self._bind_params(fdef, new, bound_self)
            cenv.update({k: v for k, v in env.items() if k.startswith("self.")})
            self.depth += 1
            try:
                tree = self.block([s for s in fdef.body], cenv, ctx[0], [],
                                  lambda e, p, f: Leaf("fall", None, e, p, f), lambda v, e, p, f: Leaf("ret", v, e, p, f))
            finally:
                self.depth -= 1
            for lf in _leaves(tree):
                if lf.eff or any(k.startswith("self.") and (k not in env or _dump(env[k]) != _dump(v)) for k, v in lf.env.items()):
                    raise Unavailable("helper with effects in expression position")
            if len(self.loops) != len(saved[0]):
                raise Unavailable("helper with a loop in expression position")
            return self._tree_expr(tree)
        except (Unavailable, _HelperOpaque):
            self.loops, self.imports, self.nop, self.mguards = saved
            return new

    def _tree_expr(self, t):
        if isinstance(t, Leaf):
            if t.kind == "ret":
                return t.value
            if t.kind == "fall":
                return ast.Constant(value=None)
            return _atom("raise")
        return ast.IfExp(test=copy.deepcopy(t.test), body=self._tree_expr(t.yes), orelse=self._tree_expr(t.no))

    # ---- statements
    def _opaque(self, st, env, path, eff):
        """a statement the evaluator does not interpret: what it assigns becomes an opaque function of what it reads"""
        for n in _walk_same_scope(st):
            if isinstance(n, ast.Return):
                raise Unavailable(f"{self.where}: line {n.lineno}: `return` inside a {type(st).__name__} statement")
        stores, reads = [], []
        for n in _walk_same_scope(st):
            if isinstance(n, ast.Name):
                if isinstance(n.ctx, ast.Store):
                    stores.append(n.id)
                elif n.id in env:
                    reads.append(n.id)
            elif isinstance(n, ast.Attribute):
                dn = _name(n)
                if dn is not None and isinstance(n.ctx, ast.Store):
                    stores.append(dn)
                elif dn is not None and dn in env:
                    reads.append(dn)
            elif isinstance(n, ast.Subscript) and isinstance(n.ctx, ast.Store):
                b = _name(n.value)
                if b is not None:
                    stores.append(b)
        self.nop += 1
        args, seen = [], set()
        for r in reads:
            d = _dump(env[r])
            if d not in seen:
                seen.add(d)
                args.append(copy.deepcopy(env[r]))
        val = _call(f"{AT}opaque{self.nop}", *args)
        for s in dict.fromkeys(stores):
            env[s] = copy.deepcopy(val)
        ntracked = sum(1 for n in _walk_same_scope(st) if isinstance(n, ast.Call) and _name(n.func) in self.tracked)
        eff.append((tuple(path) + tuple(self.mguards), "opaque", st, ntracked))

    def _assign(self, tgt, value, env, path, eff, st):
        if isinstance(tgt, ast.Name):
            env[tgt.id] = value
        elif isinstance(tgt, (ast.Tuple, ast.List)):
            if any(isinstance(e, ast.Starred) for e in tgt.elts):
                raise Unavailable(f"{self.where}: line {st.lineno}: starred assignment target")
            if isinstance(value, ast.Tuple) and len(value.elts) == len(tgt.elts):
                for t, v in zip(tgt.elts, value.elts):
                    self._assign(t, v, env, path, eff, st)
            else:
                for k, t in enumerate(tgt.elts):
                    self._assign(t, _call(AT + "proj", copy.deepcopy(value), ast.Constant(value=k),
                                          ast.Constant(value=len(tgt.elts))), env, path, eff, st)
        elif isinstance(tgt, ast.Attribute):
            dn = _name(tgt)
            if dn is None:
                raise Unavailable(f"{self.where}: line {st.lineno}: assignment target `{_show(tgt)}`")
            env[dn] = value
        elif isinstance(tgt, ast.Subscript):
            b = _name(tgt.value)
            if b is None:
                raise Unavailable(f"{self.where}: line {st.lineno}: assignment target `{_show(tgt)}`")
            old = copy.deepcopy(env[b]) if b in env else ast.Name(id=b, ctx=ast.Load())
            env[b] = _call(AT + "store", old, self.subst(tgt.slice, env, ctx=(path, eff)), value)
        else:
            raise Unavailable(f"{self.where}: line {st.lineno}: assignment target `{_show(tgt)}`")

    def _literal_seq(self, it, env, ctx):
        """the elements of a `for` iterable that is a literal tuple / list of at most 16 constants or tuples of constants"""
        v = self.subst(it, env, ctx=None)
        if isinstance(v, (ast.Tuple, ast.List)) and len(v.elts) <= 16:
            def lit(e):
                return isinstance(e, ast.Constant) or (isinstance(e, (ast.Tuple, ast.List)) and all(lit(x) for x in e.elts)) \
                    or (isinstance(e, ast.UnaryOp) and isinstance(e.operand, ast.Constant))
            if all(lit(e) for e in v.elts):
                return v.elts
        return None

    def _has_exit(self, st):
        for n in _walk_same_scope(st):
            if isinstance(n, _EXITS + (ast.Break, ast.Continue)):
                return True
            if isinstance(n, ast.Call) and n is not st and self._target(n) is not None:
                return True                       # an inlined helper may return early: evaluate the branches as paths
        return False

    def block(self, stmts, env, path, eff, on_fall, on_ret):
        stmts = [s for s in stmts if not _is_doc(s) and not isinstance(s, ast.Pass)]
        for pos, st in enumerate(stmts):
            self.budget -= 1
            if self.budget < 0:
                raise Unavailable(f"{self.where}: too many paths")
            rest = stmts[pos + 1:]
            ctx = (path, eff)

            def cont(e, p, f, rest=rest):
                return self.block(rest, e, p, f, on_fall, on_ret)

            if isinstance(st, ast.Return):
                v = self.subst(st.value, env, ctx=ctx) if st.value is not None else ast.Constant(value=None)
                return on_ret(v, env, path, eff)
            if isinstance(st, ast.Raise):
                return Leaf("raise", st, env, path, eff)
            if isinstance(st, ast.Break):
                return Leaf("break", None, env, path, eff)
            if isinstance(st, ast.Continue):
                return Leaf("continue", None, env, path, eff)
            if isinstance(st, (ast.Assign, ast.AnnAssign, ast.Expr)) and isinstance(st.value, ast.Call):
                # a helper called as a statement (or whose result is assigned): inlined, with its own early returns
                pre = ast.Call(func=st.value.func, args=[self.subst(a, env, ctx=ctx) for a in st.value.args],
                               keywords=[ast.keyword(arg=k.arg, value=self.subst(k.value, env, ctx=ctx)) for k in st.value.keywords])
                tgt = self._target(pre)
                if tgt is not None and self.depth < self.MAX_DEPTH:
                    fdef, bound_self = tgt
                    try:
                        cenv = self._bind_params(fdef, pre, bound_self)
                    except Unavailable:
                        cenv = None
                    if cenv is not None:
                        cenv.update({k: v for k, v in env.items() if k.startswith("self.")})
                        targets = ([] if isinstance(st, ast.Expr) else st.targets if isinstance(st, ast.Assign) else [st.target])

                        def resume(v, cenv2, p, f, env=env, targets=targets, st=st, cont=cont):
                            e2 = dict(env)
                            e2.update({k: x for k, x in cenv2.items() if k.startswith("self.")})
                            for t in targets:
                                self._assign(t, copy.deepcopy(v), e2, p, f, st)
                            self.depth -= 1
                            try:
                                return cont(e2, p, f)
                            finally:
                                self.depth += 1
                        saved = (list(self.loops), dict(self.imports), self.nop, list(eff), self.budget)
                        self.depth += 1
                        try:
                            return self.block(list(fdef.body), cenv, path, eff, lambda e, p, f: resume(ast.Constant(value=None), e, p, f),
                                              lambda v, e, p, f: resume(v, e, p, f))
                        except (_HelperOpaque, Unavailable):
                            # the helper (or what follows, evaluated under its paths) is outside the language: not inlined
                            self.loops, self.imports, self.nop = saved[0], saved[1], saved[2]
                            eff[:] = saved[3]
                        finally:
                            self.depth -= 1
            if isinstance(st, ast.Assign):
                v = self.subst(st.value, env, ctx=ctx)
                for t in st.targets:
                    self._assign(t, copy.deepcopy(v), env, path, eff, st)
            elif isinstance(st, ast.AnnAssign):
                if st.value is not None:
                    v = self.subst(st.value, env, ctx=ctx)
                    self._assign(st.target, v, env, path, eff, st)
            elif isinstance(st, ast.AugAssign):
                key = _name(st.target)
                if key is None:
                    if isinstance(st.target, ast.Subscript) and _name(st.target.value) is not None:
                        self._opaque(st, env, path, eff)
                        continue
                    raise Unavailable(f"{self.where}: line {st.lineno}: augmented assignment to `{_show(st.target)}`")
                old = copy.deepcopy(env[key]) if key in env else copy.deepcopy(st.target)
                if isinstance(old, (ast.Name, ast.Attribute)):
                    old.ctx = ast.Load()
                v = self.subst(st.value, env, ctx=ctx)
                env[key] = ast.BinOp(left=old, op=st.op, right=v)
            elif isinstance(st, ast.Expr):
                v = self.subst(st.value, env, ctx=ctx)
                if isinstance(v, ast.Call):
                    eff.append((tuple(path) + tuple(self.mguards), "call", v, 0))
            elif isinstance(st, ast.If):
                test = self.subst(st.test, env, ctx=ctx)
                if self.branch_all or self._has_exit(st):
                    yes = self.block(st.body, dict(env), path + [(test, True)], list(eff), cont, on_ret)
                    no = self.block(st.orelse, dict(env), path + [(test, False)], list(eff), cont, on_ret)
                    return Node(test, yes, no)
                got = []
                for body, pol in ((st.body, True), (st.orelse, False)):
                    e1 = dict(env)
                    self.mguards.append((test, pol))
                    try:
                        r = self.block(body, e1, path, eff, lambda e, p, f: Leaf("fall", None, e, p, f),
                                       lambda v, e, p, f: Leaf("ret", v, e, p, f))
                    finally:
                        self.mguards.pop()
                    if not isinstance(r, Leaf) or r.kind != "fall":
                        raise Unavailable(f"{self.where}: line {st.lineno}: conditional without exits did not fall through")
                    got.append(r.env)
                e1, e2 = got
                for k in list(dict.fromkeys(list(e1) + list(e2))):
                    a, b = e1.get(k), e2.get(k)
                    if a is not None and b is not None and _dump(a) == _dump(b):
                        env[k] = a
                    else:
                        env[k] = ast.IfExp(test=copy.deepcopy(test), body=a if a is not None else _atom("unbound"),
                                           orelse=b if b is not None else _atom("unbound"))
            elif isinstance(st, ast.While):
                if st.orelse:
                    raise Unavailable(f"{self.where}: line {st.lineno}: while … else")
                carried = []
                for n in _walk_same_scope(st):
                    if isinstance(n, ast.Name) and isinstance(n.ctx, ast.Store):
                        carried.append(n.id)
                    elif isinstance(n, ast.Attribute) and isinstance(n.ctx, ast.Store) and _name(n) is not None:
                        carried.append(_name(n))
                    elif isinstance(n, ast.AugAssign) and _name(n.target) is not None:
                        carried.append(_name(n.target))
                    elif isinstance(n, ast.Subscript) and isinstance(n.ctx, ast.Store) and _name(n.value) is not None:
                        carried.append(_name(n.value))
                carried = list(dict.fromkeys(carried))
                k = len(self.loops)
                pre = {c: copy.deepcopy(env[c]) for c in carried if c in env}
                lenv = dict(env)
                for c in carried:
                    lenv[c] = _atom(f"loop{k}.{c}")
                info = {"pre": pre, "carried": carried, "path": list(path) + list(self.mguards), "line": st.lineno, "k": k}
                self.loops.append(info)
                tmp = []
                info["test"] = self.subst(st.test, lenv, ctx=(path, tmp))
                info["test_evals"] = sum(e[3] for e in tmp)
                saved_g, self.mguards = self.mguards, []
                try:
                    info["tree"] = self.block(st.body, dict(lenv), [], [], lambda e, p, f: Leaf("fall", None, e, p, f),
                                              lambda v, e, p, f: Leaf("ret", v, e, p, f))
                finally:
                    self.mguards = saved_g
                if any(lf.kind == "ret" for lf in _leaves(info["tree"])):
                    raise Unavailable(f"{self.where}: line {st.lineno}: `return` inside a while loop")
                for c in carried:
                    env[c] = _atom(f"after{k}.{c}")
                eff.append((tuple(path) + tuple(self.mguards), "loop", st, k))
            elif isinstance(st, (ast.Import, ast.ImportFrom)):
                for al in st.names:
                    mod = (st.module or "") if isinstance(st, ast.ImportFrom) else ""
                    self.imports[al.asname or al.name.split(".")[0]] = (mod + "." if mod else "") + al.name
            elif isinstance(st, _SCOPES):
                env[st.name] = _atom(f"closure.{st.name}")
            elif isinstance(st, ast.For) and not st.orelse and self._literal_seq(st.iter, env, ctx) is not None \
                    and not any(isinstance(n, (ast.Break, ast.Continue) + _EXITS) for n in _walk_same_scope(st)):
                # a loop over a literal sequence (a table written in the source): unrolled
                unrolled = []
                for k, el in enumerate(self._literal_seq(st.iter, env, ctx)):
                    unrolled.append(ast.copy_location(ast.Assign(targets=[copy.deepcopy(st.target)], value=el), st))
                    unrolled += [copy.deepcopy(b) for b in st.body]
                return self.block(unrolled + rest, env, path, eff, on_fall, on_ret)
            elif isinstance(st, (ast.For, ast.Try, ast.With, ast.Assert, ast.Delete)):
                if self.depth > 0 and isinstance(st, (ast.Try, ast.With)):
                    raise _HelperOpaque()
                self._opaque(st, env, path, eff)
            else:
                raise Unavailable(f"{self.where}: line {st.lineno}: statement {type(st).__name__} outside the statement language")
        return on_fall(env, path, eff)

    def run(self, fdef, env=None):
        env = dict(env or {})
        return self.block(list(fdef.body), env, [], [], lambda e, p, f: Leaf("fall", None, e, p, f),
                          lambda v, e, p, f: Leaf("ret", v, e, p, f))


class _HelperOpaque(Exception):
    """a helper that contains try / with: it is not inlined, the call stays an opaque call"""


# ------------------------------------------------------------------------------------------------------------- compilers
def _fold(fn, terms):
    out = terms[-1]
    for t in reversed(terms[:-1]):
        out = f"({fn} {t} {out})"
    return out


def _int_term(k):
    return f"({k} : Int)" if k >= 0 else f"(({k}) : Int)"


class PoolComp:
    """tests on the `pool` option / the `vectorize` flag, and the strategy expressions"""

    def __init__(self, pool_dump, vec_dump, imports):
        self.pool_dump, self.vec_dump, self.imports = pool_dump, vec_dump, imports
        self.pool_modules = []

    def is_pool(self, n):
        return _dump(n) == self.pool_dump

    def test(self, n):
        if isinstance(n, ast.BoolOp):
            return _fold("pAnd" if isinstance(n.op, ast.And) else "pOr", [self.test(v) for v in n.values])
        if isinstance(n, ast.UnaryOp) and isinstance(n.op, ast.Not):
            return f"(pNot {self.test(n.operand)})"
        if isinstance(n, ast.Constant) and isinstance(n.value, bool):
            return f"(some {'true' if n.value else 'false'})"
        if _dump(n) == self.vec_dump:
            return "(some vectorize)"
        if isinstance(n, ast.Compare) and len(n.ops) == 1 and self.is_pool(n.left):
            op, r = type(n.ops[0]), n.comparators[0]
            if _is_none(r) and op in (ast.Is, ast.Eq):
                return "(some (PoolV.isNone pool))"
            if _is_none(r) and op in (ast.IsNot, ast.NotEq):
                return "(some (!PoolV.isNone pool))"
            k = _int_lit(r)
            f = {ast.LtE: "le?", ast.Lt: "lt?", ast.Gt: "gt?", ast.GtE: "ge?", ast.Eq: "eq?"}.get(op)
            if k is not None and f is not None:
                return f"(PoolV.{f} pool {_int_term(k)})"
            if k is not None and op is ast.NotEq:
                return f"(pNot (PoolV.eq? pool {_int_term(k)}))"
        if isinstance(n, ast.Compare) and len(n.ops) == 1 and self.is_pool(n.comparators[0]) and _int_lit(n.left) is not None:
            f = {ast.LtE: "ge?", ast.Lt: "gt?", ast.Gt: "lt?", ast.GtE: "le?", ast.Eq: "eq?"}.get(type(n.ops[0]))
            if f is not None:
                return f"(PoolV.{f} pool {_int_term(_int_lit(n.left))})"
        if isinstance(n, ast.Call) and _name(n.func) == "isinstance" and len(n.args) == 2 and not n.keywords and self.is_pool(n.args[0]):
            if _name(n.args[1]) == "int":
                return "(some (PoolV.isInt pool))"
            raise Unavailable(f"`{_show(n)}`: class outside the pool vocabulary (only `int`)")
        if isinstance(n, ast.Call) and _name(n.func) == "hasattr" and len(n.args) == 2 and not n.keywords and self.is_pool(n.args[0]) \
                and isinstance(n.args[1], ast.Constant) and n.args[1].value == "map":
            return "(some (PoolV.hasMap pool))"
        raise Unavailable(f"test `{_show(n)}` is outside the pool-test language")

    def how(self, n):
        if isinstance(n, ast.IfExp):
            return f"(pIf {self.test(n.test)} {self.how(n.body)} {self.how(n.orelse)})"
        if isinstance(n, ast.Name) and n.id == "map":
            return "builtinMap"
        if isinstance(n, ast.Attribute) and n.attr == "map":
            v = n.value
            if self.is_pool(v):
                return "(PoolV.attrMap pool)"
            if isinstance(v, ast.Call) and not v.keywords and len(v.args) == 1:
                ctor = _name(v.func) or ""
                full = self.imports.get(ctor.split(".")[0], ctor.split(".")[0]) + ("." + ctor.split(".", 1)[1] if "." in ctor else "")
                if full.endswith(".Pool") or full == "Pool":
                    self.pool_modules.append(full.rsplit(".", 1)[0] if "." in full else "?")
                    if self.is_pool(v.args[0]):
                        return "(PoolV.newPoolMap pool)"
                    k = _int_lit(v.args[0])
                    if k is not None:
                        return f"(some (HowV.newPoolMap {_int_term(k)}))"
        raise Unavailable(f"strategy expression `{_show(n)}` is outside the language (map | Pool(pool).map | pool.map)")


class NatComp:
    """counter arithmetic over named atoms"""

    def __init__(self, atoms):
        self.atoms = atoms            # dump(expr) → Lean variable
        self.used = []

    def term(self, n):
        d = _dump(n)
        if d in self.atoms:
            v = self.atoms[d]
            if v not in self.used:
                self.used.append(v)
            return v
        k = _int_lit(n)
        if k is not None and k >= 0:
            return str(k)
        if isinstance(n, ast.BinOp) and isinstance(n.op, (ast.Add, ast.Sub, ast.Mult)):
            op = {ast.Add: "+", ast.Sub: "-", ast.Mult: "*"}[type(n.op)]
            a = self.term(n.left)
            b = self.term(n.right)
            return f"({a} {op} {b})"
        raise Unavailable(f"`{_show(n)}` is outside the counter-arithmetic language")

    def test(self, n):
        if isinstance(n, ast.BoolOp):
            return "(" + (" && " if isinstance(n.op, ast.And) else " || ").join(self.test(v) for v in n.values) + ")"
        if isinstance(n, ast.UnaryOp) and isinstance(n.op, ast.Not):
            return f"(!{self.test(n.operand)})"
        if isinstance(n, ast.Compare) and len(n.ops) == 1:
            rel = {ast.Lt: "<", ast.LtE: "≤", ast.Gt: ">", ast.GtE: "≥", ast.Eq: "=", ast.NotEq: "≠"}.get(type(n.ops[0]))
            if rel is not None:
                a = self.term(n.left)
                b = self.term(n.comparators[0])
                return f"(decide ({a} {rel} {b}))"
        raise Unavailable(f"test `{_show(n)}` is outside the counter-test language")


def _tree_term(t, test, leaf, ite="pIf"):
    if isinstance(t, Leaf):
        return leaf(t)
    a = _tree_term(t.yes, test, leaf, ite)
    b = _tree_term(t.no, test, leaf, ite)
    if a == b:
        return a                                   # a test that decides nothing on this quantity leaves no trace
    c = test(t.test)
    if ite == "if":
        return f"(if {c} then {a} else {b})"
    return f"({ite} {c} {a} {b})"


def _class_env(tree, cls):
    for node in tree.body:
        if isinstance(node, ast.ClassDef) and node.name == cls:
            return {f.name: f for f in node.body if isinstance(f, ast.FunctionDef)}
    raise Unavailable(f"class {cls} not found")


def _module_funcs(tree):
    return {f.name: f for f in tree.body if isinstance(f, ast.FunctionDef)}


def _module_consts(tree):
    """module-level `NAME = <literal>` (tuples / lists / dicts / constants), assigned exactly once"""
    out, seen = {}, {}
    for node in tree.body:
        tg = node.targets if isinstance(node, ast.Assign) else [node.target] if isinstance(node, ast.AnnAssign) else []
        for t in tg:
            for x in ast.walk(t):
                if isinstance(x, ast.Name):
                    seen[x.id] = seen.get(x.id, 0) + 1
        if isinstance(node, ast.Assign) and len(node.targets) == 1 and isinstance(node.targets[0], ast.Name):
            v = node.value
            if all(isinstance(x, (ast.Tuple, ast.List, ast.Dict, ast.Constant, ast.UnaryOp, ast.USub, ast.Load)) for x in ast.walk(v)):
                out[node.targets[0].id] = v
    return {k: v for k, v in out.items() if seen.get(k) == 1}


def _params(fdef):
    return [a.arg for a in fdef.args.args if a.arg != "self"]


# ------------------------------------------------------------------------------------------------------ FunctionWrapper
def _wrapper(out):
    tree = _parse("tempest/tools.py")
    meths = _class_env(tree, "FunctionWrapper")
    for m in ("__init__", "__call__"):
        if m not in meths:
            raise Unavailable(f"FunctionWrapper.{m} not found")
    init = meths["__init__"]
    ps = _params(init)
    if len(ps) != 3:
        raise Unavailable(f"FunctionWrapper.__init__: expected three parameters, found {ps}")
    lf = Ev(where="FunctionWrapper.__init__", inline=lambda n: False).run(init)
    if not isinstance(lf, Leaf) or lf.kind != "fall" or lf.eff:
        raise Unavailable("FunctionWrapper.__init__: not straight-line")
    stored = {k: v for k, v in lf.env.items() if k.startswith("self.")}

    def role(v):
        """how an attribute is built from the parameters: ('id', p) | ('default', p, 'list'|'dict')"""
        if isinstance(v, ast.Name) and v.id in ps:
            return ("id", v.id)
        if isinstance(v, ast.IfExp) and isinstance(v.test, ast.Compare) and len(v.test.ops) == 1 \
                and isinstance(v.test.left, ast.Name) and v.test.left.id in ps and _is_none(v.test.comparators[0]):
            p = v.test.left.id
            a, b = (v.body, v.orelse) if isinstance(v.test.ops[0], (ast.Is, ast.Eq)) else \
                   (v.orelse, v.body) if isinstance(v.test.ops[0], (ast.IsNot, ast.NotEq)) else (None, None)
            if a is not None and isinstance(b, ast.Name) and b.id == p:
                if isinstance(a, ast.List) and not a.elts:
                    return ("default", p, "list")
                if isinstance(a, ast.Dict) and not a.keys:
                    return ("default", p, "dict")
        raise Unavailable(f"FunctionWrapper.__init__: `{_show(v)}` is outside the language (p | [] if p is None else p)")
    roles = {k: role(v) for k, v in stored.items()}
    call = meths["__call__"]
    cps = _params(call)
    if len(cps) != 1:
        raise Unavailable("FunctionWrapper.__call__: expected one parameter")
    lf = Ev(where="FunctionWrapper.__call__", inline=lambda n: False).run(call)
    if not isinstance(lf, Leaf) or lf.kind != "ret" or lf.eff or not isinstance(lf.value, ast.Call):
        raise Unavailable("FunctionWrapper.__call__: not a single `return <call>`")
    c = lf.value
    fattr = _name(c.func)
    if roles.get(fattr) != ("id", ps[0]):
        raise Unavailable(f"FunctionWrapper.__call__: `{_show(c.func)}` is not the stored function")
    pos = [a for a in c.args if not isinstance(a, ast.Starred)]
    star = [a.value for a in c.args if isinstance(a, ast.Starred)]
    kws = [k for k in c.keywords]
    if len(pos) != 1 or not (isinstance(pos[0], ast.Name) and pos[0].id == cps[0]) or (c.args and isinstance(c.args[0], ast.Starred)):
        raise Unavailable(f"FunctionWrapper.__call__: `{_show(c)}`: the point is not the first and only positional argument")
    if any(k.arg is not None for k in kws) or len(star) > 1 or len(kws) > 1:
        raise Unavailable(f"FunctionWrapper.__call__: `{_show(c)}` is outside the language f(x, *args, **kwargs)")

    def packed(nodes, kind):
        if not nodes:
            return "[]"
        r = roles.get(_name(nodes[0]))
        if r is None or r[0] != "default" or r[2] != kind:
            raise Unavailable(f"FunctionWrapper.__call__: `{_show(nodes[0])}` is not a stored {kind}")
        return {ps[1]: "(wrapArgs args)", ps[2]: "(wrapKwargs kwargs)"}.get(r[1]) or _unav(f"`{_show(nodes[0])}` holds parameter {r[1]}")
    a_term = packed(star, "list")
    k_term = packed([k.value for k in kws], "dict")
    if a_term not in ("[]", "(wrapArgs args)") or k_term not in ("[]", "(wrapKwargs kwargs)"):
        raise Unavailable("FunctionWrapper.__call__: positional / keyword extras are crossed")
    out += ["/-- FunctionWrapper.__init__: the stored positional extras (`[] if args is None else args`) -/",
            "def wrapArgs {A : Type} (args : Option (List A)) : List A := match args with | none => [] | some v => v", "",
            "/-- FunctionWrapper.__init__: the stored keyword extras (`{} if kwargs is None else kwargs`) -/",
            "def wrapKwargs {A : Type} (kwargs : Option (List (String × A))) : List (String × A) := match kwargs with | none => [] | some v => v", "",
            f"/-- FunctionWrapper.__call__: `return {_show(c)}` -/",
            "def wrapCall {X A R : Type} (f : X → List A → List (String × A) → R) (args : Option (List A)) "
            "(kwargs : Option (List (String × A))) (x : X) : R :=",
            f"  f x {a_term} {k_term}", ""]
    return 3


def _unav(msg):
    raise Unavailable(msg)


# ---------------------------------------------------------------------------------------------- core.py: dispatch, assembly
POOL = ast.parse("self.config.pool", mode="eval").body
VEC = ast.parse("self.config.vectorize", mode="eval").body
USERF = ast.parse("self.config.log_likelihood", mode="eval").body


def _core(out):
    tree = _parse("tempest/core.py")
    meths = _class_env(tree, "SamplerCore")
    funcs = _module_funcs(tree)
    for m in ("_get_distribute_func", "_log_like", "run_sampling", "_initialize_fresh", "load_sampler_state"):
        if m not in meths:
            raise Unavailable(f"SamplerCore.{m} not found")
    n = 0

    # ---- _get_distribute_func
    ev = Ev(meths, funcs, where="SamplerCore._get_distribute_func", branch_all=True)
    t = ev.run(meths["_get_distribute_func"])
    pc = PoolComp(_dump(POOL), _dump(VEC), ev.imports)

    def dleaf(lf):
        if lf.kind != "ret":
            raise Unavailable(f"_get_distribute_func: a path ends with {lf.kind}")
        if any(kind != "call" or "Pool" not in _show(node) for _g, kind, node, _k in lf.eff):
            raise Unavailable("_get_distribute_func: a path has effects")
        return pc.how(lf.value)
    body = _tree_term(t, pc.test, dleaf)
    out += ["/-- SamplerCore._get_distribute_func, every path: which callable is returned for which value of `self.config.pool` -/",
            f"def getDistribute (pool : PoolV) : Option HowV :=\n  {body}", ""]
    n += 1

    # ---- _log_like, phase 1: up to the list of per-point results
    ll = meths["_log_like"]
    xs = _params(ll)
    if len(xs) != 1:
        raise Unavailable("_log_like: expected one parameter")
    stmts = [s for s in ll.body if not _is_doc(s)]
    split = None
    for k in range(1, len(stmts) + 1):
        ev = Ev(meths, funcs, where="SamplerCore._log_like", branch_all=True)
        try:
            t1 = ev.run(ast.FunctionDef(name="_log_like", args=ll.args, body=stmts[:k], decorator_list=[]))
        except Unavailable:
            break
        falls = [lf for lf in _leaves(t1) if lf.kind == "fall"]
        if not falls:
            continue
        names = None
        for lf in falls:
            mine = {nm for nm, v in lf.env.items() if _results_of(v, xs[0]) is not None}
            names = mine if names is None else names & mine
        if names:
            split = (k, sorted(names)[0], t1, ev)
            break
    if split is None:
        raise Unavailable("_log_like: no point where a local holds list(<strategy>(self.config.log_likelihood, x)) on every path")
    k, rname, t1, ev = split
    pc = PoolComp(_dump(POOL), _dump(VEC), ev.imports)
    direct = []

    def lleaf(lf):
        if lf.kind == "ret":
            v = lf.value
            if isinstance(v, ast.Tuple) and len(v.elts) == 2 and _is_none(v.elts[1]) and isinstance(v.elts[0], ast.Call) \
                    and _dump(v.elts[0].func) == _dump(USERF) and len(v.elts[0].args) == 1 and not v.elts[0].keywords \
                    and isinstance(v.elts[0].args[0], ast.Name) and v.elts[0].args[0].id == xs[0]:
                direct.append(_show(v))
                return "(some HowV.direct)"
            raise Unavailable(f"_log_like: early `return {_show(v)}` is not `self.config.log_likelihood(x), None`")
        if lf.kind != "fall":
            raise Unavailable(f"_log_like: a path ends with {lf.kind} before the results exist")
        return pc.how(_results_of(lf.env[rname], xs[0]))
    body = _tree_term(t1, pc.test, lleaf)
    out += ["/-- SamplerCore._log_like, up to `results = list(<strategy>(self.config.log_likelihood, x))`: the strategy on every path "
            "(`_get_distribute_func` inlined) -/",
            f"def logLikeHow (vectorize : Bool) (pool : PoolV) : Option HowV :=\n  {body}", ""]
    mods = sorted(set(pc.pool_modules))
    out += ["/-- where `Pool` is imported from -/", f'def poolModule : List String := [{", ".join(chr(34) + _safe(m) + chr(34) for m in mods)}]', ""]
    if direct:
        out += [f"/-- the vectorised path: `return {direct[0]}` -/",
                "def directOut {X Y B : Type} (fvec : List X → List Y) (xs : List X) : Out Y B := ⟨fvec xs, none⟩", ""]
    else:
        out += ["/-- no vectorised path in the source -/",
                "def directOut {X Y B : Type} (_fvec : List X → List Y) (_xs : List X) : Out Y B := ⟨[], none⟩", ""]
    n += 2

    # ---- _log_like, phase 2: from the results to the returned pair
    ev = Ev(meths, funcs, where="SamplerCore._log_like")
    R = _atom("results")
    t2 = ev.run(ast.FunctionDef(name="_log_like", args=ll.args, body=stmts[k:], decorator_list=[]), {rname: R})
    rc = ResComp()

    def aleaf(lf):
        if lf.kind != "ret" or not (isinstance(lf.value, ast.Tuple) and len(lf.value.elts) == 2):
            raise Unavailable(f"_log_like: a path after the results does not end with `return <logl>, <blobs>` ({lf.kind})")
        if any(kind == "eval" or (kind == "opaque" and cnt) for _g, kind, _n, cnt in lf.eff):
            raise Unavailable("_log_like: the likelihood is called again after the results exist")
        logl = rc.logl(lf.value.elts[0])
        b = lf.value.elts[1]
        if _is_none(b):
            return f"(({logl}).map fun l => (⟨l, none⟩ : Out Y B))"
        rows = rc.rows(b)
        return f"(({rows}).bind fun rows => ({logl}).bind fun l => (mk rows).map fun b => (⟨l, some b⟩ : Out Y B))"
    body = _tree_term(t2, rc.test, aleaf)
    btest = _tree_term(t2, rc.test, lambda lf: "(some false)" if _is_none(lf.value.elts[1]) else "(some true)")
    out += ["/-- when `_log_like` takes the path that returns a blobs array (the source's test on the first result) -/",
            f"def blobTest {{Y B : Type}} (rs : List (Res Y B)) : Option Bool :=\n  {btest}", "",
            "/-- SamplerCore._log_like after the results exist: the returned pair on every path; `mk` stands for the numpy part "
            "(dtype choice, `np.array(rows, dtype)`, squeeze of unit axes) applied to the blob rows -/",
            f"def assemble {{Y B : Type}} (mk : List (List B) → Option (Blobs B)) (rs : List (Res Y B)) : Option (Out Y B) :=\n  {body}", ""]
    n += 2

    # ---- run_sampling: how a run starts
    rs = meths["run_sampling"]
    ev = Ev(meths, funcs, where="SamplerCore.run_sampling", tracked=(),
            inline=lambda nm: nm not in ("_initialize_from_resume", "_initialize_fresh", "execute_iteration", "_not_termination"))
    t3 = ev.run(rs)
    inits = []
    for lf in _leaves(t3):
        for g, kind, node, _k in lf.eff:
            if kind == "call" and _name(node.func) in ("self._initialize_from_resume", "self._initialize_fresh"):
                key = (tuple((_dump(t), p) for t, p in g), _name(node.func))
                if key not in [(a, b) for a, b, _c in inits]:
                    inits.append((key[0], key[1], g))
    if not inits:
        raise Unavailable("run_sampling: no call of _initialize_from_resume / _initialize_fresh")
    path_params = {node.args[0].id for lf in _leaves(t3) for _g, kind, node, _k in lf.eff
                   if kind == "call" and _name(node.func) == "self._initialize_from_resume" and len(node.args) == 1
                   and isinstance(node.args[0], ast.Name) and node.args[0].id in _params(rs)}
    sc = NatComp({_dump(ast.parse("self.state.get_history_length()", mode="eval").body): "historyLength"})

    def stest(tn):
        if isinstance(tn, ast.Compare) and len(tn.ops) == 1 and isinstance(tn.left, ast.Name) and tn.left.id in path_params \
                and _is_none(tn.comparators[0]):
            if isinstance(tn.ops[0], (ast.IsNot, ast.NotEq)):
                return "havePath"
            if isinstance(tn.ops[0], (ast.Is, ast.Eq)):
                return "(!havePath)"
        return sc.test(tn)

    def build(items, depth):
        """decision over the guards of the initialisation calls: items = [(guards, name)] all compatible with the path so far"""
        tests = [g[depth] for g, _n in items if len(g) > depth]
        if not tests:
            names = {nm for _g, nm in items}
            return f"(startOf {'true' if 'self._initialize_from_resume' in names else 'false'} " \
                   f"{'true' if 'self._initialize_fresh' in names else 'false'})"
        t0 = tests[0][0]
        d0 = _dump(t0)
        for g, _n in items:
            if len(g) > depth and _dump(g[depth][0]) != d0:
                raise Unavailable("run_sampling: the initialisation calls are not guarded by one chain of tests")
        yes = [(g, nm) for g, nm in items if len(g) > depth and g[depth][1]]
        no = [(g, nm) for g, nm in items if len(g) > depth and not g[depth][1]]
        here = [(g, nm) for g, nm in items if len(g) <= depth]
        return f"(if {stest(t0)} then {build(yes + here, depth + 1)} else {build(no + here, depth + 1)})"
    body = build([(g, nm) for _k, nm, g in inits], 0)
    out += ["/-- SamplerCore.run_sampling: which initialisation runs, by the tests that guard `_initialize_from_resume` / `_initialize_fresh` -/",
            f"def startKind (havePath : Bool) (historyLength : Nat) : Option Model.CallsRun.StartKind :=\n  {body}", ""]
    n += 1

    # ---- initial values of `calls`
    consts = _module_consts(tree)
    ev = Ev(meths, funcs, where="SamplerCore._initialize_fresh", inline=lambda nm: False, tracked=())
    t4 = ev.run(meths["_initialize_fresh"], {k: v for k, v in consts.items() if isinstance(v, (ast.Tuple, ast.List))})
    vals = set()
    for lf in _leaves(t4):
        mine = [v for v in _calls_writes(lf.eff) if True]
        if len(mine) != 1 or mine[0][0]:
            raise Unavailable("_initialize_fresh: `calls` is not written exactly once, unconditionally, on every path")
        vals.add(_int_lit(mine[0][1]))
    if len(vals) != 1 or None in vals or min(vals) < 0:
        raise Unavailable("_initialize_fresh: the initial value of `calls` is not one natural-number literal")
    out += ["/-- SamplerCore._initialize_fresh: `set_current('calls', …)` -/", f"def freshCalls : Nat := {vals.pop()}", ""]
    dflt = []
    reach, todo = [], ["load_sampler_state"]
    while todo and len(reach) < 8:                      # load_sampler_state and the private helpers it calls
        m = todo.pop()
        if m in reach or m not in meths:
            continue
        reach.append(m)
        todo += [_name(c.func)[5:] for c in ast.walk(meths[m]) if isinstance(c, ast.Call) and (_name(c.func) or "").startswith("self._")
                 and (_name(c.func) or "").count(".") == 1]
    nodes = [x for m in reach for x in ast.walk(meths[m])]
    used = {x.id for x in nodes if isinstance(x, ast.Name)}
    for nd in nodes + [v for k, v in consts.items() if k in used]:
        if isinstance(nd, ast.Dict):
            for kk, vv in zip(nd.keys, nd.values):
                if isinstance(kk, ast.Constant) and kk.value == "calls":
                    dflt.append(_int_lit(vv))
    if len(dflt) != 1 or dflt[0] is None or dflt[0] < 0:
        raise Unavailable("load_sampler_state: the default of `calls` is not one natural-number literal in a dict")
    out += ["/-- SamplerCore.load_sampler_state: the default of `calls` for a state file without it -/",
            f"def resumeDefaultCalls : Nat := {dflt[0]}", ""]
    n += 2
    return n


def _results_of(v, x):
    """`list(F(self.config.log_likelihood, x))` → F (conditional expressions are followed), else None"""
    if isinstance(v, ast.IfExp):
        a, b = _results_of(v.body, x), _results_of(v.orelse, x)
        return None if a is None or b is None else ast.IfExp(test=v.test, body=a, orelse=b)
    if _is_call(v, "list", 1):
        c = v.args[0]
        if isinstance(c, ast.Call) and not c.keywords and len(c.args) == 2 and _dump(c.args[0]) == _dump(USERF) \
                and isinstance(c.args[1], ast.Name) and c.args[1].id == x:
            return c.func
    return None


def _calls_writes(eff):
    """[(guards, value)] for every write of the current-state key 'calls' among the effects, in order"""
    out = []
    for g, kind, node, _k in eff:
        if kind != "call":
            continue
        fn = _name(node.func) or ""
        if fn.endswith(".set_current") and node.args and isinstance(node.args[0], ast.Constant) and node.args[0].value == "calls":
            if len(node.args) < 2:
                raise Unavailable("set_current('calls') without a value")
            out.append((g, node.args[1]))
        elif fn.endswith(".update_current") and node.args:
            a = node.args[0]
            if isinstance(a, ast.Dict):
                for kk, vv in zip(a.keys, a.values):
                    if kk is None:
                        raise Unavailable("update_current({**…}): keys not readable")
                    if isinstance(kk, ast.Constant) and kk.value == "calls":
                        out.append((g, vv))
            elif "calls" in ast.dump(a):
                raise Unavailable(f"`{_show(node)}`: a write of 'calls' the translator cannot read")
    return out


class ResComp:
    """tests on the list of per-point results and the per-item expressions of the two comprehensions"""

    def elem(self, n):
        """an expression denoting ONE per-point result of the list → Lean term of type Option (Res Y B)"""
        if isinstance(n, ast.Subscript) and _is_atom(n.value, "results"):
            k = _int_lit(n.slice)
            if k is not None and k >= 0:
                return f"(rs[{k}]?)"
        raise Unavailable(f"`{_show(n)}` is not an element of the results")

    def test(self, n):
        if isinstance(n, ast.BoolOp):
            return _fold("pAnd" if isinstance(n.op, ast.And) else "pOr", [self.test(v) for v in n.values])
        if isinstance(n, ast.UnaryOp) and isinstance(n.op, ast.Not):
            return f"(pNot {self.test(n.operand)})"
        if isinstance(n, ast.IfExp):
            return f"(pIf {self.test(n.test)} {self.test(n.body)} {self.test(n.orelse)})"
        if isinstance(n, ast.Constant) and isinstance(n.value, bool):
            return f"(some {'true' if n.value else 'false'})"
        if _is_atom(n, "results"):
            return "(some (!rs.isEmpty))"
        if isinstance(n, ast.Call) and _name(n.func) == "bool" and len(n.args) == 1 and not n.keywords:
            return self.test(n.args[0])
        if isinstance(n, ast.Call) and _name(n.func) == "isinstance" and len(n.args) == 2 and not n.keywords:
            cl = n.args[1]
            names = [_name(e) for e in cl.elts] if isinstance(cl, ast.Tuple) else [_name(cl)]
            if any(c is None or not c.isidentifier() for c in names):
                raise Unavailable(f"`{_show(n)}`: classes not readable")
            lst = ", ".join(f'"{c}"' for c in names)
            return f"(({self.elem(n.args[0])}).map fun r => Res.isInst r [{lst}])"
        if isinstance(n, ast.Compare) and len(n.ops) == 1:
            l, r = n.left, n.comparators[0]
            rel = {ast.Lt: "<", ast.LtE: "≤", ast.Gt: ">", ast.GtE: "≥", ast.Eq: "=", ast.NotEq: "≠"}.get(type(n.ops[0]))
            k = _int_lit(r)
            if rel is not None and k is not None and k >= 0 and isinstance(l, ast.Call) and _name(l.func) == "len" and len(l.args) == 1:
                if _is_atom(l.args[0], "results"):
                    return f"(some (decide (rs.length {rel} {k})))"
                return f"((({self.elem(l.args[0])}).bind Res.len?).map fun n => decide (n {rel} {k}))"
        raise Unavailable(f"test `{_show(n)}` is outside the result-test language")

    def _comp(self, n):
        """`[elt for v in results]` (possibly wrapped in np.array / np.asarray / list) → (elt, v)"""
        while isinstance(n, ast.Call) and _name(n.func) in ("np.array", "np.asarray", "numpy.array", "list") and len(n.args) == 1 \
                and not n.keywords:
            n = n.args[0]
        if isinstance(n, (ast.ListComp, ast.GeneratorExp)) and len(n.generators) == 1:
            g = n.generators[0]
            if not g.ifs and isinstance(g.target, ast.Name) and _is_atom(g.iter, "results"):
                return n.elt, g.target.id
        return None

    def logl(self, n):
        c = self._comp(n)
        if c is None:
            raise Unavailable(f"`{_show(n)}` is not np.array([… for item in results])")
        elt, v = c
        if isinstance(elt, ast.Call) and _name(elt.func) == "float" and len(elt.args) == 1 and not elt.keywords:
            a = elt.args[0]
            if isinstance(a, ast.Name) and a.id == v:
                return "allSome (rs.map fun item => Res.float? item)"
            if isinstance(a, ast.Subscript) and isinstance(a.value, ast.Name) and a.value.id == v:
                k = _int_lit(a.slice)
                if k is not None and k >= 0:
                    return f"allSome (rs.map fun item => Res.floatAt? item {k})"
        raise Unavailable(f"per-point log-likelihood `{_show(elt)}` is outside the language float(item) | float(item[k])")

    def rows(self, n):
        comps = {}
        inside = set()
        for x in ast.walk(n):
            c = self._comp(x) if isinstance(x, (ast.ListComp, ast.GeneratorExp)) else None
            if c is not None:
                comps[_dump(x)] = c
                inside |= {id(y) for y in ast.walk(x)}
        for x in ast.walk(n):
            if _is_atom(x, "results") and id(x) not in inside:
                raise Unavailable("the blobs array reads the results outside the row comprehension")
        if len(comps) != 1:
            raise Unavailable(f"the blobs array is built from {len(comps)} different comprehensions over the results")
        elt, v = next(iter(comps.values()))
        if isinstance(elt, ast.Subscript) and isinstance(elt.value, ast.Name) and elt.value.id == v and isinstance(elt.slice, ast.Slice) \
                and elt.slice.upper is None and elt.slice.step is None and elt.slice.lower is not None:
            k = _int_lit(elt.slice.lower)
            if k is not None and k >= 0:
                return f"allSome (rs.map fun item => Res.tailFrom? item {k})"
        raise Unavailable(f"per-point blob row `{_show(elt)}` is outside the language item[k:]")


# ------------------------------------------------------------------------------------------------------------------ mcmc.py
def _mcmc(out):
    tree = _parse("tempest/mcmc.py")
    meths = _class_env(tree, "BaseMCMCRunner")
    for m in ("__init__", "_evaluate_likelihood", "run"):
        if m not in meths:
            raise Unavailable(f"BaseMCMCRunner.{m} not found")
    n = 0
    # ---- n_calls at construction
    ev = Ev(meths, {}, where="BaseMCMCRunner.__init__", inline=lambda nm: False)
    vals = set()
    for lf in _leaves(ev.run(meths["__init__"])):
        if lf.kind == "raise":
            continue
        v = lf.env.get("self.n_calls")
        vals.add(None if v is None else _int_lit(v))
    if len(vals) != 1 or None in vals or min(vals) < 0:
        raise Unavailable("BaseMCMCRunner.__init__: self.n_calls is not set to one natural-number literal on every path")
    out += ["/-- BaseMCMCRunner.__init__: `self.n_calls = …` -/", f"def nCallsInit : Nat := {vals.pop()}", ""]
    n += 1
    # ---- _evaluate_likelihood
    f = meths["_evaluate_likelihood"]
    ps = _params(f)
    if len(ps) != 1:
        raise Unavailable("_evaluate_likelihood: expected one parameter")
    ev = Ev(meths, {}, where="BaseMCMCRunner._evaluate_likelihood", branch_all=True)
    t = ev.run(f)
    if ev.loops:
        raise Unavailable("_evaluate_likelihood: loop")
    nc = NatComp({_dump(ast.parse("self.n_calls", mode="eval").body): "nCalls",
                  _dump(ast.parse("self.n_walkers", mode="eval").body): "nWalkers"})
    blobs_attr = _dump(ast.parse("self.blobs", mode="eval").body)

    def etest(tn):
        if isinstance(tn, ast.UnaryOp) and isinstance(tn.op, ast.Not):
            return f"(!{etest(tn.operand)})"
        if isinstance(tn, ast.Compare) and len(tn.ops) == 1 and _dump(tn.left) == blobs_attr and _is_none(tn.comparators[0]):
            if isinstance(tn.ops[0], (ast.IsNot, ast.NotEq)):
                return "haveBlobs"
            if isinstance(tn.ops[0], (ast.Is, ast.Eq)):
                return "(!haveBlobs)"
        raise Unavailable(f"_evaluate_likelihood: test `{_show(tn)}` is outside the language (self.blobs is [not] None)")

    the_call = _dump(ast.parse(f"self.log_likelihood({ps[0]})", mode="eval").body)

    def comp(v, k):
        if _is_none(v):
            return "none" if k == 1 else None
        if _is_call(v, AT + "proj", 3) and _dump(v.args[0]) == the_call and v.args[2].value == 2 and v.args[1].value == k:
            return "o.logl" if k == 0 else "o.blobs"
        return None
    counts = []

    def eleaf(lf):
        if lf.kind != "ret" or not (isinstance(lf.value, ast.Tuple) and len(lf.value.elts) == 2):
            raise Unavailable("_evaluate_likelihood: a path does not end with `return <logl>, <blobs>`")
        evals = [e for e in lf.eff if e[1] == "eval"]
        if any(e[1] == "opaque" and e[3] for e in lf.eff) or any(_dump(e[2]) != the_call for e in evals):
            raise Unavailable("_evaluate_likelihood: the likelihood is called in a way the translator cannot read")
        counts.append(len(evals))
        a, b = comp(lf.value.elts[0], 0), comp(lf.value.elts[1], 1)
        if a is None or b is None:
            raise Unavailable(f"_evaluate_likelihood: `return {_show(lf.value)}` is not built from the two components of "
                              f"self.log_likelihood({ps[0]})")
        cnt = nc.term(lf.env.get("self.n_calls", ast.parse("self.n_calls", mode="eval").body))
        if len(evals) == 0:
            raise Unavailable("_evaluate_likelihood: a path returns without calling the likelihood")
        return f"((ll xPrime).map fun o => ({a}, {b}, {cnt}))"
    body = _tree_term(t, etest, eleaf, ite="if")
    out += ["/-- BaseMCMCRunner._evaluate_likelihood, every path: (logl', blobs', n_calls') -/",
            "def evalLik {X Y B : Type} (haveBlobs : Bool) (ll : List X → Option (Out Y B)) (xPrime : List X) (nCalls nWalkers : Nat) :\n"
            f"    Option (List Y × Option (Blobs B) × Nat) :=\n  {body}", "",
            "/-- number of `self.log_likelihood(x_prime)` calls on the path with the most / the fewest -/",
            f"def evalLikCallsMax : Nat := {max(counts)}", f"def evalLikCallsMin : Nat := {min(counts)}", ""]
    n += 1
    # ---- the counter alone (what one call of _evaluate_likelihood adds)
    cnts = {nc.term(lf.env.get("self.n_calls", ast.parse("self.n_calls", mode="eval").body)) for lf in _leaves(t)}
    if len(cnts) != 1:
        raise Unavailable("_evaluate_likelihood: the counter is advanced differently on different paths")
    out += ["/-- `self.n_calls` after one `_evaluate_likelihood` -/", f"def nCallsStep (nCalls nWalkers : Nat) : Nat := {cnts.pop()}", ""]
    n += 1
    # ---- where n_calls sits in what `run` returns
    rets = [s for s in _walk_same_scope(meths["run"]) if isinstance(s, ast.Return)]
    if len(rets) != 1 or not isinstance(rets[0].value, ast.Tuple):
        raise Unavailable("BaseMCMCRunner.run: expected one `return (…)`")
    slots = [k for k, e in enumerate(rets[0].value.elts) if _name(e) == "self.n_calls"]
    if len(slots) != 1:
        raise Unavailable("BaseMCMCRunner.run: self.n_calls is not returned exactly once")
    out += ["/-- BaseMCMCRunner.run: position of `self.n_calls` in the returned tuple, and its length -/",
            f"def runNCallsSlot : Nat := {slots[0]}", f"def runArity : Nat := {len(rets[0].value.elts)}", ""]
    # ---- parallel_mcmc and the two kernels hand the runner's tuple on unchanged
    funcs = _module_funcs(tree)
    chain = []
    for fname in ("parallel_mcmc", "parallel_random_walk_metropolis", "parallel_t_preconditioned_crank_nicolson"):
        if fname not in funcs:
            raise Unavailable(f"mcmc.py: {fname} not found")
        ev = Ev({}, {}, where=fname, inline=lambda nm: False, tracked=(), branch_all=True)
        for lf in _leaves(ev.run(funcs[fname])):
            if lf.kind == "raise":
                continue
            if lf.kind != "ret" or not isinstance(lf.value, ast.Call):
                raise Unavailable(f"{fname}: a path does not end with `return <call>`")
            fn = lf.value.func
            callee = _name(fn) if not isinstance(fn, ast.Attribute) or _name(fn) else None
            if isinstance(fn, ast.Attribute) and fn.attr == "run" and isinstance(fn.value, ast.Call):
                callee = (_name(fn.value.func) or "?") + "(…).run"
            chain.append(f"{fname} -> {_safe(callee or _show(fn))}")
    chain = sorted(set(chain))
    out += ["/-- what `parallel_mcmc` and the two kernel functions return: the callee's result, unchanged -/",
            "def mcmcReturnChain : List String :=\n  [" + ",\n   ".join(f'"{c}"' for c in chain) + "]", ""]
    return n


# ----------------------------------------------------------------------------------------------------------------- mutate.py
def _mutate(out):
    tree = _parse("tempest/steps/mutate.py")
    meths = _class_env(tree, "Mutator")
    if "run" not in meths:
        raise Unavailable("Mutator.run not found")
    ev = Ev(meths, _module_funcs(tree), where="Mutator.run")
    t = ev.run(meths["run"])
    calls_read = _dump(ast.parse("self.state.get_current('calls')", mode="eval").body)
    beta_read = _dump(ast.parse("self.state.get_current('beta')", mode="eval").body)

    def is_warm(tn):
        """`beta == 0.0` → True (positive) / `beta != 0.0` → False / anything else None"""
        if isinstance(tn, ast.Compare) and len(tn.ops) == 1 and _dump(tn.left) == beta_read \
                and isinstance(tn.comparators[0], ast.Constant) and tn.comparators[0].value == 0 \
                and not isinstance(tn.comparators[0].value, bool):
            return True if isinstance(tn.ops[0], ast.Eq) else False if isinstance(tn.ops[0], ast.NotEq) else None
        return None
    # final value of state['calls'] per leaf, and the loops met on the way
    per = []
    for lf in _leaves(t):
        if lf.kind == "raise":
            continue
        w = _calls_writes(lf.eff)
        warm = None
        for tn, pol in lf.path:
            iw = is_warm(tn)
            if iw is not None:
                warm = (iw == pol)
        if warm is None:
            raise Unavailable("Mutator.run: a path is not under the warm-up test `get_current('beta') == 0.0`")
        if len(w) != 1:
            raise Unavailable(f"Mutator.run: a path writes state['calls'] {len(w)} times")
        extra = [g for g in w[0][0] if is_warm(g[0]) is None]
        if extra:
            raise Unavailable(f"Mutator.run: the write of state['calls'] is conditional on `{_show(extra[0][0])}`")
        loops = [e[3] for e in lf.eff if e[1] == "loop"]
        evals = sum(e[3] for e in lf.eff if e[1] in ("eval",))
        if any(e[1] == "opaque" and e[3] for e in lf.eff):
            raise Unavailable("Mutator.run: the likelihood is called inside a statement the translator does not interpret")
        per.append((warm, w[0][1], loops, evals, lf))
    warm_leaves = [p for p in per if p[0]]
    cold_leaves = [p for p in per if not p[0]]
    if not warm_leaves or not cold_leaves:
        raise Unavailable("Mutator.run: warm-up or annealing path missing")
    n = 0
    # ---- warm-up
    wvals = {_dump(p[1]) for p in warm_leaves}
    wloops = {tuple(p[2]) for p in warm_leaves}
    if len(wvals) != 1 or len(wloops) != 1:
        raise Unavailable("Mutator.run: the warm-up paths disagree on the counter update or on the loops")
    lps = wloops.pop()
    wval = warm_leaves[0][1]
    atoms = {calls_read: "calls", _dump(ast.parse("self.n_particles", mode="eval").body): "nP"}
    if len(lps) == 1:
        info = ev.loops[lps[0]]
        def countable(c):
            """a loop-carried variable that is a natural-number counter: its value before the loop and after one pass are
               counter arithmetic over itself and n_particles"""
            if c not in info["pre"]:
                return False
            try:
                NatComp(dict(atoms)).term(info["pre"][c])
                la0 = dict(atoms)
                la0[_dump(_atom(f"loop{info['k']}.{c}"))] = "nDrawn"
                for lf0 in _leaves(info["tree"]):
                    if lf0.kind in ("fall", "continue"):
                        NatComp(la0).term(lf0.env[c])
                return True
            except Unavailable:
                return False
        cands = [c for c in info["carried"] if any(_is_atom(x, f"after{info['k']}.{c}") for x in ast.walk(wval))]
        if len(cands) > 1:
            raise Unavailable("Mutator.run: the warm-up counter update reads more than one loop-carried variable")
        if not cands:
            # the value written to `calls` does not depend on the loop: the counter, if there is one, is the loop-carried
            # natural number (the generated `warmCalls` then ignores it, and the theorems about it fail)
            cands = [c for c in info["carried"] if countable(c)]
            if len(cands) > 1:
                raise Unavailable("Mutator.run: more than one loop-carried counter in the redraw loop")
        if cands:
            c = cands[0]
            if c not in info["pre"]:
                raise Unavailable(f"Mutator.run: `{c}` has no value before the redraw loop")
            nc = NatComp(dict(atoms))
            out += ["/-- Mutator.run, warm-up: the value of the loop-carried counter before the redraw loop -/",
                    f"def nDrawnInit (nP : Nat) : Nat := {nc.term(info['pre'][c])}", "",
                    "/-- a loop-carried counter exists -/", "def counterCarried : Bool := true", ""]
        else:
            c = AT + "nocounter"
            out += ["/-- Mutator.run, warm-up: NO loop-carried counter in the redraw loop (nothing the loop changes is a natural number) -/",
                    "def nDrawnInit (nP : Nat) : Nat := 0", "", "def counterCarried : Bool := false", ""]
        la = dict(atoms)
        la[_dump(_atom(f"loop{info['k']}.{c}"))] = "nDrawn"
        nl = NatComp(la)
        body_evals = []

        def wleaf(lf):
            if lf.kind == "raise":
                body_evals.append(("raise", sum(e[3] for e in lf.eff if e[1] == "eval")))
                return "none"
            if lf.kind not in ("fall", "continue"):
                raise Unavailable(f"Mutator.run: the redraw loop has a `{lf.kind}` path")
            if any(e[1] == "opaque" and e[3] for e in lf.eff):
                raise Unavailable("Mutator.run: the likelihood is called inside an uninterpreted statement of the redraw loop")
            body_evals.append(("pass", sum(e[3] for e in lf.eff if e[1] == "eval")))
            return f"(some {nl.term(lf.env[c])})" if c in lf.env else "(some nDrawn)"
        body = _tree_term(info["tree"], nl.test, wleaf, ite="if")
        out += ["/-- one pass of the redraw `while` loop: `none` = the cap is reached (ValueError), else the new value of the counter -/",
                f"def warmStep (nDrawn nP : Nat) : Option Nat :=\n  {body}", ""]
        passes = sorted({k for tag, k in body_evals if tag == "pass"})
        raises = sorted({k for tag, k in body_evals if tag == "raise"})
        out += ["/-- likelihood calls in one pass of the redraw loop (paths that complete the pass), and before the ValueError -/",
                f"def warmPassEvals : List Nat := [{', '.join(map(str, passes))}]",
                f"def warmRaiseEvals : List Nat := [{', '.join(map(str, raises))}]",
                f"def warmTestEvals : Nat := {info['test_evals']}", ""]
        na = dict(atoms)
        na[_dump(_atom(f"after{info['k']}.{c}"))] = "nDrawn"
        n += 2
    elif len(lps) == 0:
        na = dict(atoms)
        out += ["/-- Mutator.run, warm-up: no redraw loop in the source -/", "def nDrawnInit (nP : Nat) : Nat := 0", "",
                "def counterCarried : Bool := false", "",
                "def warmStep (_nDrawn _nP : Nat) : Option Nat := none", "",
                "def warmPassEvals : List Nat := []", "def warmRaiseEvals : List Nat := []", "def warmTestEvals : Nat := 0", ""]
    else:
        raise Unavailable("Mutator.run: more than one loop on the warm-up path")
    nw = NatComp(na)
    wterm = nw.term(wval)
    # likelihood calls outside the loop on the warm-up path
    wev = sorted({p[3] for p in warm_leaves})
    out += ["/-- Mutator.run, warm-up: the value written to state['calls'] (`calls` = the value read from the state, "
            "`nDrawn` = the loop counter after the loop) -/",
            f"def warmCalls (calls nDrawn nP : Nat) : Nat := {wterm}", "",
            "/-- likelihood calls on the warm-up path outside the redraw loop -/",
            f"def warmOutsideEvals : List Nat := [{', '.join(map(str, wev))}]", ""]
    n += 1
    # ---- annealing
    cvals = {_dump(p[1]) for p in cold_leaves}
    if len(cvals) != 1 or any(p[2] for p in cold_leaves):
        raise Unavailable("Mutator.run: the annealing paths disagree on the counter update (or contain a loop)")
    cval = cold_leaves[0][1]
    projs = [x for x in ast.walk(cval) if _is_call(x, AT + "proj", 3) and isinstance(x.args[0], ast.Call)
             and _name(x.args[0].func) == "parallel_mcmc"]
    if len({_dump(x) for x in projs}) != 1:
        raise Unavailable("Mutator.run: the annealing counter update does not read exactly one component of parallel_mcmc(…)")
    pr = projs[0]
    kw = [k for k in pr.args[0].keywords if k.arg == "log_likelihood"]
    ca = dict(atoms)
    ca[_dump(pr)] = "mcmcCalls"
    ncold = NatComp(ca)
    out += ["/-- Mutator.run, annealing: the value written to state['calls'] (`mcmcCalls` = the component of what parallel_mcmc "
            "returned that the source reads) -/",
            f"def mcmcCalls (calls mcmcCalls nP : Nat) : Nat := {ncold.term(cval)}", "",
            "/-- which component of parallel_mcmc's result that is, and how many components are unpacked -/",
            f"def mutateCallsSlot : Nat := {pr.args[1].value}", f"def mutateArity : Nat := {pr.args[2].value}", "",
            "/-- what parallel_mcmc receives as `log_likelihood` -/",
            f'def mcmcLikelihoodArg : String := "{_show(kw[0].value) if len(kw) == 1 else "?"}"', "",
            "/-- likelihood calls made by Mutator.run itself on the annealing path -/",
            f"def coldOutsideEvals : List Nat := [{', '.join(map(str, sorted({p[3] for p in cold_leaves})))}]", ""]
    n += 1
    return n


# ------------------------------------------------------------------------------------------------------------------ driver
def extract():
    out = []
    n = _wrapper(out)
    n += _core(out)
    n += _mcmc(out)
    n += _mutate(out)
    return out, n


def render(body):
    L = ["/- GENERATED by translate/g21_loglike.py from /repo's current source — do not edit. -/",
         "import TempestVerif.Model.LLPy", "set_option linter.unusedVariables false", "namespace Gen.LogLikeSrc", "open Model.LLEval Model.LLPy", ""]
    L += body
    L += ["end Gen.LogLikeSrc", ""]
    return "\n".join(L)


def generate():
    try:
        body, n = extract()
    except Unavailable as e:
        return (NAME, "unavailable", _safe(str(e)))
    except (SyntaxError, OSError, RecursionError) as e:
        return (NAME, "unavailable", _safe(f"{type(e).__name__}: {e}"))
    except (KeyError, AttributeError, TypeError, IndexError, ValueError) as e:      # a source shape nobody anticipated
        return (NAME, "unavailable", _safe(f"the source has a shape the translator does not read ({type(e).__name__}: {e})"))
    changed = common.write_if_changed(os.path.join(common.GEN, "LogLikeSrc.lean"), render(body))
    return (NAME, "ok", f"{'re' if changed else ''}generated Gen/LogLikeSrc.lean ({n} source-derived definitions)")


if __name__ == "__main__":
    print(generate())
