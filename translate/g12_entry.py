"""G12 — the entry of `run_sampling`, where `n_total` is written and read, and the glue of `compute_posterior`
(blob gate, guarded blob gathers, return selector), regenerated from /repo's source (Python `ast` only; C12 second pass).

Emits lean/TempestVerif/Gen/RunEntry.lean.  Expressions are emitted in `ast.unparse` form, so an edit that keeps the
meaning but not the text makes the obligations of Props/C12PostX.lean fail to `decide` — which is the intent: the hand-written
models `Model.RunEntry` / `Model.PosteriorX` mirror the source as it is, and must be re-mirrored when it changes.
The translator never guesses: an unrecognised shape gives status `unavailable` (dynamic suites then carry the tie alone).
"""
import ast
import os

from harness import common


class Unavailable(Exception):
    pass


def _parse(rel):
    path = os.path.join(common.REPO, rel)
    with open(path) as fh:
        return ast.parse(fh.read(), filename=path)


def _func(tree, cls, name):
    for node in ast.walk(tree):
        if isinstance(node, ast.ClassDef) and node.name == cls:
            for f in node.body:
                if isinstance(f, ast.FunctionDef) and f.name == name:
                    return f
    raise Unavailable(f"{cls}.{name} not found")


def _u(node):
    return ast.unparse(node)


def _self_calls(stmts):
    """names of `self.<method>(…)` calls (methods of the core itself, not of self.state / self.config …) in source order"""
    out = []
    for s in stmts:
        for n in ast.walk(s):
            if isinstance(n, ast.Call) and isinstance(n.func, ast.Attribute) and isinstance(n.func.value, ast.Name) \
                    and n.func.value.id == "self":
                out.append((n.lineno, n.col_offset, n.func.attr))
    return [a for _, _, a in sorted(out)]


def _assigns_to(stmts, target):
    """values (unparsed) assigned to the dotted/plain name `target` anywhere in stmts, in source order"""
    out = []
    for s in stmts:
        for n in ast.walk(s):
            if isinstance(n, ast.Assign) and len(n.targets) == 1 and _u(n.targets[0]) == target:
                out.append((n.lineno, _u(n.value)))
    return [v for _, v in sorted(out)]


def _arms(if_node):
    """an if / elif / else chain -> [(test or 'else', body)]"""
    arms = []
    node = if_node
    while True:
        arms.append((_u(node.test), node.body))
        if len(node.orelse) == 1 and isinstance(node.orelse[0], ast.If):
            node = node.orelse[0]
            continue
        arms.append(("else", node.orelse))
        return arms


def extract():
    t = {}
    core = _parse("tempest/core.py")
    rs = _func(core, "SamplerCore", "run_sampling")
    body = [s for s in rs.body if not (isinstance(s, ast.Expr) and isinstance(s.value, ast.Constant))]   # drop the docstring
    ei = [i for i, st in enumerate(body) if isinstance(st, ast.If) and "resume_state_path" in _u(st.test)]
    if len(ei) != 1:
        raise Unavailable("run_sampling: no (or more than one) if-chain testing resume_state_path")
    ei = ei[0]
    arms = _arms(body[ei])
    if not arms[-1][1]:
        raise Unavailable("run_sampling: entry chain without an else arm")
    t["runEntryTests"] = [a for a, _ in arms]
    t["runEntryCalls"] = [_self_calls(b) for _, b in arms]
    t["runEntryT0"] = ["|".join(_assigns_to(b, "t0")) for _, b in arms]
    # StateManager writes made directly in an arm (set_current("k", v)), in source order
    t["runEntryStateWrites"] = []
    for _, b in arms:
        ws = []
        for st in b:
            for n in ast.walk(st):
                if isinstance(n, ast.Call) and _u(n.func) in ("self.state.set_current", "self.state.update_current"):
                    ws.append((n.lineno, ", ".join(_u(a) for a in n.args)))
        t["runEntryStateWrites"].append("|".join(w for _, w in sorted(ws)))
    wi = [i for i, s in enumerate(body) if isinstance(s, ast.While)]
    if len(wi) != 1:
        raise Unavailable("run_sampling: expected exactly one while loop")
    # every assignment of the attribute n_total inside run_sampling, by region
    if wi[0] < ei:
        raise Unavailable("run_sampling: the loop precedes the entry chain")
    regions = {"before_entry": body[:ei], "entry": [body[ei]], "after_entry_before_loop": body[ei + 1:wi[0]], "loop": [body[wi[0]]],
               "after_loop": body[wi[0] + 1:]}
    pos = []
    for name, stmts in regions.items():
        for v in _assigns_to(stmts, "self.n_total"):
            pos.append(f"{name}: {v}")
    t["runNTotalAssign"] = pos
    # anything between the entry chain and the loop that could overwrite it again (loading a file)
    t["runPreLoopSelfCalls"] = _self_calls(body[ei + 1:wi[0]])
    t["runLoopSelfCalls"] = _self_calls([body[wi[0]]])
    nt = _func(core, "SamplerCore", "_not_termination")
    reads = sorted({_u(n) for n in ast.walk(nt) if isinstance(n, ast.Call) and _u(n.func) == "getattr" and "n_total" in _u(n)}
                   | {_u(n) for n in ast.walk(nt) if isinstance(n, ast.Attribute) and n.attr == "n_total"})
    t["termNTotalReads"] = reads
    ld = _func(core, "SamplerCore", "load_sampler_state")
    t["loadNTotalAssign"] = []
    for n in ast.walk(ld):
        if isinstance(n, ast.If):
            for v in _assigns_to(n.body, "self.n_total"):
                t["loadNTotalAssign"].append(f"{_u(n.test)}: {v}")
    if not t["loadNTotalAssign"] and _assigns_to(ld.body, "self.n_total"):
        t["loadNTotalAssign"] = ["unconditional: " + v for v in _assigns_to(ld.body, "self.n_total")]
    sv = _func(core, "SamplerCore", "save_sampler_state")
    t["saveNTotal"] = _assigns_to(sv.body, "d['n_total']")
    fr = _func(core, "SamplerCore", "_initialize_fresh")
    writes = []
    for n in ast.walk(fr):
        if isinstance(n, ast.Call) and _u(n.func) == "self.state.set_current" and len(n.args) >= 2:
            writes.append((n.lineno, f"{_u(n.args[0])}={_u(n.args[1])}"))
    t["initFreshWrites"] = [w for _, w in sorted(writes)]
    t["initFreshOtherCalls"] = sorted({_u(n.func) for n in ast.walk(fr) if isinstance(n, ast.Call)} - {"self.state.set_current"})
    ev = _func(core, "SamplerCore", "compute_evidence")
    t["evidenceReads"] = sorted({_u(n) for n in ast.walk(ev) if isinstance(n, ast.Call) and _u(n.func).startswith("self.state.")})

    # ---- compute_posterior glue
    post = _func(core, "SamplerCore", "compute_posterior")
    gate = None
    for s in post.body:
        if isinstance(s, ast.If) and _assigns_to(s.body, "blobs") and _assigns_to(s.orelse, "blobs"):
            gate = s
            break
    if gate is None:
        raise Unavailable("compute_posterior: no `if …: blobs = … else: blobs = …` gate")
    t["posteriorBlobGate"] = [_u(gate.test), "|".join(_assigns_to(gate.body, "blobs")), "|".join(_assigns_to(gate.orelse, "blobs"))]
    guards = []
    for flag in ("trim_importance_weights", "resample"):
        found = None
        for s in post.body:
            if isinstance(s, ast.If) and _u(s.test) == flag:
                found = s
        if found is None:
            raise Unavailable(f"compute_posterior: no `if {flag}:` branch")
        g = "unguarded"
        for sub in found.body:
            if isinstance(sub, ast.If) and _assigns_to(sub.body, "blobs"):
                g = _u(sub.test)
            elif isinstance(sub, ast.Assign) and _u(sub.targets[0]) == "blobs":
                g = "unguarded"
        guards.append(g)
    t["posteriorBlobGatherGuards"] = guards
    last = post.body[-1]
    if not (isinstance(last, ast.If) and len(last.body) == 1 and isinstance(last.body[0], ast.If)
            and len(last.orelse) == 1 and isinstance(last.orelse[0], ast.If)):
        raise Unavailable("compute_posterior: the return selector is not a two-level if")
    sel = []
    for outer, inner_if in ((_u(last.test), last.body[0]), ("else", last.orelse[0])):
        for inner, stmts in ((_u(inner_if.test), inner_if.body), ("else", inner_if.orelse)):
            if len(stmts) != 1 or not isinstance(stmts[0], ast.Return) or not isinstance(stmts[0].value, ast.Tuple):
                raise Unavailable("compute_posterior: a selector arm is not a single `return (…)`")
            names = [_u(e) for e in stmts[0].value.elts]
            sel.append((outer, inner, names))
    t["posteriorSelector"] = sel
    return t


def _s(x):
    return '"' + x.replace("\\", "\\\\").replace('"', '\\"') + '"'


def _ls(xs):
    return "[" + ", ".join(_s(x) for x in xs) + "]"


def render(t):
    L = ["/- GENERATED by translate/g12_entry.py from /repo's current source — do not edit. -/",
         "namespace Gen.RunEntry", ""]
    for k in ("runEntryTests", "runEntryT0", "runEntryStateWrites", "runNTotalAssign", "runPreLoopSelfCalls", "runLoopSelfCalls", "termNTotalReads",
              "loadNTotalAssign", "saveNTotal", "initFreshWrites", "initFreshOtherCalls", "evidenceReads", "posteriorBlobGate",
              "posteriorBlobGatherGuards"):
        L.append(f"def {k} : List String := {_ls(t[k])}")
    L.append("def runEntryCalls : List (List String) := [" + ", ".join(_ls(c) for c in t["runEntryCalls"]) + "]")
    L.append("def posteriorSelector : List (String × String × List String) := ["
             + ", ".join(f"({_s(a)}, {_s(b)}, {_ls(n)})" for a, b, n in t["posteriorSelector"]) + "]")
    L += ["", "end Gen.RunEntry", ""]
    return "\n".join(L)


def generate():
    try:
        t = extract()
    except Unavailable as e:
        return ("G12-run-entry", "unavailable", str(e))
    except (SyntaxError, OSError) as e:
        return ("G12-run-entry", "unavailable", f"{type(e).__name__}: {e}")
    changed = common.write_if_changed(os.path.join(common.GEN, "RunEntry.lean"), render(t))
    return ("G12-run-entry", "ok", f"{'re' if changed else ''}generated Gen/RunEntry.lean ({sum(len(v) for v in t.values())} entries)")


if __name__ == "__main__":
    import json
    print(json.dumps(extract(), indent=1))
    print(generate())
