"""G12 — the entry of `run_sampling`, where `n_total` is written and read, and the glue of `compute_posterior`
(blob gate, guarded blob gathers, return selector), regenerated from /repo's source (Python `ast` only; C12 second pass).

Emits lean/TempestVerif/Gen/RunEntry.lean.  Expressions are emitted in `ast.unparse` form, so an edit that keeps the
meaning but not the text makes the obligations of Props/C12PostX.lean fail to `decide` — which is the intent: the hand-written
models `Model.RunEntry` / `Model.PosteriorX` mirror the source as it is, and must be re-mirrored when it changes.
The translator never guesses: an unrecognised shape gives status `unavailable` (dynamic suites then carry the tie alone).
"""
import ast
import os

from harness import common


class Unavailable(Exception):
    pass


def _parse(rel):
    path = os.path.join(common.REPO, rel)
    with open(path) as fh:
        return ast.parse(fh.read(), filename=path)


def _func(tree, cls, name):
    for node in ast.walk(tree):
        if isinstance(node, ast.ClassDef) and node.name == cls:
            for f in node.body:
                if isinstance(f, ast.FunctionDef) and f.name == name:
                    return f
    raise Unavailable(f"{cls}.{name} not found")


def _u(node):
    return ast.unparse(node)


def _self_calls(stmts):
    """names of `self.<method>(…)` calls (methods of the core itself, not of self.state / self.config …) in source order"""
    out = []
    for s in stmts:
        for n in ast.walk(s):
            if isinstance(n, ast.Call) and isinstance(n.func, ast.Attribute) and isinstance(n.func.value, ast.Name) \
                    and n.func.value.id == "self":
                out.append((n.lineno, n.col_offset, n.func.attr))
    return [a for _, _, a in sorted(out)]


def _assigns_to(stmts, target):
    """values (unparsed) assigned to the dotted/plain name `target` anywhere in stmts, in source order"""
    out = []
    for s in stmts:
        for n in ast.walk(s):
            if isinstance(n, ast.Assign) and len(n.targets) == 1 and _u(n.targets[0]) == target:
                out.append((n.lineno, _u(n.value)))
    return [v for _, v in sorted(out)]


def _arms(if_node):
    """an if / elif / else chain -> [(test or 'else', body)]"""
    arms = []
    node = if_node
    while True:
        arms.append((_u(node.test), node.body))
        if len(node.orelse) == 1 and isinstance(node.orelse[0], ast.If):
            node = node.orelse[0]
            continue
        arms.append(("else", node.orelse))
        return arms


def extract():
    t = {}
    core = _parse("tempest/core.py")
    rs = _func(core, "SamplerCore", "run_sampling")
    body = [s for s in rs.body if not (isinstance(s, ast.Expr) and isinstance(s.value, ast.Constant))]   # drop the docstring
    ei = [i for i, st in enumerate(body) if isinstance(st, ast.If) and "resume_state_path" in _u(st.test)]
    if len(ei) != 1:
        raise Unavailable("run_sampling: no (or more than one) if-chain testing resume_state_path")
    ei = ei[0]
    arms = _arms(body[ei])
    if not arms[-1][1]:
        raise Unavailable("run_sampling: entry chain without an else arm")
    t["runEntryTests"] = [a for a, _ in arms]
    t["runEntryCalls"] = [_self_calls(b) for _, b in arms]
    t["runEntryT0"] = ["|".join(_assigns_to(b, "t0")) for _, b in arms]
    # StateManager writes made directly in an arm (set_current("k", v)), in source order
    t["runEntryStateWrites"] = []
    for _, b in arms:
        ws = []
        for st in b:
            for n in ast.walk(st):
                if isinstance(n, ast.Call) and _u(n.func) in ("self.state.set_current", "self.state.update_current"):
                    ws.append((n.lineno, ", ".join(_u(a) for a in n.args)))
        t["runEntryStateWrites"].append("|".join(w for _, w in sorted(ws)))
    wi = [i for i, s in enumerate(body) if isinstance(s, ast.While)]
    if len(wi) != 1:
        raise Unavailable("run_sampling: expected exactly one while loop")
    # every assignment of the attribute n_total inside run_sampling, by region
    if wi[0] < ei:
        raise Unavailable("run_sampling: the loop precedes the entry chain")
    regions = {"before_entry": body[:ei], "entry": [body[ei]], "after_entry_before_loop": body[ei + 1:wi[0]], "loop": [body[wi[0]]],
               "after_loop": body[wi[0] + 1:]}
    pos = []
    for name, stmts in regions.items():
        for v in _assigns_to(stmts, "self.n_total"):
            pos.append(f"{name}: {v}")
    t["runNTotalAssign"] = pos
    # anything between the entry chain and the loop that could overwrite it again (loading a file)
    t["runPreLoopSelfCalls"] = _self_calls(body[ei + 1:wi[0]])
    t["runLoopSelfCalls"] = _self_calls([body[wi[0]]])
    nt = _func(core, "SamplerCore", "_not_termination")
    reads = sorted({_u(n) for n in ast.walk(nt) if isinstance(n, ast.Call) and _u(n.func) == "getattr" and "n_total" in _u(n)}
                   | {_u(n) for n in ast.walk(nt) if isinstance(n, ast.Attribute) and n.attr == "n_total"})
    t["termNTotalReads"] = reads
    ld = _func(core, "SamplerCore", "load_sampler_state")
    t["loadNTotalAssign"] = []
    for n in ast.walk(ld):
        if isinstance(n, ast.If):
            for v in _assigns_to(n.body, "self.n_total"):
                t["loadNTotalAssign"].append(f"{_u(n.test)}: {v}")
    if not t["loadNTotalAssign"] and _assigns_to(ld.body, "self.n_total"):
        t["loadNTotalAssign"] = ["unconditional: " + v for v in _assigns_to(ld.body, "self.n_total")]
    sv = _func(core, "SamplerCore", "save_sampler_state")
    t["saveNTotal"] = _assigns_to(sv.body, "d['n_total']")
    fr = _func(core, "SamplerCore", "_initialize_fresh")
    writes = []
    for n in ast.walk(fr):
        if isinstance(n, ast.Call) and _u(n.func) == "self.state.set_current" and len(n.args) >= 2:
            writes.append((n.lineno, f"{_u(n.args[0])}={_u(n.args[1])}"))
    t["initFreshWrites"] = [w for _, w in sorted(writes)]
    t["initFreshOtherCalls"] = sorted({_u(n.func) for n in ast.walk(fr) if isinstance(n, ast.Call)} - {"self.state.set_current"})
    ev = _func(core, "SamplerCore", "compute_evidence")
    t["evidenceReads"] = sorted({_u(n) for n in ast.walk(ev) if isinstance(n, ast.Call) and _u(n.func).startswith("self.state.")})

    # ---- compute_posterior glue
    post = _func(core, "SamplerCore", "compute_posterior")
    gate = None
    for s in post.body:
        if isinstance(s, ast.If) and _assigns_to(s.body, "blobs") and _assigns_to(s.orelse, "blobs"):
            gate = s
            break
    if gate is None:
        raise Unavailable("compute_posterior: no `if …: blobs = … else: blobs = …` gate")
    t["posteriorBlobGate"] = [_u(gate.test), "|".join(_assigns_to(gate.body, "blobs")), "|".join(_assigns_to(gate.orelse, "blobs"))]
    guards = []
    for flag in ("trim_importance_weights", "resample"):
        found = None
        for s in post.body:
            if isinstance(s, ast.If) and _u(s.test) == flag:
                found = s
        if found is None:
            raise Unavailable(f"compute_posterior: no `if {flag}:` branch")
        g = "unguarded"
        for sub in found.body:
            if isinstance(sub, ast.If) and _assigns_to(sub.body, "blobs"):
                g = _u(sub.test)
            elif isinstance(sub, ast.Assign) and _u(sub.targets[0]) == "blobs":
                g = "unguarded"
        guards.append(g)
    t["posteriorBlobGatherGuards"] = guards
    last = post.body[-1]
    if not (isinstance(last, ast.If) and len(last.body) == 1 and isinstance(last.body[0], ast.If)
            and len(last.orelse) == 1 and isinstance(last.orelse[0], ast.If)):
        raise Unavailable("compute_posterior: the return selector is not a two-level if")
    sel = []
    for outer, inner_if in ((_u(last.test), last.body[0]), ("else", last.orelse[0])):
        for inner, stmts in ((_u(inner_if.test), inner_if.body), ("else", inner_if.orelse)):
            if len(stmts) != 1 or not isinstance(stmts[0], ast.Return) or not isinstance(stmts[0].value, ast.Tuple):
                raise Unavailable("compute_posterior: a selector arm is not a single `return (…)`")
            names = [_u(e) for e in stmts[0].value.elts]
            sel.append((outer, inner, names))
    t["posteriorSelector"] = sel
    return t


def _s(x):
    return '"' + x.replace("\\", "\\\\").replace('"', '\\"') + '"'


def _ls(xs):
    return "[" + ", ".join(_s(x) for x in xs) + "]"


def render(t):
    L = ["/- GENERATED by translate/g12_entry.py from /repo's current source — do not edit. -/",
         "namespace Gen.RunEntry", ""]
    for k in ("runEntryTests", "runEntryT0", "runEntryStateWrites", "runNTotalAssign", "runPreLoopSelfCalls", "runLoopSelfCalls", "termNTotalReads",
              "loadNTotalAssign", "saveNTotal", "initFreshWrites", "initFreshOtherCalls", "evidenceReads", "posteriorBlobGate",
              "posteriorBlobGatherGuards"):
        L.append(f"def {k} : List String := {_ls(t[k])}")
    L.append("def runEntryCalls : List (List String) := [" + ", ".join(_ls(c) for c in t["runEntryCalls"]) + "]")
    L.append("def posteriorSelector : List (String × String × List String) := ["
             + ", ".join(f"({_s(a)}, {_s(b)}, {_ls(n)})" for a, b, n in t["posteriorSelector"]) + "]")
    L += ["", "end Gen.RunEntry", ""]
    return "\n".join(L)


def generate():
    try:
        t = extract()
    except Unavailable as e:
        return ("G12-run-entry", "unavailable", str(e))
    except (SyntaxError, OSError) as e:
        return ("G12-run-entry", "unavailable", f"{type(e).__name__}: {e}")
    changed = common.write_if_changed(os.path.join(common.GEN, "RunEntry.lean"), render(t))
    return ("G12-run-entry", "ok", f"{'re' if changed else ''}generated Gen/RunEntry.lean ({sum(len(v) for v in t.values())} entries)")


if __name__ == "__main__":
    import json
    print(json.dumps(extract(), indent=1))
    print(generate())


# =====================================================================================================================
# SOURCE-DERIVED MODEL (C12 "source" pass): the tests, the arithmetic and the literals of `run_sampling`, `_not_termination`,
# `_initialize_fresh`, `execute_iteration`, `compute_evidence` (core.py) and the iteration counter of `Reweighter.run`, COMPILED to
# Lean terms (scalars over `Sc α` / `ScT α`, counters over `Nat` / `Int`), plus statement skeletons with LOCAL NAMES CANONICALISED
# (`v0, v1, …` by order of first assignment: a pure renaming of locals changes nothing).  Emits Gen/RunEntrySrc.lean;
# Props/C12Source.lean proves that `Model.RunEntry` / `Model.ClosedLoop` / `Model.Run` are built from exactly these terms.
#
# Parameters of a generated term are ordered by ROLE, never by order of appearance in the expression: parameters of the Python
# function in signature order, then current-state reads `cur_<key>` (alphabetical), then other atoms (alphabetical), then opaque
# locals in binding order — so an operand swap changes the term instead of silently permuting its parameters.
# =====================================================================================================================
import copy
from decimal import Decimal
from fractions import Fraction

SRC_NAME = "G12-run-entry-source"


def _safe(s, n=300):
    """one line, safe inside a Lean string literal or comment"""
    s = " ".join(str(s).split())
    s = s.replace("\\", "/").replace('"', "'").replace("/-", "/ -").replace("-/", "- /")
    return "".join(ch if ch.isprintable() else "?" for ch in s)[:n]


def _is_doc(st):
    return isinstance(st, ast.Expr) and isinstance(st.value, ast.Constant) and isinstance(st.value.value, str)


def _mentions(st, words):
    for n in ast.walk(st):
        if isinstance(n, ast.Name) and n.id in words:
            return True
        if isinstance(n, ast.Attribute) and n.attr in words:
            return True
    return False


_PBAR = ("pbar", "ProgressBar", "_update_progress_bar", "_update_progress_bar_initial")


def _clean(stmts):
    """statements without docstrings, imports, `pass` and progress-bar bookkeeping"""
    return [s for s in stmts if not _is_doc(s) and not isinstance(s, (ast.Import, ast.ImportFrom, ast.Pass))
            and not _mentions(s, _PBAR)]


def _fparams(fn):
    return [a.arg for a in fn.args.args + fn.args.kwonlyargs if a.arg != "self"]


def _locals_order(fn):
    ps = set(_fparams(fn))
    stores = sorted((n.lineno, n.col_offset, n.id) for n in ast.walk(fn)
                    if isinstance(n, ast.Name) and isinstance(n.ctx, ast.Store) and n.id not in ps)
    out = []
    for _l, _c, nm in stores:
        if nm not in out:
            out.append(nm)
    return out


class _Rename(ast.NodeTransformer):
    def __init__(self, m):
        self.m = m

    def visit_Name(self, n):
        return ast.copy_location(ast.Name(id=self.m.get(n.id, n.id), ctx=n.ctx), n)


def _src_skeleton(fn):
    """`path: statement` in program order; locals renamed v0, v1, … by first assignment (`_` kept); docstrings, imports and the
       progress bar dropped; unknown compound statements are refused"""
    ren = _Rename({nm: ("_" if nm == "_" else f"v{k}") for k, nm in enumerate(_locals_order(fn))})
    out = []

    def emit(path, node_or_text):
        text = node_or_text if isinstance(node_or_text, str) else ast.unparse(ren.visit(copy.deepcopy(node_or_text)))
        out.append(_safe(f"{path}: {text}"))

    def block(stmts, path):
        for k, st in enumerate(_clean(stmts)):
            p = f"{path}{k}"
            if isinstance(st, ast.If):
                emit(p, "if " + ast.unparse(ren.visit(copy.deepcopy(st.test))))
                block(st.body, p + "t.")
                if st.orelse:
                    block(st.orelse, p + "e.")
            elif isinstance(st, ast.While):
                if st.orelse:
                    raise Unavailable(f"{fn.name}: while … else")
                emit(p, "while " + ast.unparse(ren.visit(copy.deepcopy(st.test))))
                block(st.body, p + ".")
            elif isinstance(st, (ast.Assign, ast.AugAssign, ast.AnnAssign, ast.Return, ast.Expr, ast.Raise)):
                emit(p, st)
            else:
                raise Unavailable(f"{fn.name}: statement `{type(st).__name__}` (line {st.lineno}) outside the statement language")
    block(fn.body, "")
    return out


def _num_literal(v):
    """a non-negative Python numeric literal -> ('nat', n) | ('lit', m, e), exact"""
    if isinstance(v, bool) or not isinstance(v, (int, float)):
        raise Unavailable(f"literal {v!r} is not numeric")
    f = float(v)
    if f != f or f in (float("inf"), float("-inf")) or f < 0:
        raise Unavailable(f"literal {v!r} outside the literal language")
    if f == int(f) and f < 2 ** 53:
        return ("nat", int(f))
    d = Decimal(repr(f))
    _sign, digits, exp = d.as_tuple()
    m, e = int("".join(map(str, digits))), -exp
    if e <= 0 or float(Fraction(m, 10 ** e)) != f or e > 400:
        raise Unavailable(f"literal {v!r}: no exact short decimal form")
    return ("lit", m, e)


def _sc_lit(v):
    t = _num_literal(v)
    return f"(Sc.ofNat {t[1]})" if t[0] == "nat" else f"(Sc.lit {t[1]} {t[2]})"


def _is_get_current(n):
    """`self.state.get_current('k')` -> 'k'"""
    if isinstance(n, ast.Call) and _u(n.func) == "self.state.get_current" and len(n.args) == 1 and not n.keywords \
            and isinstance(n.args[0], ast.Constant) and isinstance(n.args[0].value, str) and n.args[0].value.isidentifier():
        return n.args[0].value
    return None


def _is_getattr_self(n):
    """`getattr(self, 'name', default)` -> (name, default node)"""
    if isinstance(n, ast.Call) and _u(n.func) == "getattr" and len(n.args) == 3 and _u(n.args[0]) == "self" \
            and isinstance(n.args[1], ast.Constant) and isinstance(n.args[1].value, str) and n.args[1].value.isidentifier():
        return n.args[1].value, n.args[2]
    return None


class _Fn:
    """one Python function: single-assignment locals, parameters, module constants"""

    def __init__(self, fn, consts):
        self.fn = fn
        self.params = _fparams(fn)
        self.locals = _locals_order(fn)
        self.consts = consts
        self.defs = {}
        for n in ast.walk(fn):
            if isinstance(n, ast.Assign) and len(n.targets) == 1 and isinstance(n.targets[0], ast.Name):
                self.defs.setdefault(n.targets[0].id, []).append(n.value)

    def definition(self, name):
        """the defining expression of a local assigned exactly once by a plain `name = expr` (tuple targets: none)"""
        d = self.defs.get(name, [])
        stores = [n for n in ast.walk(self.fn) if isinstance(n, ast.Name) and isinstance(n.ctx, ast.Store) and n.id == name]
        return d[0] if len(d) == 1 and len(stores) == 1 else None


class _Comp:
    """expression compiler; `kind` = 'sc' (terms over Sc α) or 'int' (Nat / Int counters)"""

    def __init__(self, F, kind, extra_atoms=None):
        self.F, self.kind = F, kind
        self.used = {}                    # lean parameter name -> sort key
        self.extra = extra_atoms or (lambda n: None)
        self.shadow = []

    def _use(self, nm, key):
        self.used[nm] = key
        return nm

    def params(self):
        return [k for k, _ in sorted(self.used.items(), key=lambda kv: kv[1])]

    def atom(self, n):
        k = _is_get_current(n)
        if k is not None:
            return self._use(f"cur_{k}", (1, k))
        g = _is_getattr_self(n)
        if g is not None:
            return self._use(f"attr_{g[0]}", (2, g[0]))
        x = self.extra(n)
        if x is not None:
            return self._use(x, (2, x))
        return None

    def name(self, n):
        nm = n.id
        if nm in self.F.params:
            return self._use(f"a_{nm}" if not nm.isascii() else nm + "_", (0, self.F.params.index(nm)))
        if nm in self.F.locals:
            d = self.F.definition(nm)
            if d is not None:
                a = self.atom(d)
                if a is not None:
                    return a
                try:                                  # a pure temporary (`is_due = …`) is inlined
                    saved = dict(self.used)
                    return self.term(d) if not isinstance(d, (ast.Compare, ast.BoolOp)) else self.test(d)
                except Unavailable:
                    self.used = saved
            k = self.F.locals.index(nm)
            return self._use(f"loc{k}", (3, k))
        if nm in self.F.consts:
            return self.term(self.F.consts[nm])
        raise Unavailable(f"{self.F.fn.name}: free name {_safe(nm)!r}")

    def term(self, n):
        a = self.atom(n)
        if a is not None:
            return a
        if isinstance(n, ast.Constant):
            if self.kind == "sc":
                return _sc_lit(n.value)
            if isinstance(n.value, int) and not isinstance(n.value, bool) and n.value >= 0:
                return str(n.value)
            raise Unavailable(f"literal {n.value!r} in a counter expression")
        if isinstance(n, ast.Name):
            return self.name(n)
        if isinstance(n, ast.UnaryOp) and isinstance(n.op, ast.USub) and self.kind == "sc":
            return f"(Sc.neg {self.term(n.operand)})"
        if isinstance(n, ast.BinOp):
            a, b = self.term(n.left), self.term(n.right)
            if self.kind == "sc":
                op = {ast.Add: "Sc.add", ast.Sub: "Sc.sub", ast.Mult: "Sc.mul", ast.Div: "Sc.div"}.get(type(n.op))
                if op is None:
                    raise Unavailable(f"operator {type(n.op).__name__}")
                return f"({op} {a} {b})"
            op = {ast.Add: "+", ast.Sub: "-", ast.Mult: "*", ast.Mod: "%", ast.FloorDiv: "/"}.get(type(n.op))
            if op is None:
                raise Unavailable(f"operator {type(n.op).__name__}")
            return f"({a} {op} {b})"
        if isinstance(n, ast.Call) and not n.keywords and len(n.args) == 1:
            f = _u(n.func)
            if self.kind == "int" and f == "int":
                return self.term(n.args[0])
            if self.kind == "sc" and f in ("np.exp", "math.exp"):
                return f"(ScT.exp {self.term(n.args[0])})"
            if self.kind == "sc" and f in ("np.abs", "abs"):
                return f"(Sc.abs {self.term(n.args[0])})"
            if self.kind == "sc" and f == "float":
                return self.term(n.args[0])
        if isinstance(n, ast.IfExp) and self.kind == "int":
            t = n.test
            if isinstance(t, ast.Compare) and len(t.ops) == 1 and isinstance(t.ops[0], (ast.Is, ast.IsNot)) \
                    and isinstance(t.comparators[0], ast.Constant) and t.comparators[0].value is None:
                x = self.term(t.left)
                self.opt = getattr(self, "opt", set()) | {x}
                some, none = (n.body, n.orelse) if isinstance(t.ops[0], ast.IsNot) else (n.orelse, n.body)
                return f"(match {x} with | some {x} => {self.term(some)} | none => {self.term(none)})"
        raise Unavailable(f"{self.F.fn.name}: expression `{_safe(ast.unparse(n), 80)}` outside the expression language")

    def test(self, n):
        if isinstance(n, ast.BoolOp):
            op = "||" if isinstance(n.op, ast.Or) else "&&"
            return "(" + f" {op} ".join(self.test(v) for v in n.values) + ")"
        if isinstance(n, ast.UnaryOp) and isinstance(n.op, ast.Not):
            return f"(!{self.test(n.operand)})"
        if isinstance(n, ast.Constant) and isinstance(n.value, bool):
            return "true" if n.value else "false"
        if isinstance(n, ast.Name):
            d = self.F.definition(n.id) if n.id in self.F.locals else None
            if d is not None:
                return self.test(d)
        if not (isinstance(n, ast.Compare) and len(n.ops) == 1):
            raise Unavailable(f"{self.F.fn.name}: test `{_safe(ast.unparse(n), 80)}` is not a comparison")
        op, l, r = type(n.ops[0]), n.left, n.comparators[0]
        if op in (ast.Is, ast.IsNot) and isinstance(r, ast.Constant) and r.value is None and isinstance(l, ast.Name) \
                and l.id in self.F.params:
            g = self._use(f"given_{l.id}" if l.id.isascii() else f"given_{self.F.params.index(l.id)}", (0, self.F.params.index(l.id)))
            self.bools = getattr(self, "bools", set()) | {g}
            return g if op is ast.IsNot else f"(!{g})"
        a, b = self.term(l), self.term(r)
        if self.kind == "sc":
            if op is ast.Eq:
                return f"(Sc.le {a} {b} && Sc.le {b} {a})"
            f = {ast.Lt: "Sc.lt", ast.LtE: "Sc.le", ast.Gt: "Sc.gt", ast.GtE: "Sc.ge"}.get(op)
            if f is None:
                raise Unavailable(f"comparison {op.__name__}")
            return f"({f} {a} {b})"
        f = {ast.Eq: "({} == {})", ast.NotEq: "({} != {})", ast.Lt: "decide ({} < {})", ast.LtE: "decide ({} ≤ {})",
             ast.Gt: "decide ({} > {})", ast.GtE: "decide ({} ≥ {})"}.get(op)
        if f is None:
            raise Unavailable(f"comparison {op.__name__}")
        return f.format(a, b)


def _defn(name, comment, params, ty, body):
    ps = "".join(f" ({p} : {t})" for p, t in params)
    sig = ps + " : " + ty
    if "α" in sig:                       # the weakest interface the term needs (so that it also runs at `Rat`)
        ps = " {α : Type} " + ("[ScT α]" if "ScT." in body else "[Sc α]") + ps
    return f"/-- `{_safe(comment, 160)}` -/\ndef {name}{ps} : {ty} := {body}"


def _module_consts(*rels):
    out = {}
    for rel in rels:
        try:
            tree = _parse(rel)
        except (OSError, SyntaxError):
            continue
        for st in tree.body:
            if isinstance(st, ast.Assign) and len(st.targets) == 1 and isinstance(st.targets[0], ast.Name) \
                    and isinstance(st.value, ast.Constant) and isinstance(st.value.value, (int, float)) \
                    and not isinstance(st.value.value, bool):
                out[st.targets[0].id] = st.value
    return out


def _only1(xs, what):
    xs = list(xs)
    if len(xs) != 1:
        raise Unavailable(f"expected exactly one {what}, found {len(xs)}")
    return xs[0]


def _evidence_call(stmts, where):
    """`(a, b) = self.state.compute_logw_and_logz(ARG)` among stmts -> (statement, [names], ARG)"""
    hits = [s for s in stmts if isinstance(s, ast.Assign) and isinstance(s.value, ast.Call)
            and _u(s.value.func) == "self.state.compute_logw_and_logz"]
    s = _only1(hits, f"`… = self.state.compute_logw_and_logz(…)` in {where}")
    t = s.targets[0]
    if not (len(s.targets) == 1 and isinstance(t, ast.Tuple) and all(isinstance(e, ast.Name) for e in t.elts)
            and len(s.value.args) == 1 and not s.value.keywords):
        raise Unavailable(f"{where}: the result of compute_logw_and_logz is not unpacked into a tuple of names")
    return s, [e.id for e in t.elts], s.value.args[0]


def extract_src():
    defs, tabs = [], {}
    consts = _module_consts("tempest/config.py", "tempest/core.py")
    core = _parse("tempest/core.py")

    # ------------------------------------------------------------------------------------------------ _not_termination
    nt = _func(core, "SamplerCore", "_not_termination")
    F = _Fn(nt, consts)
    body = _clean(nt.body)
    _s, names, arg = _evidence_call(body, "_not_termination")
    loads = {n.id for n in ast.walk(nt) if isinstance(n, ast.Name) and isinstance(n.ctx, ast.Load)}
    logw = _only1([nm for nm in names if nm in loads], "used component of compute_logw_and_logz's result in _not_termination")
    c = _Comp(F, "sc")
    defs.append(_defn("termEvidenceArg", "argument of compute_logw_and_logz in _not_termination", [], "α", c.term(arg)))
    defs.append(_defn("termLogwSlot", "which component of the result is the log-weight vector", [], "Nat", str(names.index(logw))))
    guards = [s for s in body if isinstance(s, ast.If) and not s.orelse and len(_clean(s.body)) == 1
              and isinstance(_clean(s.body)[0], ast.Return)]
    if len(guards) > 1:
        raise Unavailable("_not_termination: more than one early return")
    if guards:
        g = guards[0]
        ret = _clean(g.body)[0].value
        if not (isinstance(ret, ast.Constant) and isinstance(ret.value, bool)):
            raise Unavailable("_not_termination: the early return is not a boolean literal")

        def len_atom(n):
            if isinstance(n, ast.Call) and _u(n.func) == "len" and len(n.args) == 1 and isinstance(n.args[0], ast.Name):
                if n.args[0].id != logw:
                    raise Unavailable("_not_termination: the early return tests the length of something else than the log-weights")
                return "len_logw"
            return None
        ci = _Comp(F, "int", len_atom)
        t = ci.test(g.test)
        if ci.params() not in ([], ["len_logw"]):
            raise Unavailable(f"_not_termination: the early-return test reads {ci.params()}")
        defs.append(_defn("termEmptyTest", ast.unparse(g.test), [("len_logw", "Nat")], "Bool", t))
        defs.append(_defn("termEmptyReturn", "value of the early return", [], "Bool", "true" if ret.value else "false"))
    else:
        defs.append(_defn("termEmptyTest", "no early return in _not_termination", [("len_logw", "Nat")], "Bool", "false"))
        defs.append(_defn("termEmptyReturn", "no early return", [], "Bool", "true"))
    rets = [s for s in body if isinstance(s, ast.Return)]
    ret = _only1(rets, "final return of _not_termination").value
    cr = _Comp(F, "sc")
    rt = cr.test(ret)
    ps = cr.params()
    opaque = [p for p in ps if p.startswith("loc")]
    if sorted(p for p in ps if not p.startswith("loc")) != ["attr_n_total", "cur_beta"] or len(opaque) != 1:
        raise Unavailable(f"_not_termination: the returned test reads {ps} (expected beta, the attribute n_total and one computed local)")
    defs.append(_defn("termReturn", ast.unparse(ret), [(p, "α") for p in ps], "Bool", rt))
    if ps != ["cur_beta", "attr_n_total", opaque[0]]:
        raise Unavailable("internal: parameter order")
    g = [_is_getattr_self(n) for n in ast.walk(ret)]
    g = _only1([x for x in g if x is not None and x[0] == "n_total"], "getattr(self, 'n_total', default)")
    if not (isinstance(g[1], ast.Constant) and isinstance(g[1].value, int) and not isinstance(g[1].value, bool) and g[1].value >= 0):
        raise Unavailable("_not_termination: the default of getattr(self, 'n_total', …) is not a natural-number literal")
    defs.append(_defn("termNTotalDefault", "default of getattr(self, 'n_total', …)", [], "Nat", str(g[1].value)))
    # the tolerance: the name-free side of the comparison that reads beta
    tol = None
    for n in ast.walk(ret):
        if isinstance(n, ast.Compare) and len(n.ops) == 1:
            for side, other in ((n.left, n.comparators[0]), (n.comparators[0], n.left)):
                reads_beta = any(_is_get_current(x) == "beta" or (isinstance(x, ast.Name) and F.definition(x.id) is not None
                                 and _is_get_current(F.definition(x.id)) == "beta") for x in ast.walk(other))
                pure = all(not isinstance(x, ast.Name) or x.id in consts for x in ast.walk(side)) \
                    and not any(isinstance(x, ast.Call) for x in ast.walk(side))
                if reads_beta and pure and tol is None:
                    tol = side
    if tol is None:
        raise Unavailable("_not_termination: no comparison of an expression in beta with a constant")
    defs.append(_defn("termTol", "the constant beta's distance from one is compared with", [], "α", _Comp(F, "sc").term(tol)))
    # how the ESS is computed: ess = effective_sample_size(<elementwise expression in logw and np.max(logw)>)
    ess_name = F.locals[int(opaque[0][3:])]
    d = F.definition(ess_name)
    if not (isinstance(d, ast.Call) and _u(d.func) == "effective_sample_size" and len(d.args) == 1 and not d.keywords):
        raise Unavailable(f"_not_termination: `{_safe(ess_name)}` is not `effective_sample_size(<weights>)`")
    w = d.args[0]
    if isinstance(w, ast.Name) and F.definition(w.id) is not None:
        w = F.definition(w.id)

    def vec_atom(n):
        if isinstance(n, ast.Name) and n.id == logw:
            return "e"
        if isinstance(n, ast.Call) and _u(n.func) in ("np.max", "np.amax", "max") and len(n.args) == 1 and not n.keywords \
                and isinstance(n.args[0], ast.Name) and n.args[0].id == logw:
            return "mx"
        return None
    F2 = _Fn(nt, consts)
    F2.locals = [x for x in F2.locals if x != logw]
    cw = _Comp(F2, "sc", vec_atom)
    wt = cw.term(w)
    if not set(cw.params()) <= {"e", "mx"}:
        raise Unavailable(f"_not_termination: the weights read {cw.params()}")
    defs.append(_defn("termWeight", "one element of " + ast.unparse(w) + "  (e: the element, mx: np.max of the vector)",
                      [("e", "α"), ("mx", "α")], "α", wt))
    tabs["termSkeleton"] = _src_skeleton(nt)

    # ------------------------------------------------------------------------------------------------ run_sampling
    rs = _func(core, "SamplerCore", "run_sampling")
    F = _Fn(rs, consts)
    body = _clean(rs.body)
    ei = [i for i, st in enumerate(body) if isinstance(st, ast.If) and "resume_state_path" in _u(st.test)]
    if len(ei) != 1:
        raise Unavailable("run_sampling: no (or more than one) top-level if-chain testing resume_state_path")
    ei = ei[0]
    wi = [i for i, s in enumerate(body) if isinstance(s, ast.While)]
    if len(wi) != 1 or wi[0] < ei:
        raise Unavailable("run_sampling: expected exactly one while loop, after the entry chain")
    wi = wi[0]
    chain, arms, node = body[ei], [], body[ei]
    while True:
        arms.append((node.test, node.body))
        if len(node.orelse) == 1 and isinstance(node.orelse[0], ast.If):
            node = node.orelse[0]
            continue
        arms.append((None, node.orelse))
        break
    if len(arms) != 3 or not arms[2][1]:
        raise Unavailable(f"run_sampling: the entry chain has {len(arms)} arms (expected if / elif / else)")

    def hist_atom(n):
        if isinstance(n, ast.Call) and _u(n.func) == "self.state.get_history_length" and not n.args and not n.keywords:
            return "history_length"
        return None
    tags, tests = [], []
    for test, b in arms:
        calls = [x for x in _self_calls(b) if x not in _PBAR]
        tag = {("_initialize_from_resume",): "resume", (): "continue", ("_initialize_fresh",): "fresh"}.get(tuple(calls))
        if tag is None:
            raise Unavailable(f"run_sampling: an entry arm calls {calls}")
        tags.append(tag)
        if test is not None:
            ct = _Comp(F, "int", hist_atom)
            tests.append(ct.test(test))
            if not set(ct.params()) <= {"given_resume_state_path", "history_length"}:
                raise Unavailable(f"run_sampling: an entry test reads {ct.params()}")
    if sorted(tags) != ["continue", "fresh", "resume"]:
        raise Unavailable(f"run_sampling: entry arms {tags}")
    defs.append(_defn("entryArm", " / ".join(ast.unparse(t) for t, _ in arms if t is not None) + " / else",
                      [("given_resume_state_path", "Bool"), ("history_length", "Nat")], "String",
                      f'if {tests[0]} then "{tags[0]}" else if {tests[1]} then "{tags[1]}" else "{tags[2]}"'))
    pre = body[ei + 1:wi]
    t0s = [s for s in pre if isinstance(s, ast.Assign) and len(s.targets) == 1 and _u(s.targets[0]) == "self.t0"]
    nts = [s for s in pre if isinstance(s, ast.Assign) and len(s.targets) == 1 and _u(s.targets[0]) == "self.n_total"]
    if len(t0s) > 1 or len(nts) > 1:
        raise Unavailable("run_sampling: self.t0 / self.n_total assigned more than once before the loop")
    t0name = t0s[0].value.id if t0s and isinstance(t0s[0].value, ast.Name) else None
    if t0s and t0name is None:
        raise Unavailable("run_sampling: self.t0 is not assigned from a local")
    loopcall = [n for n in ast.walk(body[wi]) if isinstance(n, ast.Call) and _u(n.func) == "self.execute_iteration"]
    kw = {k.arg: _u(k.value) for k in loopcall[0].keywords} if len(loopcall) == 1 else {}
    t0loop = kw.get("t0")
    if t0name is None:
        t0name = t0loop
    if t0name is None:
        raise Unavailable("run_sampling: cannot tell which local is t0")
    for (test, b), tag in zip(arms, tags):
        vals = [n.value for st in b for n in ast.walk(st)
                if isinstance(n, ast.Assign) and len(n.targets) == 1 and _u(n.targets[0]) == t0name]
        v = _only1(vals, f"assignment of `{_safe(t0name)}` in the {tag} arm")
        Fa = _Fn(ast.FunctionDef(name="run_sampling", args=rs.args, body=b, decorator_list=[], lineno=rs.lineno), consts)
        ca = _Comp(Fa, "int")
        tv = ca.term(v)
        if not set(ca.params()) <= {"cur_iter"}:
            raise Unavailable(f"run_sampling: t0 of the {tag} arm reads {ca.params()}")
        ty = "Option Nat" if "cur_iter" in getattr(ca, "opt", set()) else "Nat"
        if "cur_iter" in ca.params() and ty == "Nat":
            tv = tv     # `int(iter_val)` without the None test: still a function of the counter
            defs.append(_defn("entryT0" + tag.capitalize(), ast.unparse(v), [("cur_iter", "Option Nat")], "Nat",
                              f"(match cur_iter with | some cur_iter => {tv} | none => 0)") + "  -- no None test in the source")
        else:
            defs.append(_defn("entryT0" + tag.capitalize(), ast.unparse(v), [("cur_iter", "Option Nat")], "Nat", tv))
    if nts:
        cn = _Comp(F, "int")
        v = cn.term(nts[0].value)
        if cn.params() != ["n_total_"]:
            raise Unavailable(f"run_sampling: self.n_total is computed from {cn.params()}")
        defs.append(_defn("prologueNTotal", ast.unparse(nts[0]), [("n_total_", "Nat")], "Option Nat", f"some {v}"))
    else:
        defs.append(_defn("prologueNTotal", "self.n_total is NOT assigned between the entry chain and the loop", [("n_total_", "Nat")],
                          "Option Nat", "none"))
    defs.append(_defn("prologueT0Stored", "self.t0 = <the local t0> before the loop", [], "Bool", "true" if t0s else "false"))
    defs.append(_defn("loopPassesT0", "the loop hands the same local to execute_iteration(t0=…)", [], "Bool",
                      "true" if t0loop == t0name else "false"))
    post = body[wi + 1:]
    try:
        _s, names, arg = _evidence_call(post, "the epilogue of run_sampling")
        defs.append(_defn("epilogueArg", "argument of compute_logw_and_logz after the loop", [], "α", _Comp(F, "sc").term(arg)))
        sets = [n for st in post for n in ast.walk(st) if isinstance(n, ast.Call) and _u(n.func) == "self.state.set_current"]
        st = _only1(sets, "set_current in the epilogue")
        if not (len(st.args) == 2 and isinstance(st.args[0], ast.Constant) and isinstance(st.args[0].value, str)
                and isinstance(st.args[1], ast.Name) and st.args[1].id in names):
            raise Unavailable("run_sampling: the epilogue's set_current does not store a component of compute_logw_and_logz's result")
        defs.append(_defn("epilogueKey", "state key written after the loop", [], "String", '"' + _safe(st.args[0].value) + '"'))
        defs.append(_defn("epilogueSlot", "which component of the result is stored", [], "Nat", str(names.index(st.args[1].id))))
    except Unavailable as e:
        if "found 0" not in str(e):
            raise
        defs.append(_defn("epilogueArg", "NO compute_logw_and_logz after the loop", [], "α", "(Sc.ofNat 0)"))
        defs.append(_defn("epilogueKey", "nothing written after the loop", [], "String", '""'))
        defs.append(_defn("epilogueSlot", "nothing stored", [], "Nat", "0"))
    tabs["runSkeleton"] = _src_skeleton(rs)

    # ------------------------------------------------------------------------------------------------ _initialize_fresh
    fr = _func(core, "SamplerCore", "_initialize_fresh")
    F = _Fn(fr, consts)
    writes = {}
    order = []
    for n in sorted((n for n in ast.walk(fr) if isinstance(n, ast.Call) and _u(n.func) == "self.state.set_current"),
                    key=lambda n: (n.lineno, n.col_offset)):
        if not (len(n.args) == 2 and isinstance(n.args[0], ast.Constant) and isinstance(n.args[0].value, str)):
            raise Unavailable("_initialize_fresh: set_current with a non-literal key")
        writes[n.args[0].value] = n.args[1]
        order.append(_safe(n.args[0].value))
    tabs["freshWrites"] = order
    for key, kind, ty in (("iter", "int", "Nat"), ("calls", "int", "Nat"), ("beta", "sc", "α"), ("logz", "sc", "α")):
        if key in writes:
            cf = _Comp(F, kind)
            v = cf.term(writes[key])
            if cf.params():
                raise Unavailable(f"_initialize_fresh: the value of {key} reads {cf.params()}")
            defs.append(_defn("fresh" + key.capitalize(), f"set_current('{key}', …)", [], f"Option {ty}", f"some {v}"))
        else:
            defs.append(_defn("fresh" + key.capitalize(), f"'{key}' is NOT written by _initialize_fresh", [], f"Option {ty}", "none"))
    tabs["freshSkeleton"] = _src_skeleton(fr)
    tabs["resumeSkeleton"] = _src_skeleton(_func(core, "SamplerCore", "_initialize_from_resume"))

    # ------------------------------------------------------------------------------------------------ execute_iteration
    ex = _func(core, "SamplerCore", "execute_iteration")
    F = _Fn(ex, consts)
    saves = [n for n in ast.walk(ex) if isinstance(n, ast.If)
             and any(isinstance(c, ast.Call) and _u(c.func) == "self.save_sampler_state" for st in n.body for c in ast.walk(st))
             and not (isinstance(n.test, ast.Compare) and isinstance(n.test.ops[0], (ast.Is, ast.IsNot)))]
    sv = _only1(saves, "periodic-save test in execute_iteration")
    cs = _Comp(F, "int")
    t = cs.test(sv.test)
    if cs.params() != ["save_every_", "t0_", "cur_iter"]:
        raise Unavailable(f"execute_iteration: the periodic-save test reads {cs.params()}")
    defs.append(_defn("saveTest", ast.unparse(sv.test), [(p, "Int") for p in cs.params()], "Bool", t))
    tabs["iterSkeleton"] = _src_skeleton(ex)

    # ------------------------------------------------------------------------------------------------ compute_evidence
    ev = _func(core, "SamplerCore", "compute_evidence")
    F = _Fn(ev, consts)
    r = _only1([s for s in _clean(ev.body) if isinstance(s, ast.Return)], "return of compute_evidence").value
    first = r.elts[0] if isinstance(r, ast.Tuple) and r.elts else r
    if isinstance(first, ast.Name) and F.definition(first.id) is not None:
        first = F.definition(first.id)
    k = _is_get_current(first)
    if k is None:
        raise Unavailable("compute_evidence: the first returned value is not a current-state read")
    defs.append(_defn("evidenceKey", "state key compute_evidence()[0] reads", [], "String", '"' + _safe(k) + '"'))
    tabs["evidenceSkeleton"] = _src_skeleton(ev)

    # ------------------------------------------------------------------------------------------------ Reweighter.run: iter + 1
    rw = _parse("tempest/steps/reweight.py")
    run = _func(rw, "Reweighter", "run")
    F = _Fn(run, _module_consts("tempest/config.py", "tempest/steps/reweight.py"))
    its = [n for n in ast.walk(run) if isinstance(n, ast.Call) and _u(n.func) == "self.state.set_current" and len(n.args) == 2
           and isinstance(n.args[0], ast.Constant) and n.args[0].value == "iter"]
    it = _only1(its, "set_current('iter', …) in Reweighter.run")
    ci = _Comp(F, "int")
    v = ci.term(it.args[1])
    if ci.params() != ["cur_iter"]:
        raise Unavailable(f"Reweighter.run: the new iteration number reads {ci.params()}")
    defs.append(_defn("iterNext", "set_current('iter', " + ast.unparse(it.args[1]) + ")", [("cur_iter", "Nat")], "Nat", v))
    return defs, tabs


def render_src(defs, tabs):
    L = ["/- GENERATED by translate/g12_entry.py (extract_src) from /repo's current source — do not edit. -/",
         "import TempestVerif.Sc", "set_option linter.unusedVariables false", "namespace Gen.RunEntrySrc", ""]
    for d in defs:
        L += [d, ""]
    for k, v in tabs.items():
        L += [f"def {k} : List String :=\n  [" + ",\n   ".join('"' + _safe(x) + '"' for x in v) + "]", ""]
    L += ["end Gen.RunEntrySrc", ""]
    return "\n".join(L)


def generate_src():
    try:
        defs, tabs = extract_src()
        text = render_src(defs, tabs)
    except Unavailable as e:
        return (SRC_NAME, "unavailable", _safe(e))
    except (SyntaxError, OSError, RecursionError, UnicodeError) as e:
        return (SRC_NAME, "unavailable", _safe(f"{type(e).__name__}: {e}"))
    except (AttributeError, IndexError, KeyError, TypeError, ValueError) as e:      # an AST shape the reader did not foresee
        return (SRC_NAME, "unavailable", _safe(f"unforeseen source shape ({type(e).__name__}: {e})"))
    changed = common.write_if_changed(os.path.join(common.GEN, "RunEntrySrc.lean"), text)
    return (SRC_NAME, "ok", f"{'re' if changed else ''}generated Gen/RunEntrySrc.lean ({len(defs)} terms, "
                            f"{sum(len(v) for v in tabs.values())} statements)")
